"""Abstract model of loops and comprehensions over list-valued fields whose relevant content is described by a ghost:
"the list contains an element that satisfies the relation R" (R = a conjunction of per-element facts).

For a `for v in <list>` loop the model binds v, on the T edge, to an abstract element: a *match* (all facts true; only possible
when the ghost of its source list is 'T') or an *other* element (any combination of facts except all-true).  The F edge (list
exhausted) is feasible only if, for every source list whose ghost is 'T', a match element has been visited.  So a search loop is
explored exactly: with the ghost 'T' every feasible path meets a match, with 'F' none does -- however the loop is spelled
(early return, flag, for+if+append, helper with the list as a parameter, concatenated lists).
Local lists built from such loops / comprehensions are tracked as 'EM' (empty) / 'NE' (non-empty)."""
import ast
import itertools

from .cfg import calls_at, call_attr
from .norm import FrameEnv, subst

EMPTY, NONEMPTY = 'EM', 'NE'


def list_sources(e, env):
    """canonical texts of the self.<list> fields an iterable draws from (after substitution through frames), or None"""
    e = subst(e, env)

    def rec(x):
        if isinstance(x, ast.Call) and isinstance(x.func, ast.Name) and x.func.id in ('list', 'tuple', 'iter') and len(x.args) == 1:
            return rec(x.args[0])
        if isinstance(x, ast.Call) and isinstance(x.func, ast.Attribute) and x.func.attr == 'copy' and not x.args:
            return rec(x.func.value)
        if isinstance(x, ast.Subscript) and isinstance(x.slice, ast.Slice) and x.slice.lower is None and x.slice.upper is None and x.slice.step is None:
            return rec(x.value)
        if isinstance(x, ast.BinOp) and isinstance(x.op, ast.Add):
            a, b = rec(x.left), rec(x.right)
            return None if a is None or b is None else a + b
        if isinstance(x, ast.Call) and ast.unparse(x.func) in ('itertools.chain', 'chain'):
            out = []
            for a in x.args:
                r = rec(a)
                if r is None:
                    return None
                out += r
            return out
        if isinstance(x, ast.Attribute) and isinstance(x.value, ast.Name) and x.value.id == 'self':
            return ['self.' + x.attr]
        return None
    return rec(e)


class ExistsLoops:
    def __init__(self, sources, facts):
        """sources: {'self._list': ghost field};  facts: [(name, matcher(test, var, frame) -> True | False | None)]
        matcher returns True when `test` states the fact about the element bound to `var`, False when it states its negation"""
        self.sources = dict(sources)
        self.facts = list(facts)
        self.loop_vars = {}

    def fields(self):
        return list(self.sources.values()) + ['#el'] + [f'#fact:{n}' for n, _ in self.facts]

    def entry(self, **ghosts):
        d = {g: ghosts.get(g, '?') for g in self.sources.values()}
        d['#el'] = '-'
        for n, _ in self.facts:
            d[f'#fact:{n}'] = '?'
        return d

    # ---- hooks -----------------------------------------------------------------------------------------
    def install(self, an):
        an.node_hooks.append(self.node_hook)
        an.edge_hooks.append(self.edge_hook)
        an.refine_hooks.insert(0, self.refine_hook)
        an.expr_hooks.append(self.expr_hook)

    def _modelled(self, n):
        if n.kind != 'for' or not isinstance(n.ast.target, ast.Name):
            return None
        srcs = list_sources(n.ast.iter, FrameEnv(n.frame))
        if not srcs or any(s not in self.sources for s in srcs):
            return None
        return srcs

    def node_hook(self, an, n, before, after):
        st = after
        if n.kind == 'for':
            srcs = self._modelled(n)
            if srcs is None:
                return st
            var = n.ast.target.id
            self.loop_vars[(n.frame.id, var)] = n.id
            outs = []
            names = [nm for nm, _ in self.facts]
            for s in srcs:
                ghost = st.fields.get(self.sources[s])
                for combo in itertools.product('TF', repeat=len(names)):
                    is_match = all(c == 'T' for c in combo)
                    if is_match and ghost == 'F':
                        continue
                    x = st.with_field('#el', f'{n.id}:{s}:{"match" if is_match else "other"}')
                    for nm, c in zip(names, combo):
                        x = x.with_field(f'#fact:{nm}', c)
                    if is_match:
                        x = x.with_flag(f'seen-match:{n.id}:{s}')
                    x.locals[(n.frame.id, var)] = 'S'
                    outs.append(x)
            if all(st.fields.get(self.sources[s]) != 'T' or f'seen-match:{n.id}:{s}' in st.flags for s in srcs):
                end = st.with_field('#el', f'{n.id}:END')
                end = end.without_flag(*[f for f in end.flags if f.startswith(f'seen-match:{n.id}:')])
                outs.append(end)
            return outs
        # local lists: `L = []` is evaluated by expr_hook; `L.append(x)` makes L non-empty
        if n.kind == 'stmt':
            for cl in calls_at(an.g, n):
                if call_attr(cl) in ('append', 'insert', 'add') and isinstance(cl.func, ast.Attribute) and isinstance(cl.func.value, ast.Name):
                    k = (n.frame.id, cl.func.value.id)
                    if st.locals.get(k) in (EMPTY, NONEMPTY):
                        st = st.copy()
                        st.locals[k] = NONEMPTY
        return st

    def edge_hook(self, an, n, label, st):
        if n.kind == 'for' and self._modelled(n) is not None:
            el = st.fields.get('#el', '-')
            if not el.startswith(f'{n.id}:'):
                return st
            if label == 'T' and el.endswith(':END'):
                return None
            if label == 'F' and not el.endswith(':END'):
                return None
        return st

    def fact_of(self, test, frame):
        """(fact name, polarity) if test is a recognised fact about the element of an enclosing modelled loop"""
        for (fid, var), nid in self.loop_vars.items():
            if fid != frame.id:
                continue
            for nm, m in self.facts:
                r = m(test, var, frame)
                if r is not None:
                    return nm, r
        return None

    def refine_hook(self, an, test, truth, st, frame):
        r = self.fact_of(test, frame)
        if r is not None:
            nm, pol = r
            want = 'T' if (truth == pol) else 'F'
            cur = st.fields.get(f'#fact:{nm}', '?')
            if cur in ('T', 'F'):
                return st if cur == want else None
            return st.with_field(f'#fact:{nm}', want)
        # emptiness of tracked local lists
        e = self._emptiness(test, st, frame, an)
        if e is not None:
            val, empty_when_true = e
            is_empty = val == EMPTY
            return st if (is_empty == empty_when_true) == truth else None
        return NotImplemented

    def _emptiness(self, test, st, frame, an):
        """(abstract value, True if `test` holds exactly when the list is empty) for tests on an EM/NE-valued expression"""
        def val(x):
            v = an.ev(x, st, frame)
            return v if v in (EMPTY, NONEMPTY) else None
        if isinstance(test, ast.Compare) and len(test.ops) == 1:
            l, r, op = test.left, test.comparators[0], test.ops[0]
            if isinstance(l, ast.Call) and isinstance(l.func, ast.Name) and l.func.id == 'len' and len(l.args) == 1 and isinstance(r, ast.Constant) and val(l.args[0]):
                k = r.value
                v = val(l.args[0])
                table = {(ast.Eq, 0): True, (ast.NotEq, 0): False, (ast.Gt, 0): False, (ast.LtE, 0): True, (ast.Lt, 1): True, (ast.GtE, 1): False}
                t = table.get((type(op), k))
                if t is not None:
                    return v, t
            if isinstance(r, ast.List) and not r.elts and isinstance(op, (ast.Eq, ast.NotEq)) and val(l):
                return val(l), isinstance(op, ast.Eq)
            return None
        v = val(test)
        if v:
            return v, False          # bare truthiness: true exactly when non-empty
        return None

    def _comp_value(self, e, st, frame):
        """abstract emptiness of `[x for x in SRC if TEST]` / truth of any(TEST for x in SRC) when TEST is the full match relation"""
        if not isinstance(e, (ast.ListComp, ast.GeneratorExp, ast.SetComp)) or len(e.generators) != 1:
            return None
        gen = e.generators[0]
        if not isinstance(gen.target, ast.Name):
            return None
        srcs = list_sources(gen.iter, FrameEnv(frame))
        if not srcs or any(s not in self.sources for s in srcs):
            return None
        tests = list(gen.ifs)
        if isinstance(e, ast.GeneratorExp) and not tests:
            tests = [e.elt]
        flat = []
        for t in tests:
            flat += t.values if isinstance(t, ast.BoolOp) and isinstance(t.op, ast.And) else [t]
        got = set()
        for t in flat:
            hit = None
            for nm, m in self.facts:
                if m(t, gen.target.id, frame) is True:
                    hit = nm
            if hit is None:
                return None
            got.add(hit)
        if got != {nm for nm, _ in self.facts}:
            return None
        ghosts = [st.fields.get(self.sources[s]) for s in srcs]
        if any(g_ == 'T' for g_ in ghosts):
            return NONEMPTY
        if all(g_ == 'F' for g_ in ghosts):
            return EMPTY
        return None

    def expr_hook(self, an, e, st, frame):
        if isinstance(e, ast.List) and not e.elts:
            return EMPTY
        v = self._comp_value(e, st, frame)
        if v is not None and isinstance(e, (ast.ListComp, ast.SetComp)):
            return v
        if isinstance(e, ast.Call) and isinstance(e.func, ast.Name) and e.func.id == 'any' and len(e.args) == 1:
            v = self._comp_value(e.args[0], st, frame)
            if v is not None:
                return 'T' if v == NONEMPTY else 'F'
        if isinstance(e, ast.Call) and isinstance(e.func, ast.Name) and e.func.id == 'list' and len(e.args) == 1:
            v = self._comp_value(e.args[0], st, frame)
            if v is not None:
                return v
        return NotImplemented


def eq_fact(attr, other_text):
    """matcher for `<var>.<attr> == <expr>` where <expr>, after substitution through frames, spells `other_text`"""
    def m(test, var, frame):
        if isinstance(test, ast.Compare) and len(test.ops) == 1 and isinstance(test.ops[0], (ast.Eq, ast.NotEq, ast.Is, ast.IsNot)):
            env = FrameEnv(frame)
            sides = [ast.unparse(subst(x, env, keep=(var,))).replace(' ', '') for x in (test.left, test.comparators[0])]
            want = {f'{var}.{attr}', other_text.replace(' ', '')}
            if set(sides) == want and len(want) == 2:
                return isinstance(test.ops[0], (ast.Eq, ast.Is))
        return None
    return m
