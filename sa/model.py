"""L1 -- program model: modules, import/re-export resolution, classes with their
C3 linearisation, attribute lookup through the MRO (methods, static methods,
class attributes, properties with partial overrides)."""
import ast
import pathlib

from . import AnalysisError


class Mod:
    def __init__(self, name, path, tree, is_pkg, src):
        self.name, self.path, self.tree, self.is_pkg, self.src = name, path, tree, is_pkg, src
        self.bindings = {}   # local name -> ('class', Cls) | ('func', node) | ('import', module, attr) | ('module', name, None)
        self.classes = {}
        self.functions = {}
        self._parents = None

    @property
    def parents(self):
        if self._parents is None:
            self._parents = {}
            for n in ast.walk(self.tree):
                for ch in ast.iter_child_nodes(n):
                    self._parents[ch] = n
        return self._parents


class Cls:
    def __init__(self, mod, node):
        self.mod, self.node, self.name = mod, node, node.name
        self.qual = f'{mod.name}.{node.name}'
        self.methods = {}      # name -> FunctionDef (plain + static methods; last def wins)
        self.props = {}        # name -> {'get': fn, 'set': fn}
        self.static = set()
        self.class_attrs = {}
        self.bases = []        # resolved Cls or None
        self.mro = None
        for st in node.body:
            if isinstance(st, ast.FunctionDef):
                kind = 'method'
                for d in st.decorator_list:
                    s = ast.unparse(d)
                    if s == 'property':
                        kind = 'get'
                    elif s.endswith('.setter'):
                        kind = 'set'
                    elif s.endswith('.getter'):
                        kind = 'get'
                    elif s == 'staticmethod':
                        self.static.add(st.name)
                if kind == 'method':
                    self.methods[st.name] = st
                else:
                    self.props.setdefault(st.name, {})[kind] = st
            elif isinstance(st, ast.Assign):
                for t in st.targets:
                    if isinstance(t, ast.Name):
                        self.class_attrs[t.id] = st.value

    def all_functions(self):
        """every FunctionDef of the class body: (kind, name, node)"""
        for n, f in self.methods.items():
            yield ('static' if n in self.static else 'method'), n, f
        for n, acc in self.props.items():
            for k, f in acc.items():
                yield k, n, f

    def __repr__(self):
        return f'<Cls {self.name}>'


def _normalise_namedtuples(trees):
    """A named tuple is a tuple: `N = namedtuple('N', ['a', 'b'])` (module level, or as the base of a class that only adds methods) makes
    `N(x, y)` the tuple `(x, y)` and `e.a` the element `e[0]`.  Both are rewritten that way (in place, positions kept) so that every rule
    sees the entries of the package's lists as the plain tuples they are.  An attribute read is rewritten only when its name is a field of
    exactly one named tuple of the package and is used for nothing else in the package (no attribute store, method, property or class
    attribute of that name), so that `e.a` cannot be anything but the field."""
    defs = {}

    def fields_of(call):
        if not (isinstance(call, ast.Call) and ((isinstance(call.func, ast.Name) and call.func.id == 'namedtuple') or
                                                (isinstance(call.func, ast.Attribute) and call.func.attr == 'namedtuple')) and len(call.args) >= 2):
            return None
        f = call.args[1]
        if isinstance(f, (ast.List, ast.Tuple)) and all(isinstance(x, ast.Constant) and isinstance(x.value, str) for x in f.elts):
            return [x.value for x in f.elts]
        if isinstance(f, ast.Constant) and isinstance(f.value, str):
            return f.value.replace(',', ' ').split()
        return None
    for t in trees:
        for st in t.body:
            if isinstance(st, ast.Assign) and len(st.targets) == 1 and isinstance(st.targets[0], ast.Name):
                fs = fields_of(st.value)
                if fs:
                    defs[st.targets[0].id] = fs
            elif isinstance(st, ast.ClassDef) and len(st.bases) == 1:
                fs = fields_of(st.bases[0])
                if fs and not any(isinstance(b, ast.FunctionDef) and b.name in ('__new__', '__init__', '__getattr__', '__getitem__', '__iter__', '__len__', '__eq__') for b in st.body):
                    defs[st.name] = fs
    if not defs:
        return
    owners = {}
    for n_, fs in defs.items():
        for i, f in enumerate(fs):
            owners.setdefault(f, []).append((n_, i))
    taken = set()
    for t in trees:
        for x in ast.walk(t):
            if isinstance(x, ast.Attribute) and isinstance(x.ctx, (ast.Store, ast.Del)):
                taken.add(x.attr)
            elif isinstance(x, (ast.FunctionDef, ast.AsyncFunctionDef, ast.ClassDef)):
                taken.add(x.name)
            elif isinstance(x, ast.ClassDef):
                pass
        for c in [x for x in ast.walk(t) if isinstance(x, ast.ClassDef)]:
            for b in c.body:
                if isinstance(b, ast.Assign):
                    for tg in b.targets:
                        if isinstance(tg, ast.Name):
                            taken.add(tg.id)
    field_index = {f: o[0][1] for f, o in owners.items() if len(o) == 1 and f not in taken}

    class T(ast.NodeTransformer):
        def visit_Call(self, n):
            self.generic_visit(n)
            if isinstance(n.func, ast.Name) and n.func.id in defs and not any(isinstance(a, ast.Starred) for a in n.args):
                fs = defs[n.func.id]
                vals = dict(zip(fs, n.args))
                for k in n.keywords:
                    if k.arg is None or k.arg not in fs or k.arg in vals:
                        return n
                    vals[k.arg] = k.value
                if set(vals) == set(fs):
                    return ast.copy_location(ast.Tuple(elts=[vals[f] for f in fs], ctx=ast.Load()), n)
            return n

        def visit_Attribute(self, n):
            self.generic_visit(n)
            if isinstance(n.ctx, ast.Load) and n.attr in field_index:
                return ast.copy_location(ast.Subscript(value=n.value, slice=ast.copy_location(ast.Constant(field_index[n.attr]), n), ctx=ast.Load()), n)
            return n
    for t in trees:
        T().visit(t)
        ast.fix_missing_locations(t)


class Program:
    def __init__(self, root='/repo', pkg='simprocesd', exclude=('tests',)):
        self.root = pathlib.Path(root)
        self.pkg = pkg
        self.mods = {}
        base = self.root / pkg
        if not base.is_dir():
            raise AnalysisError(f'package directory {base} not found')
        for p in sorted(base.rglob('*.py')):
            rel = p.relative_to(self.root)
            if any(part in exclude for part in rel.parts):
                continue
            parts = list(rel.with_suffix('').parts)
            is_pkg = parts[-1] == '__init__'
            if is_pkg:
                parts = parts[:-1]
            name = '.'.join(parts)
            src = p.read_text()
            try:
                tree = ast.parse(src, str(p))
            except SyntaxError as e:
                raise AnalysisError(f'{rel}: does not parse: {e}')
            self.mods[name] = (name, p, tree, is_pkg, src)
        _normalise_namedtuples([t[2] for t in self.mods.values()])
        self.mods = {k: Mod(*t) for k, t in self.mods.items()}
        for m in self.mods.values():
            self._bind(m)
        self.classes = {}
        for m in self.mods.values():
            for c in m.classes.values():
                self.classes[c.qual] = c
        for c in self.classes.values():
            c.bases = [self.resolve_expr_to_class(c.mod, b) for b in c.node.bases]
        for c in self.classes.values():
            self._mro(c)
        self.by_name = {}
        for c in self.classes.values():
            self.by_name.setdefault(c.name, []).append(c)
        # `name = OtherClass.method` in a class body binds the very same function under that name: it is a method of this class
        for c in self.classes.values():
            for nm, v in list(c.class_attrs.items()):
                if isinstance(v, ast.Attribute) and isinstance(v.value, ast.Name) and len(self.by_name.get(v.value.id, [])) == 1:
                    k = self.by_name[v.value.id][0]
                    if v.attr in k.methods and v.attr not in k.static:
                        c.methods[nm] = k.methods[v.attr]
                        c.method_aliases = getattr(c, 'method_aliases', set()) | {nm}
                        del c.class_attrs[nm]

    def rel(self, path):
        try:
            return str(pathlib.Path(path).relative_to(self.root))
        except ValueError:
            return str(path)

    # -- name binding -----------------------------------------------------
    def _abs(self, mod, level, module):
        if level == 0:
            return module
        parts = mod.name.split('.')
        if not mod.is_pkg:
            parts = parts[:-1]
        if level > 1:
            parts = parts[:-(level - 1)]
        if module:
            parts = parts + module.split('.')
        return '.'.join(parts)

    def _bind(self, m):
        for st in ast.walk(m.tree):
            if isinstance(st, ast.ImportFrom):
                target = self._abs(m, st.level, st.module)
                for a in st.names:
                    m.bindings[a.asname or a.name] = ('import', target, a.name)
            elif isinstance(st, ast.Import):
                for a in st.names:
                    m.bindings[(a.asname or a.name).split('.')[0]] = ('module', a.name, None)
        for st in m.tree.body:
            if isinstance(st, ast.ClassDef):
                c = Cls(m, st)
                m.classes[st.name] = c
                m.bindings[st.name] = ('class', c)
            elif isinstance(st, ast.FunctionDef):
                m.functions[st.name] = st
                m.bindings[st.name] = ('func', st)

    def resolve_name(self, mod, name, seen=None):
        """module-level name -> ('class', Cls) | ('func', node) | ('module', name) | ('external', dotted) | None"""
        seen = seen or set()
        if (mod.name, name) in seen:
            return None
        seen.add((mod.name, name))
        b = mod.bindings.get(name)
        if b is None:
            return None
        if b[0] in ('class', 'func'):
            return b
        if b[0] == 'module':
            return ('module', b[1])
        _, target, attr = b
        if target in self.mods:
            r = self.resolve_name(self.mods[target], attr, seen)
            if r:
                return r
            sub = f'{target}.{attr}'
            if sub in self.mods:
                return ('module', sub)
            return None
        return ('external', f'{target}.{attr}')

    def resolve_expr_to_class(self, mod, expr):
        if isinstance(expr, ast.Name):
            r = self.resolve_name(mod, expr.id)
            return r[1] if r and r[0] == 'class' else None
        return None

    # -- MRO ---------------------------------------------------------------
    def _mro(self, c):
        if c.mro is not None:
            return c.mro
        seqs = []
        for b in c.bases:
            if b is None:
                continue
            seqs.append(list(self._mro(b)))
        seqs.append([b for b in c.bases if b is not None])
        res = [c]
        while True:
            seqs = [s for s in seqs if s]
            if not seqs:
                break
            for s in seqs:
                cand = s[0]
                if not any(cand in t[1:] for t in seqs):
                    break
            else:
                raise AnalysisError('inconsistent MRO for ' + c.name)
            res.append(cand)
            for s in seqs:
                if s[0] is cand:
                    del s[0]
        c.mro = res
        return res

    # -- lookup ------------------------------------------------------------
    def cls(self, name):
        cs = self.by_name.get(name, [])
        if len(cs) != 1:
            raise AnalysisError(f'anchor class {name!r} not found exactly once in the package (found {len(cs)})')
        return cs[0]

    def has_cls(self, name):
        return len(self.by_name.get(name, [])) == 1

    def lookup(self, cls, name, after=None):
        """(defining class, kind, node) for attribute `name` on instances of `cls`;
        `after`: start after that class in the MRO (super())."""
        mro = cls.mro
        if after is not None:
            mro = mro[mro.index(after) + 1:]
        for k in mro:
            if name in k.methods:
                return k, 'method', k.methods[name]
            if name in k.props:
                return k, 'prop', k.props[name]
            if name in k.class_attrs:
                return k, 'classattr', k.class_attrs[name]
        return None

    def method(self, cls, name):
        """(defining class, FunctionDef) of a plain method, AnalysisError if the anchor vanished"""
        if isinstance(cls, str):
            cls = self.cls(cls)
        hit = self.lookup(cls, name)
        if not hit or hit[1] != 'method':
            raise AnalysisError(f'anchor method {cls.name}.{name} not found')
        return hit[0], hit[2]

    def has_method(self, cls, name):
        if isinstance(cls, str):
            if not self.has_cls(cls):
                return False
            cls = self.cls(cls)
        hit = self.lookup(cls, name)
        return bool(hit and hit[1] == 'method')

    def lookup_prop(self, cls, name, which):
        """property accessor honouring partial overrides such as @Base.prop.getter."""
        for k in cls.mro:
            if name in k.props and which in k.props[name]:
                return k, k.props[name][which]
            if name in k.props:
                continue
            if name in k.methods or name in k.class_attrs:
                return None
        return None

    def subclasses(self, base):
        return [c for c in self.classes.values() if base in c.mro]

    def where(self, mod_or_cls, node):
        m = mod_or_cls.mod if isinstance(mod_or_cls, Cls) else mod_or_cls
        return f'{self.rel(m.path)}:{getattr(node, "lineno", "?")}'

    def enclosing_function(self, node):
        """innermost FunctionDef of the package that contains `node` (None for synthetic nodes)"""
        m = getattr(self, '_encl', None)
        if m is None:
            m = {}
            for mod in self.mods.values():
                fns = [n for n in ast.walk(mod.tree) if isinstance(n, ast.FunctionDef)]
                fns.sort(key=lambda f: (f.lineno, f.col_offset))      # outer functions first, inner ones override
                for f in fns:
                    for n in ast.walk(f):
                        m[id(n)] = f
            self._encl = m
        return m.get(id(node))

    def stats(self):
        nfun = sum(len(m.functions) for m in self.mods.values())
        nfun += sum(1 for c in self.classes.values() for _ in c.all_functions())
        return {'modules': len(self.mods), 'classes': len(self.classes), 'functions': nfun}
