"""L1 -- program model: modules, import/re-export resolution, classes with their
C3 linearisation, attribute lookup through the MRO (methods, static methods,
class attributes, properties with partial overrides)."""
import ast
import pathlib

from . import AnalysisError


class Mod:
    def __init__(self, name, path, tree, is_pkg, src):
        self.name, self.path, self.tree, self.is_pkg, self.src = name, path, tree, is_pkg, src
        self.bindings = {}   # local name -> ('class', Cls) | ('func', node) | ('import', module, attr) | ('module', name, None)
        self.classes = {}
        self.functions = {}
        self._parents = None

    @property
    def parents(self):
        if self._parents is None:
            self._parents = {}
            for n in ast.walk(self.tree):
                for ch in ast.iter_child_nodes(n):
                    self._parents[ch] = n
        return self._parents


class Cls:
    def __init__(self, mod, node):
        self.mod, self.node, self.name = mod, node, node.name
        self.qual = f'{mod.name}.{node.name}'
        self.methods = {}      # name -> FunctionDef (plain + static methods; last def wins)
        self.props = {}        # name -> {'get': fn, 'set': fn}
        self.static = set()
        self.class_attrs = {}
        self.bases = []        # resolved Cls or None
        self.mro = None
        for st in node.body:
            if isinstance(st, ast.FunctionDef):
                kind = 'method'
                for d in st.decorator_list:
                    s = ast.unparse(d)
                    if s == 'property':
                        kind = 'get'
                    elif s.endswith('.setter'):
                        kind = 'set'
                    elif s.endswith('.getter'):
                        kind = 'get'
                    elif s == 'staticmethod':
                        self.static.add(st.name)
                if kind == 'method':
                    self.methods[st.name] = st
                else:
                    self.props.setdefault(st.name, {})[kind] = st
            elif isinstance(st, ast.Assign):
                for t in st.targets:
                    if isinstance(t, ast.Name):
                        self.class_attrs[t.id] = st.value

    def all_functions(self):
        """every FunctionDef of the class body: (kind, name, node)"""
        for n, f in self.methods.items():
            yield ('static' if n in self.static else 'method'), n, f
        for n, acc in self.props.items():
            for k, f in acc.items():
                yield k, n, f

    def __repr__(self):
        return f'<Cls {self.name}>'


def _normalise_namedtuples(trees):
    """A named tuple is a tuple: `N = namedtuple('N', ['a', 'b'])` (module level, as the base of a class that only adds methods, or a
    `class N(NamedTuple)` with annotated fields) makes `N(x, y)` the tuple `(x, y)`, `e.a` the element `e[0]`, `e._replace(a=v)` the tuple
    `(v, e[1])`, and a call of one of its one-expression methods / properties that expression.  All are rewritten that way (in place, positions
    kept) so that every rule sees the entries of the package's lists and tables as the plain tuples they are.  An attribute read is rewritten
    when its receiver is known to be such a tuple (the result of the constructor or `_replace`, an element of a table into which only such
    tuples are stored, a local bound to one of these, `self` inside the class), or when its name is a field of exactly one named tuple of the
    package and is used for nothing else in the package (no attribute store, method, property or class attribute of that name)."""
    import copy
    defs = {}
    classes = {}

    def fields_of(call):
        if not (isinstance(call, ast.Call) and ((isinstance(call.func, ast.Name) and call.func.id == 'namedtuple') or
                                                (isinstance(call.func, ast.Attribute) and call.func.attr == 'namedtuple')) and len(call.args) >= 2):
            return None
        f = call.args[1]
        if isinstance(f, (ast.List, ast.Tuple)) and all(isinstance(x, ast.Constant) and isinstance(x.value, str) for x in f.elts):
            return [x.value for x in f.elts]
        if isinstance(f, ast.Constant) and isinstance(f.value, str):
            return f.value.replace(',', ' ').split()
        return None
    SPECIAL = ('__new__', '__init__', '__getattr__', '__getitem__', '__iter__', '__len__', '__eq__', '__lt__', '__hash__')
    for t in trees:
        for st in t.body:
            if isinstance(st, ast.Assign) and len(st.targets) == 1 and isinstance(st.targets[0], ast.Name):
                fs = fields_of(st.value)
                if fs:
                    defs[st.targets[0].id] = fs
            elif isinstance(st, ast.ClassDef) and len(st.bases) == 1:
                fs = fields_of(st.bases[0])
                if fs is None and ast.unparse(st.bases[0]) in ('NamedTuple', 'typing.NamedTuple'):
                    fs = [b.target.id for b in st.body if isinstance(b, ast.AnnAssign) and isinstance(b.target, ast.Name)]
                    if any(isinstance(b, ast.AnnAssign) and b.value is not None for b in st.body):
                        fs = None       # defaults: the constructor call is not simply the tuple of its arguments
                if fs and not any(isinstance(b, ast.FunctionDef) and b.name in SPECIAL for b in st.body):
                    defs[st.name] = fs
                    classes[st.name] = st
    if not defs:
        return
    owners = {}
    for n_, fs in defs.items():
        for i, f in enumerate(fs):
            owners.setdefault(f, []).append((n_, i))
    taken = set()
    for t in trees:
        for x in ast.walk(t):
            if isinstance(x, ast.Attribute) and isinstance(x.ctx, (ast.Store, ast.Del)):
                taken.add(x.attr)
            elif isinstance(x, (ast.FunctionDef, ast.AsyncFunctionDef, ast.ClassDef)):
                taken.add(x.name)
        for c in [x for x in ast.walk(t) if isinstance(x, ast.ClassDef)]:
            for b in c.body:
                if isinstance(b, ast.Assign):
                    for tg in b.targets:
                        if isinstance(tg, ast.Name):
                            taken.add(tg.id)
    field_index = {f: o[0][1] for f, o in owners.items() if len(o) == 1 and f not in taken}

    # ---- one-expression members of the named-tuple classes (unique names only) ---------------------------------------------------------
    member_names = {}
    for t in trees:
        for c in [x for x in ast.walk(t) if isinstance(x, ast.ClassDef)]:
            for b in c.body:
                if isinstance(b, ast.FunctionDef):
                    member_names.setdefault(b.name, []).append(c.name)
    members = {}        # name -> (class name, 'prop'|'method', params, expression)
    for cn, cd in classes.items():
        for b in cd.body:
            if not isinstance(b, ast.FunctionDef) or member_names.get(b.name) != [cn] or b.name.startswith('__'):
                continue
            body = [x for x in b.body if not (isinstance(x, ast.Expr) and isinstance(x.value, ast.Constant))]
            deco = [ast.unparse(d) for d in b.decorator_list]
            if len(body) != 1 or not isinstance(body[0], ast.Return) or body[0].value is None or deco not in ([], ['property']):
                continue
            if b.args.vararg or b.args.kwarg or b.args.kwonlyargs or b.args.defaults or not b.args.args or b.args.args[0].arg != 'self':
                continue
            if any(isinstance(x, (ast.Lambda, ast.Yield, ast.Await, ast.NamedExpr)) for x in ast.walk(body[0].value)):
                continue
            members[b.name] = (cn, 'prop' if deco else 'method', [a.arg for a in b.args.args[1:]], body[0].value)

    # ---- which expressions are known to be such tuples ---------------------------------------------------------------------------------
    tables = {}          # attribute name -> named tuple: every `<x>.<attr>[k] = v` of the package stores one

    def nt_of(e, local):
        """name of the named tuple the expression is known to be, or None"""
        if isinstance(e, ast.Call):
            if isinstance(e.func, ast.Name) and e.func.id in defs:
                return e.func.id
            if isinstance(e.func, ast.Attribute):
                if e.func.attr == '_replace' and not e.args and e.keywords and all(k.arg for k in e.keywords):
                    r = nt_of(e.func.value, local)
                    if r:
                        return r
                    cands = [n_ for n_, fs in defs.items() if all(k.arg in fs for k in e.keywords)]
                    return cands[0] if len(cands) == 1 else None
                if e.func.attr in members and members[e.func.attr][1] == 'method':
                    cn = members[e.func.attr][0]
                    inner = members[e.func.attr][3]
                    if isinstance(inner, ast.Call) and isinstance(inner.func, ast.Attribute) and inner.func.attr == '_replace':
                        return cn
                    if isinstance(inner, ast.Call) and isinstance(inner.func, ast.Name) and inner.func.id == cn:
                        return cn
            return None
        if isinstance(e, ast.Name):
            return local.get(e.id)
        if isinstance(e, ast.Subscript) and isinstance(e.value, ast.Attribute) and e.value.attr in tables:
            return tables[e.value.attr]
        return None

    def local_types(fn, cls_nt):
        local = {}
        if cls_nt and fn.args.args and fn.args.args[0].arg == 'self':
            local['self'] = cls_nt
        for _ in range(3):
            seen = {}
            for st in ast.walk(fn):
                if isinstance(st, ast.Assign) and len(st.targets) == 1 and isinstance(st.targets[0], ast.Name):
                    seen.setdefault(st.targets[0].id, []).append(nt_of(st.value, local))
                elif isinstance(st, (ast.For, ast.comprehension)) or isinstance(st, (ast.AugAssign, ast.AnnAssign, ast.NamedExpr, ast.With)):
                    for x in ast.walk(st.target if hasattr(st, 'target') else st):
                        if isinstance(x, ast.Name) and isinstance(x.ctx, ast.Store):
                            seen.setdefault(x.id, []).append(None)
            new = {k: v[0] for k, v in seen.items() if v and all(x is not None and x == v[0] for x in v)}
            if cls_nt and 'self' in local:
                new['self'] = cls_nt
            if new == local:
                break
            local = new
        return local

    def functions(t):
        for x in ast.walk(t):
            if isinstance(x, ast.ClassDef):
                for b in x.body:
                    if isinstance(b, ast.FunctionDef):
                        yield (x.name if x.name in classes else None), b
        for b in t.body:
            if isinstance(b, ast.FunctionDef):
                yield None, b
    for _ in range(3):
        stores = {}
        for t in trees:
            for cls_nt, fn in functions(t):
                local = local_types(fn, cls_nt)
                for st in ast.walk(fn):
                    if isinstance(st, ast.Assign):
                        for tg in st.targets:
                            if isinstance(tg, ast.Subscript) and isinstance(tg.value, ast.Attribute):
                                stores.setdefault(tg.value.attr, []).append(nt_of(st.value, local))
                    elif isinstance(st, ast.AugAssign) and isinstance(st.target, ast.Subscript) and isinstance(st.target.value, ast.Attribute):
                        stores.setdefault(st.target.value.attr, []).append(None)
        new = {a: v[0] for a, v in stores.items() if v and all(x is not None and x == v[0] for x in v)}
        if new == tables:
            break
        tables = new

    # ---- rewriting ---------------------------------------------------------------------------------------------------------------------------
    def dup_ok(e):
        return isinstance(e, (ast.Name, ast.Constant)) or (isinstance(e, ast.Attribute) and dup_ok(e.value)) or \
            (isinstance(e, ast.Subscript) and dup_ok(e.value) and dup_ok(e.slice))

    class T(ast.NodeTransformer):
        def __init__(self, local):
            self.local = local

        def visit_FunctionDef(self, n):
            return n           # nested functions are visited on their own

        def visit_Call(self, n):
            kind = nt_of(n, self.local)
            recv_kind = nt_of(n.func.value, self.local) if isinstance(n.func, ast.Attribute) else None
            self.generic_visit(n)
            if isinstance(n.func, ast.Name) and n.func.id in defs and not any(isinstance(a, ast.Starred) for a in n.args):
                fs = defs[n.func.id]
                vals = dict(zip(fs, n.args))
                for k in n.keywords:
                    if k.arg is None or k.arg not in fs or k.arg in vals:
                        return n
                    vals[k.arg] = k.value
                if set(vals) == set(fs):
                    return ast.copy_location(ast.Tuple(elts=[vals[f] for f in fs], ctx=ast.Load()), n)
            if isinstance(n.func, ast.Attribute) and n.func.attr == '_replace' and kind and dup_ok(n.func.value) and not n.args:
                fs = defs[kind]
                kw = {k.arg: k.value for k in n.keywords}
                if all(k in fs for k in kw):
                    elts = [kw[f] if f in kw else ast.copy_location(ast.Subscript(value=copy.deepcopy(n.func.value), slice=ast.Constant(i), ctx=ast.Load()), n)
                            for i, f in enumerate(fs)]
                    return ast.fix_missing_locations(ast.copy_location(ast.Tuple(elts=elts, ctx=ast.Load()), n))
            if isinstance(n.func, ast.Attribute) and n.func.attr in members and members[n.func.attr][1] == 'method' and not n.keywords \
                    and (recv_kind == members[n.func.attr][0] or recv_kind is None) and dup_ok(n.func.value):
                cn, _, params, expr = members[n.func.attr]
                if len(params) == len(n.args) and all(dup_ok(a) for a in n.args):
                    return inline_member(expr, n.func.value, dict(zip(params, n.args)), cn, n)
            return n

        def visit_Attribute(self, n):
            recv_kind = nt_of(n.value, self.local) if isinstance(n.ctx, ast.Load) else None
            self.generic_visit(n)
            if not isinstance(n.ctx, ast.Load):
                return n
            if recv_kind and n.attr in defs[recv_kind]:
                return ast.copy_location(ast.Subscript(value=n.value, slice=ast.copy_location(ast.Constant(defs[recv_kind].index(n.attr)), n), ctx=ast.Load()), n)
            if n.attr in members and members[n.attr][1] == 'prop' and (recv_kind == members[n.attr][0] or recv_kind is None) and dup_ok(n.value):
                cn, _, _, expr = members[n.attr]
                return inline_member(expr, n.value, {}, cn, n)
            if n.attr in field_index:
                return ast.copy_location(ast.Subscript(value=n.value, slice=ast.copy_location(ast.Constant(field_index[n.attr]), n), ctx=ast.Load()), n)
            return n

    def inline_member(expr, recv, bind, cn, at):
        bind = dict(bind, self=recv)

        class Put(ast.NodeTransformer):
            def visit_Name(self_, x):
                if x.id in bind and isinstance(x.ctx, ast.Load):
                    return copy.deepcopy(bind[x.id])
                return x
        e = Put().visit(copy.deepcopy(expr))
        for x in ast.walk(e):
            ast.copy_location(x, at)
        # the member's own body is written in terms of self.<field> / self._replace(...): normalise the substituted copy the same way
        holder = ast.Expr(value=e)
        tmp_local = {}
        if isinstance(recv, ast.Name):
            tmp_local[recv.id] = cn
        wrapped = _TypedRecv(recv, cn)
        holder = T(wrapped).visit(holder)
        return ast.fix_missing_locations(holder.value)

    class _TypedRecv(dict):
        """local typing in which one particular receiver expression (by text) is known to be the named tuple"""
        def __init__(self, recv, cn):
            super().__init__()
            self.text, self.cn = ast.unparse(recv), cn

    _plain_nt_of = nt_of

    def nt_of(e, local):      # noqa: F811  (receiver-aware wrapper)
        if isinstance(local, _TypedRecv) and ast.unparse(e) == local.text:
            return local.cn
        return _plain_nt_of(e, local)

    for t in trees:
        for cls_nt, fn in list(functions(t)):
            local = local_types(fn, cls_nt)
            tr = T(local)
            fn.body = [tr.visit(st) for st in fn.body]
        # module-level and class-level statements outside functions
        tr = T({})
        for st in t.body:
            if not isinstance(st, (ast.FunctionDef, ast.ClassDef)):
                tr.visit(st)
        ast.fix_missing_locations(t)


def _dissolve_list_subclasses(trees):
    """`class _CallbackList(list)` with a few helper methods (`register`, `notify`) and no state of its own is a list: `_CallbackList()` is `[]`
    and a statement `x.notify(a, b)` is the body of that method with self := x (in place).  Only methods whose names no other class of the
    package defines, called as statements, with bodies that do not return a value."""
    import copy
    all_defs = {}
    for t in trees:
        for c in [x for x in ast.walk(t) if isinstance(x, ast.ClassDef)]:
            for b in c.body:
                if isinstance(b, ast.FunctionDef):
                    all_defs.setdefault(b.name, []).append(c.name)
    ks = {}
    for t in trees:
        for c in t.body:
            if isinstance(c, ast.ClassDef) and c.name.startswith('_') and len(c.bases) == 1 and ast.unparse(c.bases[0]) == 'list' and not c.decorator_list and not c.keywords:
                meths = {}
                ok = True
                for b in c.body:
                    if isinstance(b, ast.Expr) and isinstance(b.value, ast.Constant):
                        continue
                    if not isinstance(b, ast.FunctionDef) or b.name.startswith('__') or b.decorator_list or not b.args.args or b.args.args[0].arg != 'self' \
                            or b.args.kwarg or b.args.kwonlyargs or b.args.defaults or all_defs.get(b.name) != [c.name] \
                            or any(isinstance(x, ast.Return) and x.value is not None for x in ast.walk(b)) \
                            or any(isinstance(x, (ast.Yield, ast.YieldFrom, ast.Lambda, ast.FunctionDef)) for s_ in b.body for x in ast.walk(s_)):
                        ok = False
                        break
                    meths[b.name] = b
                if ok and meths:
                    ks[c.name] = (t, c, meths)
    if not ks:
        return
    for kname, (kt, kc, meths) in ks.items():
        refs = [x for t in trees for x in ast.walk(t) if isinstance(x, ast.Name) and x.id == kname]
        calls = [x for t in trees for x in ast.walk(t) if isinstance(x, ast.Call) and isinstance(x.func, ast.Name) and x.func.id == kname and not x.args and not x.keywords]
        if len(refs) != len(calls):
            continue

        def splice(block):
            out, changed = [], False
            for st in block:
                c = st.value if isinstance(st, ast.Expr) and isinstance(st.value, ast.Call) else None
                if c is not None and isinstance(c.func, ast.Attribute) and c.func.attr in meths and not c.keywords and not any(isinstance(a, ast.Starred) for a in c.args):
                    fd = meths[c.func.attr]
                    ps = [a.arg for a in fd.args.args[1:]]
                    va = fd.args.vararg.arg if fd.args.vararg else None
                    if len(c.args) >= len(ps) and (va or len(c.args) == len(ps)):
                        bind = dict(zip(ps, c.args))
                        bind['self'] = c.func.value
                        extra = c.args[len(ps):]
                        stored = {y.id for b in fd.body for y in ast.walk(b) if isinstance(y, ast.Name) and isinstance(y.ctx, ast.Store)}

                        class Put(ast.NodeTransformer):
                            def visit_Name(self_, y):
                                if y.id in bind and isinstance(y.ctx, ast.Load):
                                    return copy.deepcopy(bind[y.id])
                                if y.id in stored:
                                    return ast.copy_location(ast.Name(id=f'{y.id}__{fd.name}', ctx=y.ctx), y)
                                return y

                            def visit_Call(self_, y):
                                self_.generic_visit(y)
                                if va:
                                    na = []
                                    for a in y.args:
                                        if isinstance(a, ast.Starred) and isinstance(a.value, ast.Name) and a.value.id == va:
                                            na += [copy.deepcopy(e) for e in extra]
                                        else:
                                            na.append(a)
                                    y.args = na
                                return y
                        ok2 = not va or not any(isinstance(y, ast.Name) and y.id == va and not isinstance(getattr(y, '_par', None), ast.Starred) for b in fd.body for y in ast.walk(b)
                                                if not any(isinstance(z, ast.Starred) and z.value is y for b2 in fd.body for z in ast.walk(b2)))
                        if ok2:
                            for b in fd.body:
                                if isinstance(b, ast.Expr) and isinstance(b.value, ast.Constant):
                                    continue
                                nb = Put().visit(copy.deepcopy(b))
                                for y in ast.walk(nb):
                                    ast.copy_location(y, st)
                                out.append(ast.fix_missing_locations(nb))
                            changed = True
                            continue
                for fld in ('body', 'orelse', 'finalbody'):
                    sub = getattr(st, fld, None)
                    if isinstance(sub, list) and sub and isinstance(sub[0], ast.stmt) and not isinstance(st, ast.ClassDef):
                        r, ch = splice(sub)
                        if ch:
                            setattr(st, fld, r)
                            changed = True
                if isinstance(st, ast.Try):
                    for h in st.handlers:
                        r, ch = splice(h.body)
                        if ch:
                            h.body = r
                            changed = True
                out.append(st)
            return out, changed
        for t in trees:
            for c in [x for x in ast.walk(t) if isinstance(x, ast.ClassDef) and x is not kc]:
                for fn_ in [b for b in c.body if isinstance(b, ast.FunctionDef)]:
                    r, ch = splice(fn_.body)
                    if ch:
                        fn_.body = r
        # any use of the methods left (not as a statement): give up on nothing -- the constructor is rewritten only if none is left
        left = [x for t in trees for x in ast.walk(t) if isinstance(x, ast.Attribute) and x.attr in meths
                and not any(x is b for b in kc.body)]
        left = [x for x in left if not any(x is y for b in kc.body for y in ast.walk(b))]
        if left:
            continue
        for t in trees:
            class Empty(ast.NodeTransformer):
                def visit_Call(self_, y):
                    self_.generic_visit(y)
                    if any(y is c_ for c_ in calls):
                        return ast.copy_location(ast.List(elts=[], ctx=ast.Load()), y)
                    return y
            Empty().visit(t)
        kt.body = [c for c in kt.body if c is not kc]
    for t in trees:
        ast.fix_missing_locations(t)


def _dissolve_holder_objects(trees):
    """A private record-like helper class whose instances live in one field of their owner and never leave it
    (`self._budget = _PartBudget(n)` ... `self._budget.left()`, `self._budget.supplied`) is an implementation detail of the owner: its fields are
    read as fields `_budget__supplied` of the owner and its methods / properties as methods `_budget__left` of the owner (in place).  The
    owner's behaviour is unchanged -- the object is never aliased, passed on, compared or returned -- and the rules see plain fields again."""
    import copy
    parents = {}
    for t in trees:
        for p_ in ast.walk(t):
            for ch in ast.iter_child_nodes(p_):
                parents[id(ch)] = p_
    mods = {id(c): t for t in trees for c in t.body if isinstance(c, ast.ClassDef)}
    holders = {}
    for t in trees:
        for c in t.body:
            if not isinstance(c, ast.ClassDef) or not c.name.startswith('_') or c.name.startswith('__') or c.bases or c.decorator_list or c.keywords:
                continue
            ok = True
            fields, methods, props, init = [], {}, {}, None
            for b in c.body:
                if isinstance(b, ast.Expr) and isinstance(b.value, ast.Constant):
                    continue
                if not isinstance(b, ast.FunctionDef) or not b.args.args or b.args.args[0].arg != 'self' or b.args.vararg or b.args.kwarg or b.args.kwonlyargs:
                    ok = False
                    break
                deco = [ast.unparse(d) for d in b.decorator_list]
                if b.name == '__init__' and not deco:
                    init = b
                elif b.name.startswith('__'):
                    ok = False
                    break
                elif deco == ['property'] and len(b.args.args) == 1:
                    props[b.name] = b
                elif not deco:
                    methods[b.name] = b
                else:
                    ok = False
                    break
            if not ok:
                continue
            if init is not None:
                for st in init.body:
                    if isinstance(st, ast.Expr) and isinstance(st.value, ast.Constant):
                        continue
                    if isinstance(st, ast.Assign) and len(st.targets) == 1 and isinstance(st.targets[0], ast.Attribute) and isinstance(st.targets[0].value, ast.Name) \
                            and st.targets[0].value.id == 'self' and not any(isinstance(x, (ast.Call, ast.Lambda)) and not (isinstance(x, ast.Call) and isinstance(x.func, ast.Name)
                                                                                                                             and x.func.id in ('float', 'int', 'max', 'min', 'len'))
                                                                             for x in ast.walk(st.value)):
                        fields.append(st.targets[0].attr)
                    else:
                        ok = False
                        break
            if not ok or not fields:
                continue
            # `self` may only be used as `self.<member>` inside the class
            members = set(fields) | set(methods) | set(props)
            for b in list(methods.values()) + list(props.values()) + ([init] if init else []):
                for x in ast.walk(b):
                    if isinstance(x, ast.Name) and x.id == 'self':
                        par = parents.get(id(x))
                        if not (isinstance(par, ast.Attribute) and par.value is x and par.attr in members):
                            ok = False
            if ok:
                holders[c.name] = (t, c, init, fields, methods, props)
    if not holders:
        return
    for kname, (kt, kc, init, fields, methods, props) in list(holders.items()):
        # every use of the class name: an instantiation `self.F = K(args)` inside a method of some class, or an import
        sites = []           # (assign stmt, owner ClassDef, F)
        ok = True
        for t in trees:
            for x in ast.walk(t):
                if isinstance(x, ast.Name) and x.id == kname:
                    call = parents.get(id(x))
                    st = parents.get(id(call)) if isinstance(call, ast.Call) and call.func is x else None
                    if isinstance(st, ast.Assign) and st.value is call and len(st.targets) == 1 and isinstance(st.targets[0], ast.Attribute) \
                            and isinstance(st.targets[0].value, ast.Name) and st.targets[0].value.id == 'self' and not call.keywords \
                            and not any(isinstance(a, ast.Starred) for a in call.args):
                        fn_ = parents.get(id(st))
                        while fn_ is not None and not isinstance(fn_, ast.FunctionDef):
                            fn_ = parents.get(id(fn_))
                        owner = parents.get(id(fn_)) if fn_ is not None else None
                        if isinstance(owner, ast.ClassDef) and st in fn_.body:
                            sites.append((st, fn_, owner, st.targets[0].attr, call))
                            continue
                    ok = False
                elif isinstance(x, ast.Attribute) and x.attr == kname:
                    ok = False
        if not ok or not sites:
            continue
        fnames = {s_[3] for s_ in sites}
        members = set(fields) | set(methods) | set(props)
        n_params = len(init.args.args) - 1 if init is not None else 0
        if any(len(s_[4].args) != n_params for s_ in sites) or (init is not None and init.args.defaults):
            continue
        # every other occurrence of a holder field must be `<x>.F.<member>`
        for t in trees:
            for x in ast.walk(t):
                if isinstance(x, ast.Attribute) and x.attr in fnames:
                    par = parents.get(id(x))
                    is_site = any(x is s_[0].targets[0] for s_ in sites)
                    if is_site:
                        continue
                    if not (isinstance(par, ast.Attribute) and par.value is x and par.attr in members and isinstance(x.ctx, ast.Load)):
                        ok = False
                elif isinstance(x, (ast.FunctionDef, ast.ClassDef)) and x.name in fnames:
                    ok = False
        if not ok:
            continue
        # ---- rewrite uses
        for t in trees:
            for x in ast.walk(t):
                if isinstance(x, ast.Attribute) and isinstance(x.value, ast.Attribute) and x.value.attr in fnames and x.attr in members:
                    x.attr = f'{x.value.attr}__{x.attr}'
                    x.value = x.value.value

        def member_copy(b, F):
            nb = copy.deepcopy(b)
            nb.name = f'{F}__{b.name}'
            for y in ast.walk(nb):
                if isinstance(y, ast.Attribute) and isinstance(y.value, ast.Name) and y.value.id == 'self' and y.attr in members:
                    y.attr = f'{F}__{y.attr}'
            return nb
        done_owner = set()
        for st, fn_, owner, F, call in sites:
            new = []
            if init is not None:
                bind = dict(zip([a.arg for a in init.args.args[1:]], call.args))
                for ist in init.body:
                    if isinstance(ist, ast.Expr):
                        continue
                    ns = copy.deepcopy(ist)
                    for y in ast.walk(ns):
                        if isinstance(y, ast.Attribute) and isinstance(y.value, ast.Name) and y.value.id == 'self' and y.attr in members:
                            y.attr = f'{F}__{y.attr}'

                    class Put(ast.NodeTransformer):
                        def visit_Name(self_, y):
                            if y.id in bind and isinstance(y.ctx, ast.Load):
                                return copy.deepcopy(bind[y.id])
                            return y
                    ns = Put().visit(ns)
                    for y in ast.walk(ns):
                        ast.copy_location(y, st)
                    new.append(ast.fix_missing_locations(ns))
            k = fn_.body.index(st)
            fn_.body[k:k + 1] = new or [ast.copy_location(ast.Pass(), st)]
            if (id(owner), F) not in done_owner:
                done_owner.add((id(owner), F))
                for b in list(methods.values()) + list(props.values()):
                    owner.body.append(member_copy(b, F))
        kt.body = [c for c in kt.body if c is not kc]
    for t in trees:
        ast.fix_missing_locations(t)


CANONICAL_FIELDS = {
    # (class, public getter) -> the private field the rules of this analyser call it by (the names on the pinned tree)
    ('Buffer', 'level'): '_level', ('Buffer', 'stored_parts'): '_buffer',
    ('Source', 'produced_parts'): '_produced_parts', ('Source', 'cost_of_produced_parts'): '_cost_of_produced_parts',
    ('Sink', 'received_parts_count'): '_received_parts_count', ('Sink', 'value_of_received_parts'): '_value_of_received_parts',
    ('Asset', 'value'): '_value', ('Asset', 'value_history'): '_value_history', ('Asset', 'id'): '_id', ('Asset', 'name'): '_name', ('Asset', 'env'): '_env',
    ('Environment', 'now'): '_now',
    ('PartFlowController', 'block_input'): '_block_input', ('PartFlowController', 'upstream'): '_upstream', ('PartFlowController', 'downstream'): '_downstream',
    ('PartHandler', 'cycle_time'): '_cycle_time',
    ('Maintainer', 'total_capacity'): '_capacity',
    ('Sensor', 'last_sense'): '_last_sense', ('Sensor', 'probes'): '_probes',
    ('ActionScheduler', 'current_state'): '_state',
    ('ReservedResources', 'reserved_resources'): '_reserved_resources',
}


ASSIGNED_IN = {('Source', 'adjust_part_count'): '_max_produced_parts', ('PartHandler', 'offset_next_cycle_time'): '_next_cycle_time_offset'}
OTHER_IN_GETTER = {('Maintainer', 'available_capacity'): ('_capacity', '_utilization')}


def _canonical_private_fields(trees):
    """A private field that was renamed everywhere is the same field: where the public getter listed in CANONICAL_FIELDS returns another
    private attribute of self than the name the rules use, and that name is not used for anything else in the package, the attribute is
    read under the canonical name throughout (in place).  Only pure renames are covered: the getter must still return the one field."""
    def returned_field(fn):
        body = [x for x in fn.body if not (isinstance(x, ast.Expr) and isinstance(x.value, ast.Constant))]
        if len(body) != 1 or not isinstance(body[0], ast.Return) or body[0].value is None:
            return None
        e = body[0].value
        if isinstance(e, ast.Call) and isinstance(e.func, ast.Attribute) and e.func.attr == 'copy' and not e.args:
            e = e.func.value
        elif isinstance(e, ast.Call) and isinstance(e.func, ast.Name) and e.func.id in ('list', 'tuple') and len(e.args) == 1:
            e = e.args[0]
        elif isinstance(e, ast.Call) and isinstance(e.func, ast.Attribute) and ast.unparse(e.func) == 'copy.deepcopy' and len(e.args) == 1:
            e = e.args[0]
        if isinstance(e, ast.ListComp) and len(e.generators) == 1:
            e = e.generators[0].iter          # `[entry.part for entry in self._entries]`: the field that is walked
        if isinstance(e, ast.Attribute) and isinstance(e.value, ast.Name) and e.value.id == 'self' and e.attr.startswith('_') and not e.attr.startswith('__'):
            return e.attr
        return None
    used = set()
    for t in trees:
        for x in ast.walk(t):
            if isinstance(x, ast.Attribute):
                used.add(x.attr)
            elif isinstance(x, (ast.FunctionDef, ast.ClassDef)):
                used.add(x.name)
    ren = {}
    for t in trees:
        for c in t.body:
            if not isinstance(c, ast.ClassDef):
                continue
            for m in c.body:
                if isinstance(m, ast.FunctionDef) and (c.name, m.name) in CANONICAL_FIELDS and len(m.args.args) == 1 \
                        and not any(isinstance(d, ast.Attribute) and d.attr in ('setter', 'deleter') for d in m.decorator_list):
                    want = CANONICAL_FIELDS[(c.name, m.name)]
                    got = returned_field(m)
                    if got is not None and got != want and want not in used and got not in ren:
                        ren[got] = want
    if ren and len(set(ren.values())) == len(ren):
        for t in trees:
            for x in ast.walk(t):
                if isinstance(x, ast.Attribute) and x.attr in ren:
                    x.attr = ren[x.attr]
    # fields without a getter of their own: found by the one method that is there to change them
    used = {x.attr for t in trees for x in ast.walk(t) if isinstance(x, ast.Attribute)} | \
           {x.name for t in trees for x in ast.walk(t) if isinstance(x, (ast.FunctionDef, ast.ClassDef))}
    known = set(CANONICAL_FIELDS.values()) | set(ASSIGNED_IN.values()) | {v[1] for v in OTHER_IN_GETTER.values()}
    ren2 = {}
    for t in trees:
        for c in t.body:
            if not isinstance(c, ast.ClassDef):
                continue
            meths = {m.name: m for m in c.body if isinstance(m, ast.FunctionDef)}
            for (cn, mn), want in ASSIGNED_IN.items():
                if cn != c.name or mn not in meths or want in used:
                    continue
                todo, seen, stores = [meths[mn]], set(), set()
                while todo:
                    f_ = todo.pop()
                    if f_.name in seen:
                        continue
                    seen.add(f_.name)
                    for x in ast.walk(f_):
                        if isinstance(x, ast.Attribute) and isinstance(x.ctx, ast.Store) and isinstance(x.value, ast.Name) and x.value.id == 'self':
                            stores.add(x.attr)
                        elif isinstance(x, ast.Call) and isinstance(x.func, ast.Attribute) and isinstance(x.func.value, ast.Name) and x.func.value.id == 'self' \
                                and x.func.attr in meths and x.func.attr.startswith('_') and len(seen) < 3:
                            todo.append(meths[x.func.attr])
                cands = {a for a in stores if a not in known and a.startswith('_')}
                if len(cands) == 1:
                    ren2[next(iter(cands))] = want
            for (cn, mn), (have, want) in OTHER_IN_GETTER.items():
                if cn != c.name or mn not in meths or want in used:
                    continue
                reads = {x.attr for x in ast.walk(meths[mn]) if isinstance(x, ast.Attribute) and isinstance(x.value, ast.Name) and x.value.id == 'self' and x.attr.startswith('_')}
                # through one level of private helper methods / properties of the same class
                for x in list(ast.walk(meths[mn])):
                    if isinstance(x, ast.Attribute) and isinstance(x.value, ast.Name) and x.value.id == 'self' and x.attr in meths and x.attr.startswith('_'):
                        reads.discard(x.attr)
                        reads |= {y.attr for y in ast.walk(meths[x.attr]) if isinstance(y, ast.Attribute) and isinstance(y.value, ast.Name) and y.value.id == 'self'
                                  and y.attr.startswith('_') and y.attr not in meths}
                if have in reads and len(reads) == 2:
                    other = next(iter(reads - {have}))
                    if other not in known:
                        ren2[other] = want
    if ren2 and len(set(ren2.values())) == len(ren2):
        for t in trees:
            for x in ast.walk(t):
                if isinstance(x, ast.Attribute) and x.attr in ren2:
                    x.attr = ren2[x.attr]


def _normalise_deques(trees):
    """`collections.deque()` used as a queue is read as the list it replaces: `deque()` is `[]`, `q.popleft()` is `q.pop(0)`,
    `q.appendleft(x)` is `q.insert(0, x)` (append, pop, len, q[0], iteration and truthiness are spelled the same)"""
    for t in trees:
        names = set()
        for x in ast.walk(t):
            if isinstance(x, ast.ImportFrom) and x.module == 'collections':
                names |= {a.asname or a.name for a in x.names if a.name == 'deque'}
        has_mod = any(isinstance(x, ast.Import) and any(a.name == 'collections' for a in x.names) for x in ast.walk(t))
        if not names and not has_mod:
            continue

        class T(ast.NodeTransformer):
            def visit_Call(self, n):
                self.generic_visit(n)
                f = n.func
                is_deque = (isinstance(f, ast.Name) and f.id in names) or (has_mod and isinstance(f, ast.Attribute) and ast.unparse(f) == 'collections.deque')
                if is_deque and not n.keywords and len(n.args) <= 1:
                    if not n.args:
                        return ast.copy_location(ast.List(elts=[], ctx=ast.Load()), n)
                    return ast.copy_location(ast.Call(func=ast.copy_location(ast.Name(id='list', ctx=ast.Load()), n), args=n.args, keywords=[]), n)
                if isinstance(f, ast.Attribute) and f.attr == 'popleft' and not n.args and not n.keywords:
                    f.attr = 'pop'
                    n.args = [ast.copy_location(ast.Constant(0), n)]
                elif isinstance(f, ast.Attribute) and f.attr == 'appendleft' and len(n.args) == 1 and not n.keywords:
                    f.attr = 'insert'
                    n.args = [ast.copy_location(ast.Constant(0), n), n.args[0]]
                return n
        T().visit(t)
        ast.fix_missing_locations(t)


def _positional_arguments(trees):
    """`x.m(device=self)` is `x.m(self)`: a call of a method (or module-level function) of the package whose definitions all have the same
    parameter list is rewritten with its keyword arguments in positional form, when they fill the parameters without a gap.  Rules read the
    k-th argument of a call; how the caller spelled it is not behaviour."""
    defs = {}
    for t in trees:
        for x in ast.walk(t):
            if isinstance(x, ast.ClassDef):
                for b in x.body:
                    if isinstance(b, ast.FunctionDef):
                        deco = [ast.unparse(d) for d in b.decorator_list]
                        ps = [a.arg for a in b.args.args]
                        if 'staticmethod' not in deco:
                            ps = ps[1:]
                        if b.args.vararg or b.args.kwarg or b.args.kwonlyargs or b.args.posonlyargs or any(d not in ('staticmethod', 'classmethod') for d in deco):
                            ps = None
                        defs.setdefault(b.name, []).append(ps)
        for b in t.body:
            if isinstance(b, ast.FunctionDef):
                ps = None if (b.args.vararg or b.args.kwarg or b.args.kwonlyargs or b.args.posonlyargs or b.decorator_list) else [a.arg for a in b.args.args]
                defs.setdefault(b.name, []).append(ps)
    sig = {k: v[0] for k, v in defs.items() if v and all(p is not None and p == v[0] for p in v)}
    # constructors: K(...) -> parameters of K.__init__
    ctor = {}
    for t in trees:
        for c in t.body:
            if isinstance(c, ast.ClassDef):
                for b in c.body:
                    if isinstance(b, ast.FunctionDef) and b.name == '__init__' and not (b.args.vararg or b.args.kwarg or b.args.kwonlyargs or b.args.posonlyargs):
                        ctor.setdefault(c.name, []).append([a.arg for a in b.args.args[1:]])
    ctor = {k: v[0] for k, v in ctor.items() if len(v) == 1}

    class T(ast.NodeTransformer):
        def visit_Call(self, n):
            self.generic_visit(n)
            if not n.keywords or any(k.arg is None for k in n.keywords) or any(isinstance(a, ast.Starred) for a in n.args):
                return n
            ps = None
            if isinstance(n.func, ast.Attribute) and n.func.attr in sig and n.func.attr != '__init__':
                ps = sig[n.func.attr]
            elif isinstance(n.func, ast.Name) and n.func.id in sig and n.func.id not in ctor:
                ps = sig[n.func.id]
            elif isinstance(n.func, ast.Name) and n.func.id in ctor:
                ps = ctor[n.func.id]
            if ps is None:
                return n
            kw = {k.arg: k.value for k in n.keywords}
            if not set(kw) <= set(ps) or len(kw) != len(n.keywords):
                return n
            args = list(n.args)
            rest = dict(kw)
            for p_ in ps[len(args):]:
                if p_ in rest:
                    args.append(rest.pop(p_))
                else:
                    break
            if rest:
                return n          # a gap: some keyword argument comes after an omitted (defaulted) parameter
            n.args, n.keywords = args, []
            return n
    for t in trees:
        T().visit(t)
        ast.fix_missing_locations(t)


def _fold_constants(node):
    """partial evaluation after a parameter has been replaced by a constant: comparisons between constants, `not` of a constant, boolean
    operators with constant operands, conditional expressions and `if` statements with a constant test"""
    class F(ast.NodeTransformer):
        def visit_Compare(self, n):
            self.generic_visit(n)
            if len(n.ops) == 1 and isinstance(n.left, ast.Constant) and isinstance(n.comparators[0], ast.Constant):
                a, b, op = n.left.value, n.comparators[0].value, n.ops[0]
                try:
                    if isinstance(op, ast.Is):
                        r = a is b if (a is None or b is None or isinstance(a, bool) or isinstance(b, bool)) else None
                    elif isinstance(op, ast.IsNot):
                        r = a is not b if (a is None or b is None or isinstance(a, bool) or isinstance(b, bool)) else None
                    elif isinstance(op, ast.Eq):
                        r = a == b
                    elif isinstance(op, ast.NotEq):
                        r = a != b
                    elif isinstance(op, (ast.Lt, ast.LtE, ast.Gt, ast.GtE)) and all(isinstance(v, (int, float)) for v in (a, b)):
                        r = {ast.Lt: a < b, ast.LtE: a <= b, ast.Gt: a > b, ast.GtE: a >= b}[type(op)]
                    else:
                        r = None
                except Exception:      # noqa: BLE001
                    r = None
                if r is not None:
                    return ast.copy_location(ast.Constant(bool(r)), n)
            return n

        def visit_UnaryOp(self, n):
            self.generic_visit(n)
            if isinstance(n.op, ast.Not) and isinstance(n.operand, ast.Constant):
                return ast.copy_location(ast.Constant(not n.operand.value), n)
            return n

        def visit_BoolOp(self, n):
            self.generic_visit(n)
            is_and = isinstance(n.op, ast.And)
            vals = []
            for v in n.values:
                if isinstance(v, ast.Constant):
                    if bool(v.value) == is_and:
                        continue                      # neutral element: `x and True`, `x or False`
                    vals.append(v)                    # deciding element: nothing after it is evaluated
                    break
                vals.append(v)
            if not vals:
                return ast.copy_location(ast.Constant(is_and), n)
            if len(vals) == 1:
                return vals[0]
            if isinstance(vals[-1], ast.Constant) and all(not any(isinstance(x, ast.Call) for x in ast.walk(v)) for v in vals[:-1]):
                return vals[-1] if False else ast.copy_location(ast.BoolOp(op=n.op, values=vals), n)
            n.values = vals
            return n

        def visit_IfExp(self, n):
            self.generic_visit(n)
            if isinstance(n.test, ast.Constant):
                return n.body if n.test.value else n.orelse
            return n

        def _block(self, body):
            out = []
            spliced = False
            for st in body:
                r = self.visit(st)
                if r is None:
                    continue
                if isinstance(r, list):
                    out.extend(r)
                    spliced = True
                else:
                    out.append(r)
            if spliced:
                # a branch that was chosen may end in return / raise: what followed the `if` is then unreachable
                for k, st in enumerate(out):
                    if isinstance(st, (ast.Return, ast.Raise, ast.Continue, ast.Break)):
                        out = out[:k + 1]
                        break
            return out

        def visit_If(self, n):
            n.test = self.visit(n.test)
            n.body = self._block(n.body)
            n.orelse = self._block(n.orelse)
            if isinstance(n.test, ast.Constant):
                chosen = n.body if n.test.value else n.orelse
                return chosen if chosen else None
            if not n.body:
                n.body = [ast.copy_location(ast.Pass(), n)]
            return n

        def generic_visit(self, n):
            for f in ('body', 'orelse', 'finalbody'):
                b = getattr(n, f, None)
                if isinstance(b, list) and b and isinstance(b[0], ast.stmt) and not isinstance(n, ast.If):
                    nb = self._block(b)
                    setattr(n, f, nb if nb or f != 'body' else [ast.copy_location(ast.Pass(), n)])
            for fld, val in ast.iter_fields(n):
                if fld in ('body', 'orelse', 'finalbody') and isinstance(val, list) and val and isinstance(val[0], ast.stmt):
                    continue
                if isinstance(val, list):
                    new = []
                    for x in val:
                        if isinstance(x, ast.AST):
                            r = self.visit(x)
                            if r is None:
                                continue
                            if isinstance(r, list):
                                new.extend(r)
                            else:
                                new.append(r)
                        else:
                            new.append(x)
                    val[:] = new
                elif isinstance(val, ast.AST):
                    r = self.visit(val)
                    if r is not None and not isinstance(r, list):
                        setattr(n, fld, r)
            return n
    return F().visit(node)


def _specialise_new_optional_parameters(trees):
    for _round in range(3):
        _specialise_round(trees)
        _constant_new_fields(trees)


def _constant_new_fields(trees):
    """a private field that the pinned tree does not have, stored exactly once in the whole package -- a constant, in a constructor (typically the
    default of a new optional parameter that was just substituted) -- is that constant wherever it is read"""
    import copy
    import json as _json
    import pathlib as _pl
    try:
        known = set(_json.load(open(_pl.Path(__file__).with_name('signatures.json'))).get('__attributes__', []))
    except Exception:      # noqa: BLE001
        return
    if not known:
        return
    stores = {}
    for t in trees:
        for c in [x for x in ast.walk(t) if isinstance(x, ast.ClassDef)]:
            for b in c.body:
                if not isinstance(b, ast.FunctionDef):
                    continue
                for st in ast.walk(b):
                    tg = st.targets if isinstance(st, ast.Assign) else [st.target] if isinstance(st, (ast.AugAssign, ast.AnnAssign)) else []
                    for t_ in tg:
                        for x in ast.walk(t_):
                            if isinstance(x, ast.Attribute) and isinstance(x.ctx, (ast.Store, ast.Del)):
                                v = st.value if isinstance(st, ast.Assign) and len(st.targets) == 1 and st.targets[0] is x and b.name == '__init__' \
                                    and isinstance(x.value, ast.Name) and x.value.id == 'self' else None
                                stores.setdefault(x.attr, []).append(v)
        for x in ast.walk(t):
            if isinstance(x, ast.Delete):
                for t_ in x.targets:
                    if isinstance(t_, ast.Attribute):
                        stores.setdefault(t_.attr, []).append(None)
    consts = {a: v[0] for a, v in stores.items() if a.startswith('_') and not a.startswith('__') and a not in known and len(v) == 1 and isinstance(v[0], ast.Constant)}
    # setattr / getattr by name would escape this: give up on a field whose name appears as a string constant
    strings = {x.value for t in trees for x in ast.walk(t) if isinstance(x, ast.Constant) and isinstance(x.value, str)}
    consts = {a: v for a, v in consts.items() if a not in strings}
    if not consts:
        return

    class T(ast.NodeTransformer):
        def visit_Attribute(self, n):
            self.generic_visit(n)
            if isinstance(n.ctx, ast.Load) and n.attr in consts:
                return ast.copy_location(copy.deepcopy(consts[n.attr]), n)
            return n
    for t in trees:
        T().visit(t)
        _fold_constants(t)
        ast.fix_missing_locations(t)


def _specialise_round(trees):
    """A parameter that the pinned tree does not have (sa/signatures.json), that has a constant default and that no call in the package passes,
    is read as that default inside its function, and the function is partially evaluated: existing callers -- the ones the properties speak
    about -- get exactly this code.  (`cancel_matching_events(asset_id=None, include_paused=True, on_cancelled=None)` is analysed as the
    two-list cancel without a callback it is for every existing caller; what a caller of the new feature gets is not claimed.)"""
    import copy
    import json as _json
    import pathlib as _pl
    try:
        known = _json.load(open(_pl.Path(__file__).with_name('signatures.json')))
    except Exception:      # noqa: BLE001
        return
    passed_kw = set()
    pos_counts = {}
    # positional defaults of every definition, by function name (constructors under the class name): a trailing argument that is the very
    # constant the parameter defaults to passes nothing (`Event(t, i, a, e, message, None)` after `random_weight` became None in the caller)
    defs_by_name = {}
    for t in trees:
        for c in t.body:
            fns = [(c.name, b) for b in c.body if isinstance(b, ast.FunctionDef)] if isinstance(c, ast.ClassDef) else ([(None, c)] if isinstance(c, ast.FunctionDef) else [])
            for cn, b in fns:
                skip = 1 if (cn and b.args.args and b.args.args[0].arg in ('self', 'cls')) else 0
                ps = b.args.args[skip:]
                dfl = [None] * (len(ps) - len(b.args.defaults)) + list(b.args.defaults) if len(b.args.defaults) <= len(ps) else [None] * len(ps)
                defs_by_name.setdefault(b.name, []).append(dfl)
                if b.name == '__init__' and cn:
                    defs_by_name.setdefault(cn, []).append(dfl)

    def effective_args(call, nm):
        args = list(call.args)
        while args and isinstance(args[-1], ast.Constant) and nm in defs_by_name:
            k = len(args) - 1
            if all(k < len(dfl) and isinstance(dfl[k], ast.Constant) and dfl[k].value == args[-1].value and type(dfl[k].value) is type(args[-1].value) for dfl in defs_by_name[nm]):
                args.pop()
            else:
                break
        return args
    # defaults by (function name, parameter name): a keyword argument that is the very constant the parameter defaults to passes nothing either
    # (`super().__init__(name, upstream, value, block_input=False)` after the caller's own new parameter was specialised)
    kw_defaults = {}
    for t in trees:
        for b in [x for x in ast.walk(t) if isinstance(x, ast.FunctionDef)]:
            ps_ = b.args.args
            for a_, d_ in zip(ps_[len(ps_) - len(b.args.defaults):], b.args.defaults):
                kw_defaults.setdefault((b.name, a_.arg), []).append(d_)
            for a_, d_ in zip(b.args.kwonlyargs, b.args.kw_defaults):
                kw_defaults.setdefault((b.name, a_.arg), []).append(d_)

    def passes_default(call, k):
        nm_ = call.func.attr if isinstance(call.func, ast.Attribute) else call.func.id if isinstance(call.func, ast.Name) else None
        if nm_ is None or not isinstance(k.value, ast.Constant):
            return False
        cands = kw_defaults.get((nm_, k.arg), []) + (kw_defaults.get(('__init__', k.arg), []) if nm_[:1].isupper() else [])
        return bool(cands) and all(isinstance(d_, ast.Constant) and d_.value == k.value.value and type(d_.value) is type(k.value.value) for d_ in cands)
    # who is called: `super().__init__(...)` inside class C and `Base.__init__(self, ...)` / `Base(...)` name a class, so a keyword passed there
    # concerns the constructor of that class (the nearest one up its first-base chain that defines one) and no other `__init__`
    class_defs = {c.name: c for t in trees for c in ast.walk(t) if isinstance(c, ast.ClassDef)}

    def ctor_owner(cn, skip_self=False):
        seen_ = set()
        while cn in class_defs and cn not in seen_:
            seen_.add(cn)
            c = class_defs[cn]
            if not skip_self and any(isinstance(b, ast.FunctionDef) and b.name == '__init__' for b in c.body):
                return cn
            skip_self = False
            if not c.bases:
                return None
            b0 = c.bases[0]
            cn = b0.id if isinstance(b0, ast.Name) else b0.attr if isinstance(b0, ast.Attribute) else None
        return None
    enclosing_class = {}
    for c in class_defs.values():
        for x in ast.walk(c):
            if isinstance(x, ast.Call):
                enclosing_class.setdefault(id(x), c.name)

    def callee_owner(call):
        f = call.func
        if isinstance(f, ast.Attribute) and f.attr == '__init__':
            v = f.value
            if isinstance(v, ast.Call) and isinstance(v.func, ast.Name) and v.func.id == 'super' and not v.args and id(call) in enclosing_class:
                return ctor_owner(enclosing_class[id(call)], skip_self=True)
            if isinstance(v, ast.Name) and v.id in class_defs:
                return ctor_owner(v.id)
        if isinstance(f, ast.Name) and f.id in class_defs:
            return ctor_owner(f.id)
        return None
    for t in trees:
        for x in ast.walk(t):
            if isinstance(x, ast.Call):
                own_ = callee_owner(x)
                for k in x.keywords:
                    if k.arg:
                        if not passes_default(x, k):
                            passed_kw.add((own_, k.arg) if own_ else k.arg)
                    else:
                        passed_kw.add('**')
                nm = x.func.attr if isinstance(x.func, ast.Attribute) else x.func.id if isinstance(x.func, ast.Name) else None
                if nm:
                    npos = len(effective_args(x, nm)) + (100 if any(isinstance(a, ast.Starred) for a in x.args) else 0)
                    pos_counts[nm] = max(pos_counts.get(nm, 0), npos)
    if '**' in passed_kw:
        pass        # a **kwargs call somewhere: keyword names are unknown there; such calls forward to the same-named parameter and stay neutral

    def handle(fn, qual, ctor_name=None):
        if qual not in known:
            return
        args = fn.args.args + fn.args.kwonlyargs
        defaults = dict(zip([a.arg for a in fn.args.args][len(fn.args.args) - len(fn.args.defaults):], fn.args.defaults))
        defaults.update({a.arg: d for a, d in zip(fn.args.kwonlyargs, fn.args.kw_defaults) if d is not None})
        is_method = bool(fn.args.args) and fn.args.args[0].arg in ('self', 'cls')
        bind = {}
        drop_only = set()          # parameters that became ordinary locals (`if p is None: p = E` with p == None)
        for idx, a in enumerate(fn.args.args + fn.args.kwonlyargs):
            d_ = defaults.get(a.arg)
            literal = isinstance(d_, ast.Constant) or (isinstance(d_, ast.UnaryOp) and isinstance(d_.operand, ast.Constant)) or \
                (isinstance(d_, ast.Attribute) and isinstance(d_.value, ast.Name) and d_.value.id[:1].isupper() and d_.attr.isupper())     # EventType.FAIL
            if a.arg in known[qual] or a.arg not in defaults or not literal:
                continue
            if a.arg in passed_kw or (ctor_name and fn.name == '__init__' and (ctor_name, a.arg) in passed_kw):
                continue
            if a in fn.args.args:
                pos = idx - (1 if is_method else 0)
                callee_names = [fn.name] + ([ctor_name] if ctor_name else [])
                if any(pos_counts.get(nm, 0) > pos for nm in callee_names):
                    continue
            stores_ = [x for x in ast.walk(fn) if isinstance(x, ast.Name) and x.id == a.arg and isinstance(x.ctx, (ast.Store, ast.Del))]
            if stores_:
                # `if p is None: p = <expr>` (the usual way of giving a None default its real value): with p == None that is `p = <expr>`
                done_ = False
                if len(stores_) == 1 and isinstance(d_, ast.Constant) and d_.value is None:
                    for k_, st_ in enumerate(fn.body):
                        if isinstance(st_, ast.If) and not st_.orelse and len(st_.body) == 1 and isinstance(st_.body[0], ast.Assign) and st_.body[0].targets[0] is stores_[0] \
                                and isinstance(st_.test, ast.Compare) and len(st_.test.ops) == 1 and isinstance(st_.test.ops[0], (ast.Is, ast.Eq)) \
                                and isinstance(st_.test.left, ast.Name) and st_.test.left.id == a.arg and isinstance(st_.test.comparators[0], ast.Constant) \
                                and st_.test.comparators[0].value is None and not any(isinstance(x, ast.Name) and x.id == a.arg for x in ast.walk(st_.body[0].value)):
                            # reads of p before this statement see None
                            class PutNone(ast.NodeTransformer):
                                def visit_Name(self_, x):
                                    if x.id == a.arg and isinstance(x.ctx, ast.Load):
                                        return ast.copy_location(ast.Constant(None), x)
                                    return x
                            head_ = ast.Module(body=[PutNone().visit(b_) for b_ in fn.body[:k_]], type_ignores=[])
                            _fold_constants(head_)
                            fn.body[:k_] = head_.body
                            k_ = len(head_.body)
                            fn.body[k_] = st_.body[0]
                            drop_only.add(a.arg)
                            done_ = True
                            break
                if not done_:
                    continue
                continue
            bind[a.arg] = defaults[a.arg]
        if not bind and not drop_only:
            return
        bind_all = set(bind) | drop_only

        class Put(ast.NodeTransformer):
            def visit_Name(self_, x):
                if x.id in bind and isinstance(x.ctx, ast.Load):
                    return ast.copy_location(copy.deepcopy(bind[x.id]), x)
                return x

            def visit_FunctionDef(self_, x):
                return x if x is not fn else self_.generic_visit(x)

            def visit_Lambda(self_, x):
                return x
        # ... unless the paths that only a caller of the new parameter reaches act on the model (they call into the package or store a field): what such
        # a caller gets is then part of what the library does -- `simulate(d, progress_updates=10)` running ten stages of d / 10 -- and is analysed
        def effects(f_):
            """what the function does to the model, as texts: calls into the package (a trailing argument that is the callee's own default is not
            written) and field stores"""
            from collections import Counter
            out = Counter()
            for x in ast.walk(f_):
                if isinstance(x, ast.Call):
                    nm_ = x.func.attr if isinstance(x.func, ast.Attribute) else x.func.id if isinstance(x.func, ast.Name) else None
                    if nm_ in defs_by_name and not (isinstance(x.func, ast.Name) and x.func.id in bind_all):
                        c2 = copy.deepcopy(x)
                        c2.args = effective_args(c2, nm_)
                        c2.keywords = [k for k in c2.keywords if not (k.arg and passes_default(x, k))]
                        out[('call', ast.unparse(c2))] += 1
                elif isinstance(x, (ast.Assign, ast.AugAssign, ast.AnnAssign, ast.Delete)):
                    tg = x.targets if isinstance(x, (ast.Assign, ast.Delete)) else [x.target]
                    if any(isinstance(y, ast.Attribute) and isinstance(y.ctx, (ast.Store, ast.Del)) for t_ in tg for y in ast.walk(t_)):
                        out[('store', ast.unparse(x))] += 1
            return out

        class PutT(ast.NodeTransformer):
            def visit_Name(self_, x):
                if x.id in bind and isinstance(x.ctx, ast.Load):
                    return ast.copy_location(copy.deepcopy(bind[x.id]), x)
                return x

            def visit_FunctionDef(self_, x):
                return x if x is not self_.root else self_.generic_visit(x)

            def visit_Lambda(self_, x):
                return x
        substituted = copy.deepcopy(fn)
        pt = PutT()
        pt.root = substituted
        pt.generic_visit(substituted)
        trial = copy.deepcopy(substituted)
        _fold_constants(trial)
        before, after = effects(substituted), effects(trial)
        # an effect that disappears is a loss unless the very same effect is still there (`self._initialize_assets(progress)` in the branch for a
        # given callback is, with the default put in, the `self._initialize_assets()` of the other branch)
        if any(k not in after for k in (before - after)):
            return
        Put().generic_visit(fn)
        _fold_constants(fn)
        if not fn.body:
            fn.body = [ast.copy_location(ast.Pass(), fn)]
        # ... and is no longer a parameter of the analysed copy (rules that read a signature see the one existing callers use)
        nd = len(fn.args.defaults)
        pos = fn.args.args
        dflt = [None] * (len(pos) - nd) + list(fn.args.defaults)
        keep = [(a_, d_) for a_, d_ in zip(pos, dflt) if a_.arg not in bind_all]
        fn.args.args = [a_ for a_, _ in keep]
        fn.args.defaults = [d_ for _, d_ in keep if d_ is not None]
        kw_keep = [(a_, d_) for a_, d_ in zip(fn.args.kwonlyargs, fn.args.kw_defaults) if a_.arg not in bind_all]
        fn.args.kwonlyargs = [a_ for a_, _ in kw_keep]
        fn.args.kw_defaults = [d_ for _, d_ in kw_keep]
    for t in trees:
        for c in t.body:
            if isinstance(c, ast.ClassDef):
                for b in c.body:
                    if isinstance(b, ast.FunctionDef):
                        handle(b, f'{c.name}.{b.name}', c.name if b.name == '__init__' else None)
            elif isinstance(c, ast.FunctionDef):
                handle(c, c.name)
        ast.fix_missing_locations(t)
    # a helper that the pinned tree does not have, whose whole body is `return <expression>`, called with a constant among its arguments
    # (typically the default just substituted: `Environment._event_type_matches(x, None)`): the expression, partially evaluated
    helpers = {}
    names_count = {}
    for t in trees:
        for c in t.body:
            fns = [(c.name, b) for b in c.body if isinstance(b, ast.FunctionDef)] if isinstance(c, ast.ClassDef) else ([(None, c)] if isinstance(c, ast.FunctionDef) else [])
            for cn, b in fns:
                names_count[b.name] = names_count.get(b.name, 0) + 1
                qual = f'{cn}.{b.name}' if cn else b.name
                if qual in known:
                    continue
                body = [x for x in b.body if not (isinstance(x, ast.Expr) and isinstance(x.value, ast.Constant))]
                deco = [ast.unparse(d) for d in b.decorator_list]
                # `try: return E / except X as e: raise Y(...) from e`: the value is E, the handler only re-words the error
                if len(body) == 1 and isinstance(body[0], ast.Try) and len(body[0].body) == 1 and isinstance(body[0].body[0], ast.Return) and not body[0].orelse \
                        and not body[0].finalbody and body[0].handlers and all(len(h.body) == 1 and isinstance(h.body[0], ast.Raise) for h in body[0].handlers):
                    body = [body[0].body[0]]
                # `if c1: return E1` ... `return En` (guards without else, each returning a value): the conditional expression E1 if c1 else ... En
                if len(body) > 1 and isinstance(body[-1], ast.Return) and body[-1].value is not None and all(
                        isinstance(x, ast.If) and not x.orelse and len(x.body) == 1 and isinstance(x.body[0], ast.Return) and x.body[0].value is not None
                        and not any(isinstance(y, ast.Call) for y in ast.walk(x.test)) for x in body[:-1]):
                    e_ = body[-1].value
                    for x in reversed(body[:-1]):
                        e_ = ast.IfExp(test=x.test, body=x.body[0].value, orelse=e_)
                    body = [ast.copy_location(ast.Return(value=ast.copy_location(e_, body[-1])), body[-1])]
                    ast.fix_missing_locations(body[0])
                    body[0].value._sa_from_guards = True
                if len(body) == 1 and isinstance(body[0], ast.Return) and body[0].value is not None and deco in ([], ['staticmethod']) \
                        and not (b.args.vararg or b.args.kwarg or b.args.kwonlyargs) and all(isinstance(d_, ast.Constant) for d_ in b.args.defaults) \
                        and not any(isinstance(x, (ast.Lambda, ast.Yield, ast.Await, ast.NamedExpr)) for x in ast.walk(body[0].value)):
                    ps = [a.arg for a in b.args.args]
                    if cn and deco == []:
                        if not ps or ps[0] != 'self':
                            continue
                    helpers[b.name] = (cn, deco == ['staticmethod'] or cn is None, ps, body[0].value, list(b.args.defaults))
    helpers = {k: v for k, v in helpers.items() if names_count.get(k) == 1}
    if helpers:
        def simple(e):
            return isinstance(e, (ast.Name, ast.Constant)) or (isinstance(e, ast.Attribute) and simple(e.value))

        class Inl(ast.NodeTransformer):
            def visit_Call(self_, n):
                self_.generic_visit(n)
                nm = n.func.attr if isinstance(n.func, ast.Attribute) else n.func.id if isinstance(n.func, ast.Name) else None
                if nm not in helpers or n.keywords or not all(simple(a) for a in n.args):
                    return n
                cn, static, ps, expr, dflts = helpers[nm]
                own = ps if static else ps[1:]
                args_ = list(n.args)
                if len(args_) < len(own) and len(own) - len(args_) <= len(dflts):
                    args_ += [copy.deepcopy(d_) for d_ in dflts[len(dflts) - (len(own) - len(args_)):]]      # omitted trailing arguments take their constant defaults
                if not static and isinstance(n.func, ast.Attribute) and isinstance(n.func.value, ast.Name) and n.func.value.id == cn and len(n.args) == len(ps):
                    static, own, args_ = True, ps, list(n.args)          # `Part.snapshot(obj)`: the method called through its class, receiver given explicitly
                if len(own) != len(args_):
                    return n
                if static:
                    bind = dict(zip(ps, args_))
                else:
                    if not isinstance(n.func, ast.Attribute) or not simple(n.func.value):
                        return n
                    bind = dict(zip(ps[1:], args_))
                    bind[ps[0]] = n.func.value

                class Put(ast.NodeTransformer):
                    def visit_Name(s_, x):
                        if x.id in bind and isinstance(x.ctx, ast.Load):
                            return copy.deepcopy(bind[x.id])
                        return x
                e = Put().visit(copy.deepcopy(expr))
                for x in ast.walk(e):
                    ast.copy_location(x, n)
                holder = ast.Expr(value=e)
                _fold_constants(holder)
                if getattr(expr, '_sa_from_guards', False) and isinstance(holder.value, ast.IfExp):
                    return n        # the guards were not decided by the arguments: the helper stays a helper (the rules read it as one)
                return holder.value
        def propagate_constant_locals(t):
            """a local bound exactly once, to a constant (what is left of `type_filter = Environment._as_type_filter(None)`), is that constant"""
            changed = False
            for fn in [x for x in ast.walk(t) if isinstance(x, ast.FunctionDef)]:
                params = {a.arg for a in fn.args.args + fn.args.kwonlyargs} | ({fn.args.vararg.arg} if fn.args.vararg else set()) | ({fn.args.kwarg.arg} if fn.args.kwarg else set())
                stores = {}
                for x in ast.walk(fn):
                    if isinstance(x, ast.Name) and isinstance(x.ctx, (ast.Store, ast.Del)):
                        stores[x.id] = stores.get(x.id, 0) + 1
                consts = {}
                for st in fn.body:
                    if isinstance(st, ast.Assign) and len(st.targets) == 1 and isinstance(st.targets[0], ast.Name) and isinstance(st.value, ast.Constant) \
                            and stores.get(st.targets[0].id) == 1 and st.targets[0].id not in params:
                        consts[st.targets[0].id] = st.value
                if not consts:
                    continue

                class PutC(ast.NodeTransformer):
                    def visit_Name(s_, x):
                        if x.id in consts and isinstance(x.ctx, ast.Load):
                            return ast.copy_location(copy.deepcopy(consts[x.id]), x)
                        return x

                    def visit_FunctionDef(s_, x):
                        return x if x is not fn else s_.generic_visit(x)

                    def visit_Lambda(s_, x):
                        return x
                PutC().generic_visit(fn)
                changed = True
            return changed
        class Unstar(ast.NodeTransformer):
            """`(a, *(b, c))` is `(a, b, c)`"""
            def _flat(s_, elts):
                out = []
                for e in elts:
                    if isinstance(e, ast.Starred) and isinstance(e.value, (ast.Tuple, ast.List)) and not any(isinstance(y, ast.Starred) for y in e.value.elts):
                        out.extend(e.value.elts)
                    else:
                        out.append(e)
                return out

            def visit_Tuple(s_, n):
                s_.generic_visit(n)
                if isinstance(n.ctx, ast.Load):
                    n.elts = s_._flat(n.elts)
                return n

            def visit_List(s_, n):
                s_.generic_visit(n)
                if isinstance(n.ctx, ast.Load):
                    n.elts = s_._flat(n.elts)
                return n
        for t in trees:
            Inl().visit(t)
            Unstar().visit(t)
            _fold_constants(t)
            if propagate_constant_locals(t):
                Inl().visit(t)
                _fold_constants(t)
            ast.fix_missing_locations(t)


def _strip_diagnostics(trees):
    """`logger.debug(...)` and `if logger.isEnabledFor(...): logger.debug(...)` -- calls on a module-level `logging.getLogger(...)` object or on the
    `logging` module -- are removed from the analysed copy when their arguments call nothing but pure builtins and private one-line label
    helpers: diagnostics neither read nor write anything the properties speak about."""
    LOG_METHODS = {'debug', 'info', 'warning', 'warn', 'error', 'exception', 'critical', 'log'}
    PURE = {'len', 'str', 'repr', 'type', 'int', 'float', 'round', 'sorted', 'list', 'tuple', 'id', 'getattr', 'isinstance', 'format', 'sum', 'min', 'max', 'bool', 'dict', 'set'}
    for t in trees:
        loggers = set()
        for st in t.body:
            if isinstance(st, ast.Assign) and len(st.targets) == 1 and isinstance(st.targets[0], ast.Name) and isinstance(st.value, ast.Call) \
                    and ast.unparse(st.value.func) in ('logging.getLogger', 'getLogger'):
                loggers.add(st.targets[0].id)
        has_logging = any(isinstance(x, ast.Import) and any(a.name == 'logging' for a in x.names) for x in ast.walk(t))
        if not loggers and not has_logging:
            continue
        one_liners = {b.name for b in ast.walk(t) if isinstance(b, ast.FunctionDef) and b.name.startswith('_') and
                      len([x for x in b.body if not (isinstance(x, ast.Expr) and isinstance(x.value, ast.Constant))]) == 1}
        # private label helpers of any length that only compute a value: `if`/`return`/local assignments, no store into an object, no call except
        # pure builtins, string methods and each other (`_describe(item)` returning a name with a length)
        def _is_value_helper(b, pure_names):
            if not b.name.startswith('_') or b.name.startswith('__'):
                return False
            for x in ast.walk(b):
                if isinstance(x, (ast.Attribute, ast.Subscript)) and isinstance(x.ctx, (ast.Store, ast.Del)):
                    return False
                if isinstance(x, (ast.For, ast.While, ast.With, ast.Try, ast.Raise, ast.Global, ast.Nonlocal, ast.Yield, ast.YieldFrom, ast.Await, ast.AugAssign, ast.Delete)):
                    return False
                if isinstance(x, ast.Call):
                    f = x.func
                    ok = (isinstance(f, ast.Name) and (f.id in PURE or f.id in pure_names)) or \
                         (isinstance(f, ast.Attribute) and (f.attr in ('format', 'join', 'get', 'keys', 'values', 'items', 'copy') or f.attr in pure_names))
                    if not ok:
                        return False
            return any(isinstance(x, ast.Return) and x.value is not None for x in ast.walk(b))
        value_helpers = set(one_liners)
        for _k in range(3):
            more = {b.name for b in ast.walk(t) if isinstance(b, ast.FunctionDef) and _is_value_helper(b, value_helpers)}
            if more <= value_helpers:
                break
            value_helpers |= more
        PROCESS_READS = {'os.getpid', 'time.time', 'time.perf_counter', 'time.monotonic', 'threading.get_ident', 'multiprocessing.current_process'}

        def is_log_recv(e):
            return isinstance(e, ast.Name) and (e.id in loggers or (has_logging and e.id == 'logging'))
        import copy as _copy_
        b_orig = {b.name: _copy_.deepcopy(b) for b in ast.walk(t) if isinstance(b, ast.FunctionDef) and b.name.startswith('_') and
                  any(isinstance(x, ast.Call) and isinstance(x.func, ast.Attribute) and is_log_recv(x.func.value) for x in ast.walk(b))}

        def harmless(e):
            for x in ast.walk(e):
                if isinstance(x, ast.Call):
                    f = x.func
                    ok = (isinstance(f, ast.Name) and (f.id in PURE or f.id in value_helpers)) or \
                         (isinstance(f, ast.Attribute) and (f.attr in ('format', 'join', 'get', 'keys', 'values', 'items', 'copy') or is_log_recv(f.value)
                                                            or f.attr in value_helpers or ast.unparse(f) in PROCESS_READS))
                    if not ok:
                        return False
                if isinstance(x, (ast.NamedExpr, ast.Await, ast.Yield, ast.Lambda)):
                    return False
            return True

        def is_log_stmt(st):
            return isinstance(st, ast.Expr) and isinstance(st.value, ast.Call) and isinstance(st.value.func, ast.Attribute) and st.value.func.attr in LOG_METHODS \
                and is_log_recv(st.value.func.value) and all(harmless(a) for a in st.value.args) and all(harmless(k.value) for k in st.value.keywords)

        def is_log_guard(test):
            for x in ast.walk(test):
                if isinstance(x, ast.Call) and isinstance(x.func, ast.Attribute) and x.func.attr in ('isEnabledFor', 'getEffectiveLevel') and is_log_recv(x.func.value):
                    return harmless(test)
            return False

        def clean(block):
            out = []
            for st in block:
                if is_log_stmt(st):
                    continue
                if isinstance(st, ast.If) and not st.orelse and is_log_guard(st.test) and all(is_log_stmt(b) or (isinstance(b, ast.Assign) and harmless(b.value) and
                                                                                                              all(isinstance(tg, ast.Name) for tg in b.targets)) for b in st.body):
                    continue
                for f in ('body', 'orelse', 'finalbody'):
                    b = getattr(st, f, None)
                    if isinstance(b, list) and b and isinstance(b[0], ast.stmt) and not isinstance(st, ast.ClassDef):
                        nb = clean(b)
                        if not nb and f == 'body':
                            nb = [ast.copy_location(ast.Pass(), st)]
                        setattr(st, f, nb)
                if isinstance(st, ast.Try):
                    for h in st.handlers:
                        h.body = clean(h.body) or [ast.copy_location(ast.Pass(), h)]
                if isinstance(st, ast.ClassDef):
                    for b in st.body:
                        if isinstance(b, ast.FunctionDef):
                            b.body = clean(b.body) or [ast.copy_location(ast.Pass(), b)]
                out.append(st)
            return out
        t.body = clean(t.body)
        # a private helper that did nothing but log (`def _log_debug(self, what, subject): if not logger.isEnabledFor(DEBUG): return; logger.debug(...)`)
        # is now empty: the statements that call it are diagnostics too
        def _is_empty(b):
            body = [x for x in b.body if not (isinstance(x, ast.Expr) and isinstance(x.value, ast.Constant))]
            for x in body:
                if isinstance(x, ast.Pass) or (isinstance(x, ast.Return) and x.value is None):
                    continue
                if isinstance(x, ast.If) and not x.orelse and is_log_guard(x.test) and all(isinstance(y, ast.Pass) or (isinstance(y, ast.Return) and y.value is None) for y in x.body):
                    continue
                return False
            return True
        log_only = {b.name for b in ast.walk(t) if isinstance(b, ast.FunctionDef) and b.name.startswith('_') and not b.name.startswith('__') and not b.decorator_list
                    and _is_empty(b) and any(isinstance(x, ast.Call) and isinstance(x.func, ast.Attribute) and is_log_recv(x.func.value) for x in ast.walk(b_orig.get(b.name, b)))}
        if log_only:
            def is_log_call_stmt(st):
                return isinstance(st, ast.Expr) and isinstance(st.value, ast.Call) and isinstance(st.value.func, ast.Attribute) and st.value.func.attr in log_only \
                    and isinstance(st.value.func.value, ast.Name) and st.value.func.value.id in ('self', 'cls') \
                    and all(harmless(a) for a in st.value.args) and all(harmless(k.value) for k in st.value.keywords)

            def clean2(block):
                out = []
                for st in block:
                    if is_log_call_stmt(st):
                        continue
                    for f in ('body', 'orelse', 'finalbody'):
                        b = getattr(st, f, None)
                        if isinstance(b, list) and b and isinstance(b[0], ast.stmt):
                            nb = clean2(b)
                            if not nb and f == 'body':
                                nb = [ast.copy_location(ast.Pass(), st)]
                            setattr(st, f, nb)
                    if isinstance(st, ast.Try):
                        for h in st.handlers:
                            h.body = clean2(h.body) or [ast.copy_location(ast.Pass(), h)]
                    out.append(st)
                return out
            t.body = clean2(t.body)
        # an `else:` branch that only logged is now `else: pass`; `if c: pass` with nothing else is left as it is (the test may matter to a rule)
        ast.fix_missing_locations(t)


def _unused_enumerate_counters(trees):
    """`for k, x in enumerate(L[, start])` whose counter k is read nowhere in the function (it served a progress report that the diagnostics pass
    removed, say) is the loop `for x in L`: enumerate() walks L with the same iterator."""
    for t in trees:
        for fn in [x for x in ast.walk(t) if isinstance(x, (ast.FunctionDef, ast.Lambda))]:
            if isinstance(fn, ast.Lambda):
                continue
            loads = {}
            for x in ast.walk(fn):
                if isinstance(x, ast.Name) and isinstance(x.ctx, ast.Load):
                    loads[x.id] = loads.get(x.id, 0) + 1
            for lp in [x for x in ast.walk(fn) if isinstance(x, ast.For)]:
                tg, it = lp.target, lp.iter
                if isinstance(tg, ast.Tuple) and len(tg.elts) == 2 and isinstance(tg.elts[0], ast.Name) and not loads.get(tg.elts[0].id) \
                        and isinstance(it, ast.Call) and isinstance(it.func, ast.Name) and it.func.id == 'enumerate' and 1 <= len(it.args) + len(it.keywords) <= 2 \
                        and it.args and all(k.arg == 'start' for k in it.keywords) and not isinstance(it.args[0], ast.Starred):
                    lp.target, lp.iter = tg.elts[1], it.args[0]


def _plain_assignments(trees):
    """`self.x: int = 0` / `total: float = a + b` (an annotated assignment with a value, outside class bodies) is the assignment `self.x = 0`;
    a bare annotation `x: int` inside a function declares nothing at run time and is dropped.  Class-level annotated fields are left alone
    (dataclasses and NamedTuples read them)."""
    class T(ast.NodeTransformer):
        def __init__(self):
            self.depth_fn = 0

        def visit_FunctionDef(self, n):
            self.depth_fn += 1
            self.generic_visit(n)
            self.depth_fn -= 1
            if not n.body:
                n.body = [ast.copy_location(ast.Pass(), n)]
            return n

        def visit_ClassDef(self, n):
            saved, self.depth_fn = self.depth_fn, 0
            record = any('dataclass' in ast.unparse(d) for d in n.decorator_list) or any(ast.unparse(b_).split('.')[-1] in ('NamedTuple', 'TypedDict', 'Protocol') for b_ in n.bases)
            saved_rec, self.in_plain_class = getattr(self, 'in_plain_class', False), not record
            self.generic_visit(n)
            self.depth_fn = saved
            self.in_plain_class = saved_rec
            return n

        def visit_AnnAssign(self, n):
            if self.depth_fn == 0 and getattr(self, 'in_plain_class', False) and n.value is not None and isinstance(n.target, ast.Name):
                return ast.copy_location(ast.Assign(targets=[n.target], value=n.value, type_comment=None), n)     # `_instance: Optional[System] = None` in a class body
            if self.depth_fn == 0:
                return n
            if n.value is None:
                return None
            a = ast.Assign(targets=[n.target], value=n.value, type_comment=None)
            return ast.copy_location(a, n)
    for t in trees:
        T().visit(t)
        ast.fix_missing_locations(t)


def _explicit_dataclass_init(trees):
    """`@dataclass class K: a: T; b: U` without an __init__ of its own has the constructor `def __init__(self, a, b): self.a = a; self.b = b`
    followed by the body of __post_init__: it is written out (in place) so that the rules about how records are built read it.  The decorator
    is removed from the analysed copy when it generates nothing else the rules could see (eq=False / order not requested)."""
    for t in trees:
        for c in [x for x in ast.walk(t) if isinstance(x, ast.ClassDef)]:
            deco = [d for d in c.decorator_list if (isinstance(d, ast.Name) and d.id == 'dataclass') or
                    (isinstance(d, ast.Attribute) and d.attr == 'dataclass') or
                    (isinstance(d, ast.Call) and ((isinstance(d.func, ast.Name) and d.func.id == 'dataclass') or (isinstance(d.func, ast.Attribute) and d.func.attr == 'dataclass')))]
            if not deco or any(isinstance(b, ast.FunctionDef) and b.name == '__init__' for b in c.body) or c.bases:
                continue
            d = deco[0]
            kw = {k.arg: k.value for k in d.keywords} if isinstance(d, ast.Call) else {}
            if any(isinstance(v, ast.Constant) and v.value is True for k, v in kw.items() if k in ('order', 'frozen', 'slots', 'kw_only')) \
                    or (isinstance(kw.get('init'), ast.Constant) and kw['init'].value is False):
                continue
            fields = [b for b in c.body if isinstance(b, ast.AnnAssign) and isinstance(b.target, ast.Name)]
            if not fields or any(ast.unparse(b.annotation).startswith(('ClassVar', 'InitVar', 'typing.ClassVar')) for b in fields):
                continue
            def field_call(v):
                return isinstance(v, ast.Call) and ((isinstance(v.func, ast.Name) and v.func.id == 'field') or (isinstance(v.func, ast.Attribute) and v.func.attr == 'field'))

            def field_default(v):
                # `field(compare=False)` has no default; `field(default=c)` has the constant c; default_factory / init=False are not modelled
                if not field_call(v):
                    return v
                kw = {k.arg: k.value for k in v.keywords}
                if v.args or 'default_factory' in kw or (isinstance(kw.get('init'), ast.Constant) and kw['init'].value is False):
                    return False
                return kw.get('default')
            defaults_ = {b.target.id: (field_default(b.value) if b.value is not None else None) for b in fields}
            if any(d is False or (d is not None and not isinstance(d, ast.Constant)) for d in defaults_.values()):
                continue       # field(default_factory=...) and the like
            for b in fields:
                b.value = defaults_[b.target.id]
            args = ast.arguments(posonlyargs=[], args=[ast.arg(arg='self')] + [ast.arg(arg=b.target.id) for b in fields], vararg=None, kwonlyargs=[], kw_defaults=[], kwarg=None,
                                 defaults=[b.value for b in fields if b.value is not None])
            seen_default = False
            ok = True
            for b in fields:
                if b.value is not None:
                    seen_default = True
                elif seen_default:
                    ok = False
            if not ok:
                continue
            body = [ast.Assign(targets=[ast.Attribute(value=ast.Name(id='self', ctx=ast.Load()), attr=b.target.id, ctx=ast.Store())], value=ast.Name(id=b.target.id, ctx=ast.Load()))
                    for b in fields]
            post = [b for b in c.body if isinstance(b, ast.FunctionDef) and b.name == '__post_init__']
            if post:
                if len(post[0].args.args) != 1:
                    continue
                body += [x for x in post[0].body if not (isinstance(x, ast.Expr) and isinstance(x.value, ast.Constant))]
            init = ast.FunctionDef(name='__init__', args=args, body=body, decorator_list=[], returns=None, type_comment=None)
            try:
                init.type_params = []
            except Exception:      # noqa: BLE001
                pass
            at = post[0] if post else fields[0]
            ast.copy_location(init, at)
            for x in ast.walk(init):
                if not hasattr(x, 'lineno'):
                    ast.copy_location(x, at)
            c.body = [b for b in c.body if b not in fields and b not in post] + [init]
            c.decorator_list = [x for x in c.decorator_list if x is not d]
        ast.fix_missing_locations(t)


def _getattr_spellings(trees):
    """`try: return x.a` / `except AttributeError: return d` is `return getattr(x, 'a', d)` (in place) -- when x itself is read without a call"""
    def simple(e):
        return isinstance(e, ast.Name) or (isinstance(e, ast.Attribute) and simple(e.value))
    for t in trees:
        for parent in ast.walk(t):
            for fld in ('body', 'orelse', 'finalbody'):
                sub = getattr(parent, fld, None)
                if not (isinstance(sub, list) and sub and isinstance(sub[0], ast.stmt)):
                    continue
                for k, st in enumerate(sub):
                    if isinstance(st, ast.Try) and not st.orelse and not st.finalbody and len(st.handlers) == 1 and len(st.body) == 1 and len(st.handlers[0].body) == 1 \
                            and st.handlers[0].type is not None and ast.unparse(st.handlers[0].type) == 'AttributeError' and st.handlers[0].name is None \
                            and isinstance(st.body[0], ast.Return) and isinstance(st.body[0].value, ast.Attribute) and simple(st.body[0].value.value) \
                            and isinstance(st.handlers[0].body[0], ast.Return) and isinstance(st.handlers[0].body[0].value, ast.Constant):
                        a = st.body[0].value
                        # x.y.a: an AttributeError of the inner read x.y would be caught too; getattr(x.y, 'a', d) lets it through -- only a
                        # receiver that is a plain name, or a field of self / of a parameter, is rewritten (those reads cannot fail here or fail alike)
                        call = ast.Call(func=ast.Name(id='getattr', ctx=ast.Load()), args=[a.value, ast.Constant(a.attr), st.handlers[0].body[0].value], keywords=[])
                        r = ast.Return(value=call)
                        ast.copy_location(r, st)
                        for x in ast.walk(r):
                            if not hasattr(x, 'lineno'):
                                ast.copy_location(x, st)
                        sub[k] = ast.fix_missing_locations(r)


def _flatten_private_bases(trees):
    """A private base class with exactly one subclass in the package, defined in the same module and referenced nowhere else
    (`class _PausableEventQueue: ...` / `class Environment(_PausableEventQueue)`), is an implementation detail of that subclass: its methods,
    properties and class attributes that the subclass does not redefine -- and that do not use super() -- are read as members of the subclass,
    which is where every rule about the subclass looks for them.  What the subclass overrides stays in the base (super() still finds it)."""
    all_classes = [(t, c) for t in trees for c in t.body if isinstance(c, ast.ClassDef)]
    for t, b in all_classes:
        if not b.name.startswith('_') or b.name.startswith('__') or b.decorator_list or b.keywords:
            continue
        if any(ast.unparse(x) not in ('object',) for x in b.bases):
            continue
        subs = [(t2, c) for t2, c in all_classes if any(isinstance(x, ast.Name) and x.id == b.name for x in c.bases)]
        if len(subs) != 1 or subs[0][0] is not t:
            continue
        c = subs[0][1]
        if len(c.bases) != 1 or c.keywords:
            continue
        refs = sum(1 for t2 in trees for x in ast.walk(t2) if (isinstance(x, ast.Name) and x.id == b.name) or (isinstance(x, ast.Attribute) and x.attr == b.name)
                   or (isinstance(x, ast.alias) and x.name.split('.')[-1] == b.name))
        if refs != 1:
            continue
        own = {m.name for m in c.body if isinstance(m, (ast.FunctionDef, ast.ClassDef))} | \
              {tg.id for m in c.body if isinstance(m, ast.Assign) for tg in m.targets if isinstance(tg, ast.Name)} | \
              {m.target.id for m in c.body if isinstance(m, ast.AnnAssign) and isinstance(m.target, ast.Name)}
        moved, kept = [], []
        for m in b.body:
            nm = m.name if isinstance(m, ast.FunctionDef) else (m.targets[0].id if isinstance(m, ast.Assign) and len(m.targets) == 1 and isinstance(m.targets[0], ast.Name) else None)
            uses_super = isinstance(m, ast.FunctionDef) and any(isinstance(x, ast.Name) and x.id == 'super' for x in ast.walk(m))
            if nm is not None and nm not in own and not uses_super and not (isinstance(m, ast.FunctionDef) and nm.startswith('__') and nm != '__init__'):
                moved.append(m)
            else:
                kept.append(m)
        if not moved:
            continue
        b.body = kept or [ast.copy_location(ast.Pass(), b)]
        c.body = c.body + moved


def _inline_class_constants(trees):
    """`_UNKNOWN = (0.0, 0.0)` in a class body -- an immutable literal, the name bound nowhere else in the package and never stored through an
    attribute -- is that literal wherever it is read as `self._UNKNOWN`, `cls._UNKNOWN`, `type(self)._UNKNOWN` or `<Class>._UNKNOWN`"""
    import copy

    def literal(e):
        if isinstance(e, ast.Constant) and not isinstance(e.value, (str, bytes)) and e.value is not None and not isinstance(e.value, bool):
            return True
        if isinstance(e, ast.UnaryOp) and isinstance(e.op, (ast.USub, ast.UAdd)) and literal(e.operand):
            return True
        if isinstance(e, ast.Call) and isinstance(e.func, ast.Name) and e.func.id == 'float' and len(e.args) == 1 and not e.keywords \
                and isinstance(e.args[0], ast.Constant) and isinstance(e.args[0].value, str):
            return True
        if isinstance(e, ast.Tuple) and e.elts and all(literal(x) for x in e.elts):
            return True
        return False
    cands = {}
    bound = {}
    for t in trees:
        for x in ast.walk(t):
            if isinstance(x, ast.Attribute) and isinstance(x.ctx, (ast.Store, ast.Del)):
                bound[x.attr] = bound.get(x.attr, 0) + 2
            elif isinstance(x, (ast.FunctionDef, ast.ClassDef)):
                bound[x.name] = bound.get(x.name, 0) + 2
            elif isinstance(x, ast.ClassDef):
                pass
        for c in [x for x in ast.walk(t) if isinstance(x, ast.ClassDef)]:
            for b in c.body:
                if isinstance(b, ast.Assign):
                    for tg in b.targets:
                        if isinstance(tg, ast.Name):
                            bound[tg.id] = bound.get(tg.id, 0) + 1
                            if len(b.targets) == 1 and literal(b.value) and tg.id.startswith('_') and not tg.id.startswith('__'):
                                cands[tg.id] = (c.name, b.value)
                elif isinstance(b, ast.AnnAssign) and isinstance(b.target, ast.Name):
                    bound[b.target.id] = bound.get(b.target.id, 0) + 2
    consts = {k: v for k, v in cands.items() if bound.get(k) == 1}
    if not consts:
        return

    class T(ast.NodeTransformer):
        def visit_Attribute(self, n):
            self.generic_visit(n)
            if isinstance(n.ctx, ast.Load) and n.attr in consts and ast.unparse(n.value) in ('self', 'cls', 'type(self)', 'self.__class__', consts[n.attr][0]):
                v = copy.deepcopy(consts[n.attr][1])
                for x in ast.walk(v):
                    ast.copy_location(x, n)
                return v
            return n
    for t in trees:
        T().visit(t)
        ast.fix_missing_locations(t)


def _inline_module_constants(trees):
    """`_NOT_WAITING = float('inf')` at module level (bound once, never re-bound, never shadowed in the function at hand) is that value wherever
    the module reads the name: a named constant and the literal it stands for are the same program"""
    import copy

    def literal(e):
        if isinstance(e, ast.Constant) and not isinstance(e.value, (str, bytes)):
            return True
        if isinstance(e, ast.UnaryOp) and isinstance(e.op, (ast.USub, ast.UAdd)) and literal(e.operand):
            return True
        if isinstance(e, ast.Call) and isinstance(e.func, ast.Name) and e.func.id == 'float' and len(e.args) == 1 and not e.keywords \
                and isinstance(e.args[0], ast.Constant) and isinstance(e.args[0].value, str):
            return True
        if isinstance(e, ast.Tuple) and all(literal(x) for x in e.elts):
            return True
        return False
    for t in trees:
        consts = {}
        counts = {}
        for x in ast.walk(t):
            if isinstance(x, ast.Name) and isinstance(x.ctx, (ast.Store, ast.Del)):
                counts[x.id] = counts.get(x.id, 0) + 1
            elif isinstance(x, (ast.Global, ast.Nonlocal)):
                for nm in x.names:
                    counts[nm] = counts.get(nm, 0) + 2
            elif isinstance(x, ast.arg):
                counts[x.arg] = counts.get(x.arg, 0) + 2
            elif isinstance(x, ast.alias):
                nm = (x.asname or x.name).split('.')[0]
                counts[nm] = counts.get(nm, 0) + 2
        for st in t.body:
            if isinstance(st, ast.Assign) and len(st.targets) == 1 and isinstance(st.targets[0], ast.Name) and literal(st.value) \
                    and counts.get(st.targets[0].id) == 1:
                consts[st.targets[0].id] = st.value
        if not consts:
            continue

        class T(ast.NodeTransformer):
            def visit_Name(self, n):
                if isinstance(n.ctx, ast.Load) and n.id in consts:
                    v = copy.deepcopy(consts[n.id])
                    for x in ast.walk(v):
                        ast.copy_location(x, n)
                    return v
                return n
        for st in t.body:
            if isinstance(st, (ast.FunctionDef, ast.ClassDef)):
                T().visit(st)
        ast.fix_missing_locations(t)


class Program:
    def __init__(self, root='/repo', pkg='simprocesd', exclude=('tests',)):
        self.root = pathlib.Path(root)
        self.pkg = pkg
        self.mods = {}
        base = self.root / pkg
        if not base.is_dir():
            raise AnalysisError(f'package directory {base} not found')
        for p in sorted(base.rglob('*.py')):
            rel = p.relative_to(self.root)
            if any(part in exclude for part in rel.parts):
                continue
            parts = list(rel.with_suffix('').parts)
            is_pkg = parts[-1] == '__init__'
            if is_pkg:
                parts = parts[:-1]
            name = '.'.join(parts)
            src = p.read_text()
            try:
                tree = ast.parse(src, str(p))
            except SyntaxError as e:
                raise AnalysisError(f'{rel}: does not parse: {e}')
            self.mods[name] = (name, p, tree, is_pkg, src)
        _strip_diagnostics([t[2] for t in self.mods.values()])
        _specialise_new_optional_parameters([t[2] for t in self.mods.values()])
        _plain_assignments([t[2] for t in self.mods.values()])
        _unused_enumerate_counters([t[2] for t in self.mods.values()])
        _positional_arguments([t[2] for t in self.mods.values()])
        _explicit_dataclass_init([t[2] for t in self.mods.values()])
        _getattr_spellings([t[2] for t in self.mods.values()])
        _normalise_deques([t[2] for t in self.mods.values()])
        _flatten_private_bases([t[2] for t in self.mods.values()])
        _dissolve_list_subclasses([t[2] for t in self.mods.values()])
        _dissolve_holder_objects([t[2] for t in self.mods.values()])
        from .cfg import index_filter_scan_to_snapshot_loop
        for t_ in self.mods.values():
            for fn_ in [x for x in ast.walk(t_[2]) if isinstance(x, ast.FunctionDef)]:
                fn_.body = list(index_filter_scan_to_snapshot_loop(fn_, fn_.body))
        _canonical_private_fields([t[2] for t in self.mods.values()])
        _inline_module_constants([t[2] for t in self.mods.values()])
        _inline_class_constants([t[2] for t in self.mods.values()])
        _normalise_namedtuples([t[2] for t in self.mods.values()])
        self.mods = {k: Mod(*t) for k, t in self.mods.items()}
        for m in self.mods.values():
            self._bind(m)
        self.classes = {}
        for m in self.mods.values():
            for c in m.classes.values():
                self.classes[c.qual] = c
        for c in self.classes.values():
            c.bases = [self.resolve_expr_to_class(c.mod, b) for b in c.node.bases]
        for c in self.classes.values():
            self._mro(c)
        self.by_name = {}
        for c in self.classes.values():
            self.by_name.setdefault(c.name, []).append(c)
        # `name = OtherClass.method` in a class body binds the very same function under that name: it is a method of this class
        for c in self.classes.values():
            for nm, v in list(c.class_attrs.items()):
                if isinstance(v, ast.Attribute) and isinstance(v.value, ast.Name) and len(self.by_name.get(v.value.id, [])) == 1:
                    k = self.by_name[v.value.id][0]
                    if v.attr in k.methods and v.attr not in k.static:
                        c.methods[nm] = k.methods[v.attr]
                        c.method_aliases = getattr(c, 'method_aliases', set()) | {nm}
                        del c.class_attrs[nm]

    def rel(self, path):
        try:
            return str(pathlib.Path(path).relative_to(self.root))
        except ValueError:
            return str(path)

    # -- name binding -----------------------------------------------------
    def _abs(self, mod, level, module):
        if level == 0:
            return module
        parts = mod.name.split('.')
        if not mod.is_pkg:
            parts = parts[:-1]
        if level > 1:
            parts = parts[:-(level - 1)]
        if module:
            parts = parts + module.split('.')
        return '.'.join(parts)

    def _bind(self, m):
        for st in ast.walk(m.tree):
            if isinstance(st, ast.ImportFrom):
                target = self._abs(m, st.level, st.module)
                for a in st.names:
                    m.bindings[a.asname or a.name] = ('import', target, a.name)
            elif isinstance(st, ast.Import):
                for a in st.names:
                    m.bindings[(a.asname or a.name).split('.')[0]] = ('module', a.name, None)
        for st in m.tree.body:
            if isinstance(st, ast.ClassDef):
                c = Cls(m, st)
                m.classes[st.name] = c
                m.bindings[st.name] = ('class', c)
            elif isinstance(st, ast.FunctionDef):
                m.functions[st.name] = st
                m.bindings[st.name] = ('func', st)

    def resolve_name(self, mod, name, seen=None):
        """module-level name -> ('class', Cls) | ('func', node) | ('module', name) | ('external', dotted) | None"""
        seen = seen or set()
        if (mod.name, name) in seen:
            return None
        seen.add((mod.name, name))
        b = mod.bindings.get(name)
        if b is None:
            return None
        if b[0] in ('class', 'func'):
            return b
        if b[0] == 'module':
            return ('module', b[1])
        _, target, attr = b
        if target in self.mods:
            r = self.resolve_name(self.mods[target], attr, seen)
            if r:
                return r
            sub = f'{target}.{attr}'
            if sub in self.mods:
                return ('module', sub)
            return None
        return ('external', f'{target}.{attr}')

    def resolve_expr_to_class(self, mod, expr):
        if isinstance(expr, ast.Name):
            r = self.resolve_name(mod, expr.id)
            return r[1] if r and r[0] == 'class' else None
        return None

    # -- MRO ---------------------------------------------------------------
    def _mro(self, c):
        if c.mro is not None:
            return c.mro
        seqs = []
        for b in c.bases:
            if b is None:
                continue
            seqs.append(list(self._mro(b)))
        seqs.append([b for b in c.bases if b is not None])
        res = [c]
        while True:
            seqs = [s for s in seqs if s]
            if not seqs:
                break
            for s in seqs:
                cand = s[0]
                if not any(cand in t[1:] for t in seqs):
                    break
            else:
                raise AnalysisError('inconsistent MRO for ' + c.name)
            res.append(cand)
            for s in seqs:
                if s[0] is cand:
                    del s[0]
        c.mro = res
        return res

    # -- lookup ------------------------------------------------------------
    def cls(self, name):
        cs = self.by_name.get(name, [])
        if len(cs) != 1:
            raise AnalysisError(f'anchor class {name!r} not found exactly once in the package (found {len(cs)})')
        return cs[0]

    def has_cls(self, name):
        return len(self.by_name.get(name, [])) == 1

    def lookup(self, cls, name, after=None):
        """(defining class, kind, node) for attribute `name` on instances of `cls`;
        `after`: start after that class in the MRO (super())."""
        mro = cls.mro
        if after is not None:
            mro = mro[mro.index(after) + 1:]
        for k in mro:
            if name in k.methods:
                return k, 'method', k.methods[name]
            if name in k.props:
                return k, 'prop', k.props[name]
            if name in k.class_attrs:
                return k, 'classattr', k.class_attrs[name]
        return None

    def method(self, cls, name):
        """(defining class, FunctionDef) of a plain method, AnalysisError if the anchor vanished"""
        if isinstance(cls, str):
            cls = self.cls(cls)
        hit = self.lookup(cls, name)
        if not hit or hit[1] != 'method':
            raise AnalysisError(f'anchor method {cls.name}.{name} not found')
        return hit[0], hit[2]

    def has_method(self, cls, name):
        if isinstance(cls, str):
            if not self.has_cls(cls):
                return False
            cls = self.cls(cls)
        hit = self.lookup(cls, name)
        return bool(hit and hit[1] == 'method')

    def lookup_prop(self, cls, name, which):
        """property accessor honouring partial overrides such as @Base.prop.getter."""
        for k in cls.mro:
            if name in k.props and which in k.props[name]:
                return k, k.props[name][which]
            if name in k.props:
                continue
            if name in k.methods or name in k.class_attrs:
                return None
        return None

    def subclasses(self, base):
        return [c for c in self.classes.values() if base in c.mro]

    def where(self, mod_or_cls, node):
        m = mod_or_cls.mod if isinstance(mod_or_cls, Cls) else mod_or_cls
        return f'{self.rel(m.path)}:{getattr(node, "lineno", "?")}'

    def enclosing_function(self, node):
        """innermost FunctionDef of the package that contains `node` (None for synthetic nodes)"""
        m = getattr(self, '_encl', None)
        if m is None:
            m = {}
            for mod in self.mods.values():
                fns = [n for n in ast.walk(mod.tree) if isinstance(n, ast.FunctionDef)]
                fns.sort(key=lambda f: (f.lineno, f.col_offset))      # outer functions first, inner ones override
                for f in fns:
                    for n in ast.walk(f):
                        m[id(n)] = f
            self._encl = m
        return m.get(id(node))

    def stats(self):
        nfun = sum(len(m.functions) for m in self.mods.values())
        nfun += sum(1 for c in self.classes.values() for _ in c.all_functions())
        return {'modules': len(self.mods), 'classes': len(self.classes), 'functions': nfun}
