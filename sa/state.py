"""L3 -- path-sensitive typestate exploration over a supergraph.

Abstract store: tracked `self` fields, frame locals and ghost variables over a small
domain: 'N' (None), 'S' (some non-None value), 'T', 'F', '?' (unknown), or any other
string used as a *token* (a named non-None value such as 'p0' / 'arg' / 'new').
Flags are sticky facts set by hooks.  Every (node, store) pair is visited once; the
predecessor pair is kept so that a finding can print the path that produced it.
"""
import ast

from .cfg import is_self_attr, calls_at, call_attr

TOP = '?'
NONE, SOME, TRUE, FALSE = 'N', 'S', 'T', 'F'


def is_token(v):
    return v not in (NONE, SOME, TRUE, FALSE, TOP)


def not_none(v):
    return v in (SOME, TRUE, FALSE) or is_token(v)


class State:
    __slots__ = ('fields', 'locals', 'flags')

    def __init__(self, fields, locals_=(), flags=()):
        self.fields = dict(fields)
        self.locals = dict(locals_)
        self.flags = frozenset(flags)

    def key(self):
        return (tuple(sorted(self.fields.items())), tuple(sorted(self.locals.items())), self.flags)

    def copy(self):
        return State(self.fields, self.locals, self.flags)

    def with_field(self, k, v):
        s = self.copy()
        s.fields[k] = v
        return s

    def with_flag(self, *fl):
        s = self.copy()
        s.flags = s.flags | frozenset(fl)
        return s

    def without_flag(self, *fl):
        s = self.copy()
        s.flags = s.flags - frozenset(fl)
        return s

    def show(self):
        f = ' '.join(f'{k}={v}' for k, v in sorted(self.fields.items()))
        fl = (' | ' + ','.join(sorted(self.flags))) if self.flags else ''
        return f'<{f}{fl}>'

    __repr__ = show


class Result:
    def __init__(self, g, seen):
        self.g, self.seen = g, seen

    def at(self, nid):
        return [v[0] for v in self.seen.get(nid, {}).values()]

    def exits(self):
        return self.at(self.g.exit)

    def raise_exits(self):
        return self.at(self.g.raise_exit)

    def visited(self, nid):
        return nid in self.seen

    def path(self, nid, st):
        """list of Node along the explored path that produced `st` at `nid`"""
        out = []
        cur = (nid, st.key())
        while cur is not None:
            out.append(self.g.nodes[cur[0]])
            cur = self.seen[cur[0]][cur[1]][1]
        return list(reversed(out))

    def path_lines(self, nid, st, limit=40):
        out = []
        for n in self.path(nid, st):
            if n.kind in ('join', 'call_exit', 'entry', 'exit'):
                continue
            loc = f'{n.frame.defcls.mod.path.name}:{n.line}' if n.frame is not None and n.line else ''
            s = f'{loc} [{n.frame.qual}] {n.kind}: {n.src()}'
            if not out or out[-1] != s:
                out.append(s)
        if len(out) > limit:
            out = out[:limit // 2] + ['...'] + out[-limit // 2:]
        return out

    def n_states(self):
        return sum(len(v) for v in self.seen.values())


class Analysis:
    BOOL_FIELDS = {'_is_shut_down', '_block_input', '_waiting_for_downstream_space', '_waiting_for_resources',
                   '_simulation_is_initialized', '_terminated', '_trace', 'cancelled', 'executed',
                   '_is_cyclical', '_collect_parts', '_recursion_prevention'}

    def __init__(self, P, g, tracked, call_models=None):
        """tracked: iterable of self field names (ghosts start with '#').
        call_models: dict callee-name -> abstract result for opaque calls (value or callable(call, st, frame))"""
        self.P, self.g, self.tracked = P, g, set(tracked)
        self.call_models = dict(call_models or {})
        self.node_hooks = []     # f(an, node, before, after) -> State | [State]
        self.edge_hooks = []     # f(an, node, label, st) -> State
        self.refine_hooks = []   # f(an, test, truth, st, frame) -> NotImplemented | State | None
        self.expr_hooks = []     # f(an, expr, st, frame) -> NotImplemented | abstract value

    # ---- expression evaluation ------------------------------------------
    def _trivial_getter(self, frame, attr):
        if frame.concrete is None or frame.kind == 'static':
            return None
        hit = self.P.lookup(frame.concrete, attr)
        if not hit or hit[1] != 'prop':
            return None
        g = self.P.lookup_prop(frame.concrete, attr, 'get')
        if not g:
            return None
        body = [s for s in g[1].body if not (isinstance(s, ast.Expr) and isinstance(s.value, ast.Constant))]
        if len(body) == 1 and isinstance(body[0], ast.Return) and body[0].value is not None:
            return body[0].value
        return None

    def canon_loc(self, e, frame):
        """resolve `self.prop` with a trivial getter to the underlying expression"""
        for _ in range(4):
            if is_self_attr(e) and e.attr not in self.tracked:
                r = self._trivial_getter(frame, e.attr)
                if r is None:
                    break
                e = r
            else:
                break
        return e

    def ev(self, e, st, frame):
        for h in self.expr_hooks:
            r = h(self, e, st, frame)
            if r is not NotImplemented:
                return r
        if isinstance(e, ast.Constant):
            if e.value is None:
                return NONE
            if e.value is True:
                return TRUE
            if e.value is False:
                return FALSE
            return SOME
        if isinstance(e, ast.Name):
            k = (frame.id, e.id)
            if k in st.locals:
                return st.locals[k]
            c = frame.const_of(e)
            if c:
                return self.ev(ast.Constant(c[1]), st, frame)
            return TOP
        if is_self_attr(e):
            if e.attr in self.tracked:
                return st.fields.get(e.attr, TOP)
            r = self._trivial_getter(frame, e.attr)
            if r is not None:
                return self.ev(r, st, frame)
            return TOP
        if isinstance(e, ast.IfExp):
            a, b = self.ev(e.body, st, frame), self.ev(e.orelse, st, frame)
            return a if a == b else TOP
        if isinstance(e, ast.UnaryOp) and isinstance(e.op, ast.Not):
            v = self.ev(e.operand, st, frame)
            return {TRUE: FALSE, FALSE: TRUE, NONE: TRUE}.get(v, TOP)
        if isinstance(e, ast.Compare) and len(e.ops) == 1:
            l, r, op = e.left, e.comparators[0], e.ops[0]
            if isinstance(r, ast.Constant) and r.value is None and isinstance(op, (ast.Eq, ast.NotEq, ast.Is, ast.IsNot)):
                v = self.ev(l, st, frame)
                isn = isinstance(op, (ast.Eq, ast.Is))
                if v == NONE:
                    return TRUE if isn else FALSE
                if not_none(v):
                    return FALSE if isn else TRUE
            return TOP
        if isinstance(e, ast.Call):
            key = (frame.id, id(e))
            if key in self.g.inlined:
                callee = self.g.call_frames.get(key)
                if callee is not None:
                    return st.locals.get((callee.id, '#ret'), TOP)
                return TOP
            name = call_attr(e)
            if name in self.call_models:
                m = self.call_models[name]
                return m(e, st, frame) if callable(m) else m
            f = e.func
            r = None
            if isinstance(f, ast.Name) and frame.defcls is not None:
                r = self.P.resolve_name(frame.defcls.mod, f.id)
            if r and r[0] == 'class':
                return SOME
            return TOP
        if isinstance(e, (ast.List, ast.Dict, ast.Tuple, ast.Set, ast.JoinedStr, ast.ListComp, ast.DictComp,
                          ast.SetComp, ast.Lambda)):
            return SOME
        return TOP

    # ---- refinement on a cond edge ----------------------------------------
    def refine(self, test, truth, st, frame):
        """refined state or None if the edge is infeasible"""
        # `0 < len(x)`, `None == y`: constant on the left -> mirrored comparison with the constant on the right, so that every
        # hook sees one spelling
        if isinstance(test, ast.Compare) and len(test.ops) == 1 and isinstance(test.left, ast.Constant) and not isinstance(test.comparators[0], ast.Constant):
            mirror = {ast.Lt: ast.Gt, ast.Gt: ast.Lt, ast.LtE: ast.GtE, ast.GtE: ast.LtE, ast.Eq: ast.Eq, ast.NotEq: ast.NotEq, ast.Is: ast.Is, ast.IsNot: ast.IsNot}
            m = mirror.get(type(test.ops[0]))
            if m is not None:
                test = ast.copy_location(ast.Compare(left=test.comparators[0], ops=[m()], comparators=[test.left]), test)
        # a private predicate property (`self._holds_resources` with the getter `return self._reserved_resources != None`) is the condition
        # its getter returns
        if is_self_attr(test) and test.attr not in self.tracked:
            r_ = self._trivial_getter(frame, test.attr)
            if r_ is not None and isinstance(r_, (ast.Compare, ast.BoolOp, ast.UnaryOp, ast.Call)):
                return self.refine_cond(r_, truth, st, frame) if hasattr(self, 'refine_cond') else self.refine(r_, truth, st, frame)
        for h in self.refine_hooks:
            r = h(self, test, truth, st, frame)
            if r is not NotImplemented:
                return r
        loc = None
        want = None
        if isinstance(test, ast.Compare) and len(test.ops) == 1:
            l, r, op = test.left, test.comparators[0], test.ops[0]
            if isinstance(l, ast.Constant) and not isinstance(r, ast.Constant):
                l, r = r, l           # None == x  ->  x == None
            if isinstance(r, ast.Constant) and r.value is None and isinstance(op, (ast.Eq, ast.NotEq, ast.Is, ast.IsNot)):
                loc = l
                is_none = isinstance(op, (ast.Eq, ast.Is))
                want = NONE if (is_none == truth) else SOME
            elif isinstance(r, ast.Constant) and isinstance(r.value, bool) and isinstance(op, (ast.Eq, ast.NotEq, ast.Is, ast.IsNot)):
                loc = l
                eq = isinstance(op, (ast.Eq, ast.Is))
                val = r.value if eq else (not r.value)
                want = (TRUE if val else FALSE) if truth else (FALSE if val else TRUE)
            else:
                a, b = self.ev(l, st, frame), self.ev(r, st, frame)
                if isinstance(op, (ast.Eq, ast.NotEq)) and a in (TRUE, FALSE) and b in (TRUE, FALSE):
                    same = (a == b) == isinstance(op, ast.Eq)
                    return st if same == truth else None
                if isinstance(op, (ast.Eq, ast.NotEq)) and {a, b} <= {TRUE, FALSE, TOP} and (a in (TRUE, FALSE)) != (b in (TRUE, FALSE)):
                    # one side known boolean, other unknown: learn the unknown side
                    known, unk_e = (a, r) if a in (TRUE, FALSE) else (b, l)
                    eq = isinstance(op, ast.Eq) == truth
                    val = known if eq else (FALSE if known == TRUE else TRUE)
                    return self._store_loc(unk_e, val, st, frame)
                return st
        else:
            loc = test
            want = 'truthy' if truth else 'falsy'
        if loc is None:
            return st
        loc = self.canon_loc(loc, frame)
        cur = self.ev(loc, st, frame)
        if want in (NONE, SOME):
            if cur == NONE and want == SOME:
                return None
            if not_none(cur) and want == NONE:
                return None
            new = want if cur == TOP else cur
        elif want in (TRUE, FALSE):
            if cur in (TRUE, FALSE) and cur != want:
                return None
            if cur == NONE and want == TRUE:
                return None
            new = want if cur == TOP else cur
        elif want == 'truthy':
            if cur in (NONE, FALSE):
                return None
            new = SOME if cur == TOP else cur
            if cur == TOP and (self._is_boolish(loc) or isinstance(loc, ast.Name)):
                new = TRUE
        else:   # falsy
            if cur == TRUE or is_token(cur):
                return None
            new = cur
            if cur == TOP and (self._is_boolish(loc) or isinstance(loc, ast.Name)):
                new = FALSE
            # 'S' may still be falsy (0, empty container): keep
        return self._store_loc(loc, new, st, frame)

    def _store_loc(self, loc, new, st, frame):
        loc = self.canon_loc(loc, frame)
        if isinstance(loc, ast.Name):
            old = st.locals.get((frame.id, loc.id))
            # a local that is a copy of a tracked field (`reservation = self._reserved_resources`) and still agrees with it: what is
            # learnt about the local by a test is learnt about the field too
            alias = None
            if loc.id in self._alias_defs(frame):
                d = self._alias_defs(frame)[loc.id]
                if is_self_attr(d) and d.attr in self.tracked and st.fields.get(d.attr) == old:
                    alias = d.attr
            if old == new:
                return st
            st = st.copy()
            st.locals[(frame.id, loc.id)] = new
            if alias is not None:
                st.fields[alias] = new
        elif is_self_attr(loc) and loc.attr in self.tracked:
            if st.fields.get(loc.attr) == new:
                return st
            st = st.copy()
            st.fields[loc.attr] = new
        return st

    def _alias_defs(self, frame):
        c = getattr(self, '_alias_cache', None)
        if c is None:
            c = self._alias_cache = {}
        if frame.id not in c:
            from .norm import single_defs
            c[frame.id] = {k: v for k, v in single_defs(frame.func).items() if is_self_attr(v)} if frame.func is not None else {}
        return c[frame.id]

    def _is_boolish(self, loc):
        return is_self_attr(loc) and loc.attr in self.BOOL_FIELDS

    # ---- transfer ----------------------------------------------------------
    def transfer(self, n, st):
        a = n.ast
        fr = n.frame
        new = st
        if n.kind == 'call_enter' and fr.parent is not None:
            new = st.copy()
            for p, (expr, efr) in fr.argmap.items():
                new.locals[(fr.id, p)] = self.ev(expr, st, fr if efr is None else efr)
            new.locals.pop((fr.id, '#ret'), None)
        elif n.kind == 'return' and fr.parent is not None:
            new = st.copy()
            new.locals[(fr.id, '#ret')] = self.ev(a.value, st, fr) if a.value is not None else NONE
        elif n.kind == 'call_exit' and fr.parent is not None:
            if (fr.id, '#ret') not in st.locals:
                new = st.copy()
                new.locals[(fr.id, '#ret')] = NONE
        elif n.kind == 'stmt' and isinstance(a, ast.Assign) and len(a.targets) == 1:
            t = a.targets[0]
            if isinstance(t, ast.Name):
                new = st.copy()
                new.locals[(fr.id, t.id)] = self.ev(a.value, st, fr)
            elif is_self_attr(t) and t.attr in self.tracked:
                new = st.copy()
                new.fields[t.attr] = self.ev(a.value, st, fr)
            elif isinstance(t, ast.Tuple):
                new = st.copy()
                for i, el in enumerate(t.elts):
                    # `a, b = pair`: a is pair[0], b is pair[1] (so that hooks that know `self._buffer[0][1]` see through the unpacking)
                    v = self.ev(ast.copy_location(ast.Subscript(value=a.value, slice=ast.Constant(i), ctx=ast.Load()), a.value), st, fr) \
                        if not isinstance(a.value, (ast.Tuple, ast.List)) and not any(isinstance(x, ast.Starred) for x in t.elts) else TOP
                    if isinstance(el, ast.Name):
                        new.locals[(fr.id, el.id)] = v
                    elif is_self_attr(el) and el.attr in self.tracked:
                        new.fields[el.attr] = v
        elif n.kind == 'stmt' and isinstance(a, ast.Assign):
            new = st.copy()
            v = self.ev(a.value, st, fr)
            for t in a.targets:
                if isinstance(t, ast.Name):
                    new.locals[(fr.id, t.id)] = v
                elif is_self_attr(t) and t.attr in self.tracked:
                    new.fields[t.attr] = v
        elif n.kind == 'stmt' and isinstance(a, ast.AugAssign):
            t = a.target
            if isinstance(t, ast.Name):
                new = st.copy()
                new.locals[(fr.id, t.id)] = SOME if st.locals.get((fr.id, t.id)) not in (None, TOP) else TOP
            elif is_self_attr(t) and t.attr in self.tracked and not t.attr.startswith('#'):
                cur = st.fields.get(t.attr, TOP)
                if cur not in (SOME, TOP):
                    new = st.copy()
                    new.fields[t.attr] = SOME if not_none(cur) else TOP
        elif n.kind == 'for':
            new = st.copy()
            tg = a.target
            for el in (tg.elts if isinstance(tg, ast.Tuple) else [tg]):
                if isinstance(el, ast.Name):
                    new.locals[(fr.id, el.id)] = SOME if not isinstance(tg, ast.Tuple) else TOP
        return new

    def _bool_def(self, n, st):
        """`flag = <boolean expression>` (comparison / and / or / not): the definition is a case split -- the local is True on the states in
        which the expression can be true (refined by it, ghosts included) and False on those in which it can be false -- so that a later
        `if flag:` is decided exactly like `if <expression>:` would have been at the point of definition"""
        a = n.ast
        if n.kind != 'stmt' or not isinstance(a, ast.Assign) or len(a.targets) != 1 or not isinstance(a.targets[0], ast.Name):
            return None
        v = a.value
        if not (isinstance(v, (ast.Compare, ast.BoolOp)) or (isinstance(v, ast.UnaryOp) and isinstance(v.op, ast.Not))):
            return None
        outs = []
        for truth, val in ((True, TRUE), (False, FALSE)):
            for s2 in self._refine_formula(v, truth, st, n.frame):
                s2 = s2.copy()
                s2.locals[(n.frame.id, a.targets[0].id)] = val
                outs.append(s2)
        return outs or None

    def _refine_formula(self, t, truth, st, frame):
        """states refined by `t` having the given truth value; and / or / not are decomposed like the builder decomposes conditions"""
        if isinstance(t, ast.UnaryOp) and isinstance(t.op, ast.Not):
            return self._refine_formula(t.operand, not truth, st, frame)
        if isinstance(t, ast.BoolOp):
            conj = isinstance(t.op, ast.And) == truth       # all operands have the value `truth`
            if conj:
                cur = [st]
                for v in t.values:
                    cur = [s3 for s2 in cur for s3 in self._refine_formula(v, truth, s2, frame)]
                return cur
            out, prefix = [], [st]
            for v in t.values:                              # first operand with the value `truth`, the earlier ones having the opposite
                out += [s3 for s2 in prefix for s3 in self._refine_formula(v, truth, s2, frame)]
                prefix = [s3 for s2 in prefix for s3 in self._refine_formula(v, not truth, s2, frame)]
            return out
        r = self.refine(t, truth, st, frame)
        return [r] if r is not None else []

    def transfer_multi(self, n, st):
        split = self._bool_def(n, st)
        outs = split if split is not None else [self.transfer(n, st)]
        for h in self.node_hooks:
            nxt = []
            for o in outs:
                r = h(self, n, st, o)
                if r is None:
                    nxt.append(o)
                elif isinstance(r, list):
                    nxt.extend(r)
                else:
                    nxt.append(r)
            outs = nxt
        return outs

    def run(self, entry_states, follow_exc=False, limit=400000, start=None, stop=()):
        """start: node ids to start from (default: the entry); stop: node ids at which exploration ends -- the states arriving there
        are recorded (Result.at) but not expanded (used to analyse one iteration of a loop)"""
        g = self.g
        seen = {}
        stop = set(stop)
        work = [(n0, s, None) for s in entry_states for n0 in ([g.entry] if start is None else list(start))]
        count = 0
        while work:
            nid, st, parent = work.pop()
            k = st.key()
            d = seen.setdefault(nid, {})
            if k in d:
                continue
            d[k] = (st, parent)
            count += 1
            if count > limit:
                from . import AnalysisError
                raise AnalysisError(f'state explosion in {g.top.qual} (> {limit} states)')
            n = g.nodes[nid]
            me = (nid, k)
            if nid in stop and parent is not None:
                continue
            for out in self.transfer_multi(n, st):
                for (label, m) in g.succ[nid]:
                    if label == 'exc' and not follow_exc:
                        continue
                    # an exception raised while evaluating the statement: its effect did not happen
                    s2 = st if label == 'exc' else out
                    if n.kind == 'cond' and label in ('T', 'F'):
                        s2 = self.refine(n.ast, label == 'T', out, n.frame)
                        if s2 is None:
                            continue
                    for h in self.edge_hooks:
                        s2 = h(self, n, label, s2)
                        if s2 is None:
                            break
                    if s2 is None:
                        continue
                    work.append((m, s2, me))
        return Result(g, seen)


# ---------------------------------------------------------------------------
# reusable node predicates and hooks
# ---------------------------------------------------------------------------

def sched_calls(g, n):
    """opaque `<x>.schedule_event(...)` calls evaluated at node n"""
    return [c for c in calls_at(g, n) if call_attr(c) == 'schedule_event']


def bind_call(call, names):
    """positional/keyword arguments of an opaque call bound to the given parameter names"""
    out = {}
    for nm, a in zip(names, call.args):
        out[nm] = a
    for kw in call.keywords:
        if kw.arg:
            out[kw.arg] = kw.value
    return out


SCHED_PARAMS = ['time', 'asset_id', 'action', 'event_type', 'message']


def sched_event_type(call):
    """'PASS_PART' for EventType.PASS_PART, None if absent (default) or not a plain member"""
    b = bind_call(call, SCHED_PARAMS)
    e = b.get('event_type')
    if e is None:
        return 'OTHER_LOW_PRIORITY'
    if isinstance(e, ast.Attribute) and isinstance(e.value, ast.Name) and e.value.id == 'EventType':
        return e.attr
    return ast.unparse(e)


def sched_action_name(call):
    """method name of the scheduled action: self._m  or partial(self._m, ...)"""
    b = bind_call(call, SCHED_PARAMS)
    e = b.get('action')
    if e is None:
        return None
    if isinstance(e, ast.Call) and call_attr(e) == 'partial' and e.args:
        e = e.args[0]
    if is_self_attr(e):
        return e.attr
    return ast.unparse(e)


def schedules(g, n, event_type=None, action=None):
    for c in sched_calls(g, n):
        if event_type is not None and sched_event_type(c) != event_type:
            continue
        if action is not None and sched_action_name(c) != action:
            continue
        return True
    return False


def calls_named(g, n, name, recv=None):
    out = []
    for c in calls_at(g, n):
        if call_attr(c) == name:
            if recv is not None:
                f = c.func
                rt = ast.unparse(f.value) if isinstance(f, ast.Attribute) else ''
                if not recv(rt):
                    continue
            out.append(c)
    return out


def cancels_own_events(g, n):
    return bool(calls_named(g, n, 'cancel_matching_events'))


def bool_params(fn):
    """parameters used directly as a condition, negated, or compared with True/False/None"""
    from .norm import fn_memo
    return list(fn_memo(fn, 'bool_params', lambda: _bool_params(fn)))


def _bool_params(fn):
    names = {a.arg for a in fn.args.args} - {'self'}
    used = set()
    for n in ast.walk(fn):
        tests = []
        if isinstance(n, (ast.If, ast.While, ast.Assert, ast.IfExp)):
            tests.append(n.test)
        if isinstance(n, ast.BoolOp):
            tests += n.values
        if isinstance(n, ast.UnaryOp) and isinstance(n.op, ast.Not):
            tests.append(n.operand)
        for t in tests:
            if isinstance(t, ast.Name) and t.id in names:
                used.add(t.id)
        if isinstance(n, ast.Compare) and len(n.ops) == 1 and isinstance(n.left, ast.Name) and n.left.id in names:
            r = n.comparators[0]
            if isinstance(r, ast.Constant) and isinstance(r.value, bool):
                used.add(n.left.id)
    return sorted(used)


def none_params(fn):
    from .norm import fn_memo
    return list(fn_memo(fn, 'none_params', lambda: _none_params(fn)))


def _none_params(fn):
    names = {a.arg for a in fn.args.args} - {'self'}
    used = set()
    for n in ast.walk(fn):
        if isinstance(n, ast.Compare) and len(n.ops) == 1 and isinstance(n.left, ast.Name) and n.left.id in names:
            r = n.comparators[0]
            if isinstance(r, ast.Constant) and r.value is None:
                used.add(n.left.id)
    return sorted(used)
