"""Shared vocabulary for the production-line device rules (C02, C03, C05, C06, C08, C11, C13, C17).

Abstract device state: slot fields over {N, S/token}, flags over {T, F}, and ghost variables
for the device's own scheduled events over {F, T (live), P (paused)}:
  #pending  a PASS_PART hand-over attempt
  #timer    the FINISH_PROCESSING cycle timer
  #release  a RELEASE_RESERVED_RESOURCES check
pause_matching_events turns live ghosts into P, unpause_matching_events turns P into T,
cancel_matching_events clears them (all three act on every event of the asset -- C06.5 checks
that every device event carries the device's own id).
"""
import ast
import itertools

from . import AnalysisError
from .cfg import calls_at, call_attr, is_self_attr
from .state import Analysis, State, schedules, sched_calls, sched_event_type, sched_action_name, bool_params, none_params, TOP
from .entries import entry_points

GHOST_EVENT = {'#pending': 'PASS_PART', '#timer': 'FINISH_PROCESSING', '#release': 'RELEASE_RESERVED_RESOURCES'}
EVENT_GHOST = {v: k for k, v in GHOST_EVENT.items()}

SLOT_DEVICES = ['PartHandler', 'PartProcessor', 'Sink', 'Source', 'PartBatcher', 'Buffer']
SINGLE_SLOT = ['PartHandler', 'PartProcessor', 'Sink']
PASS_THROUGH = ['PartFlowController', 'DecisionGate', 'GroupInput', 'GroupOutput', 'GroupPath']

# Source.give_part is not an entry point: Source.set_upstream rejects every non-empty upstream, so no device
# can have a source downstream and nothing can offer it a part (the raise is itself checked by C02.5).
EXEMPT_ENTRIES = {('Source', 'give_part'): 'Source.set_upstream raises for every non-empty upstream: no device has a source downstream'}


def device_classes(P, names=None):
    out = []
    for n in (names or SLOT_DEVICES + PASS_THROUGH):
        if P.has_cls(n):
            out.append(P.cls(n))
    if not out:
        raise AnalysisError('no device class found')
    return out


def is_processor(P, c):
    return P.has_cls('PartProcessor') and P.cls('PartProcessor') in c.mro


def action_event_types(P):
    """method name -> set of EventType member names it is scheduled with, from every schedule_event site"""
    if hasattr(P, '_action_types'):
        return P._action_types
    out = {}
    for m in P.mods.values():
        for n in ast.walk(m.tree):
            if isinstance(n, ast.Call) and call_attr(n) == 'schedule_event':
                a = sched_action_name(n)
                if a:
                    out.setdefault(a, set()).add(sched_event_type(n))
    P._action_types = out
    return out


def entries_of(P, c, include_initialize=False):
    """computed entry points of a device class (dict entry -> kind), exemptions removed"""
    ep = entry_points(P, c)
    out = {}
    for e, k in ep.items():
        if (c.name, e) in EXEMPT_ENTRIES:
            continue
        if e == 'initialize' and not include_initialize:
            continue
        hit = P.lookup(c, e) if not e.startswith('prop:') else None
        if hit and hit[1] == 'method' and (e in getattr(hit[0], 'static', ()) or not hit[2].args.args or hit[2].args.args[0].arg not in ('self', 'cls')):
            continue        # a static helper has no device to act on: it is not an entry point of the device
        out[e] = k
    return out


def entry_fn(P, c, entry):
    if entry.startswith('prop:'):
        return P.lookup_prop(c, entry[5:], 'set')[1]
    return P.lookup(c, entry)[2]


def param_splits(P, c, entry, g):
    """case split of the entry point's own boolean / None-compared parameters"""
    fn = entry_fn(P, c, entry)
    bps = bool_params(fn)
    nps = [p for p in none_params(fn) if p not in bps]
    combos = []
    for bv in itertools.product('TF', repeat=len(bps)):
        for nv in itertools.product('NS', repeat=len(nps)):
            d = {}
            for n_, v in zip(bps, bv):
                d[(g.top.id, n_)] = v
            for n_, v in zip(nps, nv):
                d[(g.top.id, n_)] = v
            combos.append(d)
    return combos or [{}]


# ---- hooks ---------------------------------------------------------------------

def ghost_hook(ghosts, double_flag=None):
    """maintain the event ghosts listed in `ghosts` (subset of GHOST_EVENT)"""
    def hook(an, n, before, after):
        st = after
        g = an.g
        for c in sched_calls(g, n):
            gh = EVENT_GHOST.get(sched_event_type(c))
            if gh in ghosts:
                if double_flag and gh == '#timer' and st.fields.get(gh) in ('T', 'P'):
                    st = st.with_flag(double_flag)
                st = st.with_field(gh, 'T')
        names = {call_attr(c) for c in calls_at(g, n)}
        if 'cancel_matching_events' in names:
            for gh in ghosts:
                if st.fields.get(gh) != 'F':
                    st = st.with_field(gh, 'F')
        if 'pause_matching_events' in names:
            for gh in ghosts:
                if st.fields.get(gh) == 'T':
                    st = st.with_field(gh, 'P')
        if 'unpause_matching_events' in names:
            for gh in ghosts:
                if st.fields.get(gh) == 'P':
                    st = st.with_field(gh, 'T')
        return st
    return hook


def notify_hook(an, n, before, after):
    """flag 'notified' when the loop that tells the upstream devices about free space is reached"""
    if n.kind == 'for':
        it = ast.unparse(n.ast.iter)
        body_calls = [c for s in n.ast.body for c in ast.walk(s) if isinstance(c, ast.Call)]
        tgt = n.ast.target.id if isinstance(n.ast.target, ast.Name) else None
        if any(call_attr(c) in ('space_available_downstream', 'notify_upstream_of_available_space') and
               isinstance(c.func, ast.Attribute) and isinstance(c.func.value, ast.Name) and c.func.value.id == tgt
               for c in body_calls) and ('_upstream' in it or '_group_paths' in it or 'upstream' in it):
            return after.with_flag('notified')
    return after


def stamp_hook(field):
    """stores of a clock value into `field` are not-None"""
    def hook(an, n, before, after):
        a = n.ast
        if n.kind == 'stmt' and isinstance(a, ast.Assign) and any(is_self_attr(t, field) for t in a.targets) \
                and not isinstance(a.value, ast.Constant):
            if after.fields.get(field) != 'S':
                return after.with_field(field, 'S')
        return after
    return hook


# ---- predicates over abstract fields ----------------------------------------------

def full(v):
    return v not in ('N', TOP)


def slot_invariant(cname, f):
    p, o = f.get('_part', 'N'), f.get('_output', 'N')
    if cname == 'PartBatcher':
        return not (full(p) and not full(o))      # something left to unpack => an output is waiting
    if cname == 'Buffer':
        return p == 'N' and o == 'N'
    if cname == 'Sink':
        return o == 'N'
    if cname == 'Source':
        return p == 'N'
    return not (full(p) and full(o))


def operational(cname, f):
    return f.get('_is_shut_down', 'F') == 'F'


def accepting(cname, f):
    return f.get('_part', 'N') == 'N' and f.get('_output', 'N') == 'N' and f.get('_block_input', 'F') == 'F' \
        and operational(cname, f)


def base_domain(P, c, part_tokens=False):
    proc = is_processor(P, c)
    return {
        '_part': ['N', 'p0' if part_tokens else 'S'],
        '_output': ['N', 'o0' if part_tokens else 'S'],
        '_is_shut_down': ['T', 'F'] if proc else ['F'],
        '_block_input': ['T', 'F'],
    }


def product_states(dom, inv=None):
    keys = list(dom)
    for combo in itertools.product(*[dom[k] for k in keys]):
        f = dict(zip(keys, combo))
        if inv is None or inv(f):
            yield f


def explore_all(ctx, c, tracked, dom, inv=None, node_hooks=(), edge_hooks=(), refine_hooks=(), call_models=None,
                entries=None, entry_filter=None, part_value='S', boolean=False):
    """explore every computed entry point of concrete class c from every abstract entry state.
    yields (entry, kind, graph, entry_state, Result)"""
    P = ctx.P
    ents = entries if entries is not None else entries_of(P, c)
    for e, kind in sorted(ents.items()):
        g = ctx.graph(c, e, boolean=boolean)
        an = Analysis(P, g, tracked, call_models=call_models)
        an.node_hooks.extend(node_hooks)
        an.edge_hooks.extend(edge_hooks)
        an.refine_hooks.extend(refine_hooks)
        fn = entry_fn(P, c, e)
        has_part = 'part' in [a.arg for a in fn.args.args]
        for f0 in product_states(dom, inv):
            for split in param_splits(P, c, e, g):
                s0 = State(f0)
                s0.locals.update(split)
                if has_part and (g.top.id, 'part') not in s0.locals and part_value is not None:
                    s0.locals[(g.top.id, 'part')] = part_value
                if entry_filter is not None:
                    s0 = entry_filter(e, kind, s0)
                    if s0 is None:
                        continue
                yield e, kind, g, s0, ctx.explore(an, [s0])


def last_node(res, nid, st, pred):
    ns = [n for n in res.path(nid, st) if pred(n)]
    return ns[-1] if ns else None


def list_removals(node, field):
    """removals from the list self.<field> performed by a statement node: [('pop', index expr | None) | ('remove', arg) | ('popleft', None) | ('del', index expr)]
    -- `self.f.pop(i)`, `self.f.remove(x)`, `self.f.popleft()`, `del self.f[i]` are one vocabulary"""
    out = []
    a = node.ast
    if node.kind != 'stmt' or a is None:
        return out
    if isinstance(a, ast.Delete):
        for t in a.targets:
            if isinstance(t, ast.Subscript) and is_self_attr(t.value, field) and not isinstance(t.slice, ast.Slice):
                out.append(('del', t.slice))
    for x in ast.walk(a):
        if isinstance(x, ast.Call) and isinstance(x.func, ast.Attribute) and is_self_attr(x.func.value, field):
            if x.func.attr == 'pop':
                out.append(('pop', x.args[0] if x.args else None))
            elif x.func.attr == 'remove':
                out.append(('remove', x.args[0] if x.args else None))
            elif x.func.attr == 'popleft':
                out.append(('popleft', None))
    return out


def is_head_index(e):
    return isinstance(e, ast.Constant) and e.value == 0 and not isinstance(e.value, bool)


def id_of_token(an, e, st, frame):
    """expr hook: `<expr>.id` of an expression that holds a part token -> 'id:<token>' (a local computed from a part carries the part)"""
    from .state import is_token
    if isinstance(e, ast.Attribute) and e.attr == 'id' and not is_self_attr(e):
        v = an.ev(e.value, st, frame)
        if is_token(v):
            return 'id:' + v
    return NotImplemented


def record_carries(an, cl, st, frame, token):
    """does the call (an add_datapoint) mention the part `token`, directly or through local definitions (`lost_id = lost.id if lost else None`,
    or the if/else statement form)?  Every name is evaluated in the current state, so a local that still holds the part carries its token."""
    from .norm import single_defs
    defs_ = single_defs(frame.func) if frame.func is not None else {}
    todo, seen_, vals = [cl], set(), set()
    while todo:
        e_ = todo.pop()
        for x in ast.walk(e_):
            if isinstance(x, ast.Name) and x.id not in seen_:
                seen_.add(x.id)
                vals.add(an.ev(x, st, frame))
                if x.id in defs_:
                    todo.append(defs_[x.id])
            elif isinstance(x, ast.Attribute) and x.attr == 'id':
                vals.add(an.ev(x, st, frame))
    return token in vals or ('id:' + token) in vals


def datapoint(cl, frame):
    """an `add_datapoint(label, sub_label, datapoint)` call, arguments bound by position or keyword and spelled canonically (locals, aliases
    and helper parameters substituted): -> dict(label=constant value | text, sub=text, elts=[ast] | None (the datapoint is not a tuple display),
    data=ast) or None when an argument is missing"""
    from .norm import FrameEnv, subst
    names = ['list_label', 'sub_label', 'datapoint']
    b = dict(zip(names, cl.args))
    for kw in cl.keywords:
        if kw.arg in names:
            b[kw.arg] = kw.value
    if len(b) != 3 or len(cl.args) + len([k for k in cl.keywords if k.arg]) != 3:
        return None
    env = FrameEnv(frame)
    lab = subst(b['list_label'], env)
    sub = subst(b['sub_label'], env)
    data = subst(b['datapoint'], env)
    return {'label': lab.value if isinstance(lab, ast.Constant) else ast.unparse(lab), 'sub': ast.unparse(sub).replace(' ', ''),
            'elts': list(data.elts) if isinstance(data, ast.Tuple) else None, 'data': data}


def canon_text(e, frame, keep=()):
    """spelling of an expression after substitution of single-definition locals, aliases and parameters of inlined frames"""
    from .norm import FrameEnv, subst
    return ast.unparse(subst(e, FrameEnv(frame), keep=tuple(keep))).replace(' ', '')


def scan_shape(g, list_attr, snapshot=False):
    """K14: `i = 0; while i < len(self.<list_attr>): ...` -- every path through the body does exactly one of
    {remove element i, i += 1}.  returns list of problems (node|None, message); empty list = ok.
    Also returns the loop head cond node (or None).  Expressions are compared in canonical spelling (canon_text), so a local alias of
    the list, an unpacked entry or a helper that serves one index do not change the verdict."""
    problems = []
    heads = []
    for n in g.nodes.values():
        if n.kind == 'cond' and isinstance(n.ast, ast.Compare) and len(n.ast.ops) == 1:
            t = n.ast
            l, r = t.left, t.comparators[0]
            # `i < len(L)` (stay in the loop on T) or its negation `i >= len(L)` (leave the loop on T), either operand order
            MIRROR = {ast.Lt: ast.Gt, ast.Gt: ast.Lt, ast.LtE: ast.GtE, ast.GtE: ast.LtE}
            op = type(t.ops[0])
            if op in MIRROR:
                if not isinstance(l, ast.Name):
                    l, r, op = r, l, MIRROR[op]
                if isinstance(l, ast.Name) and canon_text(r, n.frame, keep=(l.id,)) == f'len(self.{list_attr})' and op in (ast.Lt, ast.GtE):
                    n._in_label = 'T' if op is ast.Lt else 'F'
                    heads.append((n, l.id))
    if not heads and snapshot:
        # (only where the caller has an argument that a scan over a snapshot visits the same elements: nothing can be added to the list
        # while the scan runs.  The waiting list of the resource manager grows during its scan -- callbacks register -- so C10 does not ask)
        r = _snapshot_scan(g, list_attr)
        if r is not None:
            return r
    if len(heads) != 1:
        return [(None, f'expected one index scan `while i < len(self.{list_attr})`, found {len(heads)}')], None
    head, iv = heads[0]
    # initialisation: the definition of the index reaching the loop is the constant 0
    inits = [n for n in g.nodes.values() if n.kind == 'stmt' and isinstance(n.ast, ast.Assign) and n.frame is head.frame
             and any(isinstance(t, ast.Name) and t.id == iv for t in n.ast.targets)
             and not any(isinstance(x, ast.Name) and x.id == iv for x in ast.walk(n.ast.value))]
    if len(inits) != 1 or not (isinstance(inits[0].ast.value, ast.Constant) and inits[0].ast.value.value == 0) \
            or not g.dominated_by(head.id, {inits[0].id}):
        problems.append((inits[0] if inits else head, f'the scan over {list_attr} does not start at index 0'))
    L = f'self.{list_attr}'

    def effect(n):
        a = n.ast
        if n.kind != 'stmt' or a is None:
            return None
        if n.frame is head.frame:
            if isinstance(a, ast.AugAssign) and isinstance(a.target, ast.Name) and a.target.id == iv:
                if isinstance(a.op, ast.Add) and isinstance(a.value, ast.Constant) and a.value.value == 1:
                    return 'inc'
                return 'badinc'
            if isinstance(a, ast.Assign) and any(isinstance(t, ast.Name) and t.id == iv for t in a.targets):
                s = ast.unparse(a.value).replace(' ', '')
                return 'inc' if s in (f'{iv}+1', f'1+{iv}') else 'badinc'
        if isinstance(a, ast.Expr):
            s = canon_text(a.value, n.frame, keep=(iv,))
        elif isinstance(a, ast.Delete) and len(a.targets) == 1:
            s = 'del' + canon_text(a.targets[0], n.frame, keep=(iv,))
        else:
            return None
        if s in (f'{L}.pop({iv})', f'del{L}[{iv}]', f'{L}.remove({L}[{iv}])'):
            return 'rm'
        if f'{L}.pop(' in s or f'{L}.remove(' in s or f'del{L}' in s or f'{L}.insert(' in s or f'{L}.clear(' in s:
            return 'other'
        return None

    starts = [m for l, m in g.succ[head.id] if l == getattr(head, '_in_label', 'T')]
    paths = []

    def dfs(n, seen, effs):
        if len(paths) > 2000:
            return
        if n == head.id or (g.nodes[n].kind == 'join' and g.nodes[n].note == 'while-head' and head.id in [m for _, m in g.succ[n]]):
            paths.append(list(effs))
            return
        if n in seen:
            return
        node = g.nodes[n]
        if node.kind in ('exit', 'raise_exit'):
            return
        e = effect(node)
        if e:
            effs = effs + [(e, node)]
        for lbl, m in g.succ[n]:
            if lbl == 'exc':
                continue
            dfs(m, seen | {n}, effs)
    for s in starts:
        dfs(s, frozenset(), [])
    if not paths:
        problems.append((head, 'the scan loop body never returns to the loop test'))
    for effs in paths:
        kinds = [e for e, _ in effs]
        if kinds.count('rm') + kinds.count('inc') != 1 or any(k in ('badinc', 'other') for k in kinds):
            node = effs[-1][1] if effs else head
            what = ('neither removes the current element nor advances the index' if not kinds else
                    'both removes the current element and advances the index (skips the next element)' if 'rm' in kinds and 'inc' in kinds else
                    f'changes the index or the list irregularly ({kinds})')
            problems.append((node, f'a path through the scan of {list_attr} {what}'))
    problems += left_early(g, head, list_attr)
    return problems, head


SNAPSHOTS = ('list(self.{a})', 'tuple(self.{a})', 'self.{a}.copy()', 'self.{a}[:]', 'copy.copy(self.{a})', 'copy(self.{a})')


def _snapshot_scan(g, list_attr):
    """the other spelling of the scan: `for x in list(self.<list_attr>): ...` -- every element present when the scan starts is visited
    once, in list order; a path through the body removes at most the visited element (`L.remove(x)` / `L.pop(L.index(x))`) and changes
    the list in no other way.  Iterating the live list while removing from it (which skips the successor of every removed element) is
    reported.  Returns (problems, head) with head._scan_elem = the loop variable, or None when there is no such loop."""
    L = f'self.{list_attr}'
    snaps = {t.format(a=list_attr).replace(' ', '') for t in SNAPSHOTS}
    heads = []
    for n in g.nodes.values():
        if n.kind == 'for' and n.note != 'any/all' and isinstance(n.ast, ast.For) and isinstance(n.ast.target, ast.Name):
            it = canon_text(n.ast.iter, n.frame)
            if it in snaps or it == L:
                heads.append((n, it == L))
    if not heads:
        return None
    if len(heads) != 1:
        return [(None, f'expected one scan of self.{list_attr}, found {len(heads)} loops over it')], None
    head, live = heads[0]
    x = head.ast.target.id
    head._scan_elem = x
    head._in_label = 'T'
    problems = []

    def effect(n):
        a = n.ast
        if n.kind != 'stmt' or a is None:
            return None
        if isinstance(a, ast.Expr):
            s = canon_text(a.value, n.frame, keep=(x,))
        elif isinstance(a, ast.Delete) and len(a.targets) == 1:
            s = 'del' + canon_text(a.targets[0], n.frame, keep=(x,))
        elif isinstance(a, (ast.Assign, ast.AugAssign)) and any(isinstance(t, ast.Name) and t.id == x for t in (a.targets if isinstance(a, ast.Assign) else [a.target])) \
                and n.frame is head.frame:
            return 'other'
        else:
            return None
        if s in (f'{L}.remove({x})', f'{L}.pop({L}.index({x}))', f'del{L}[{L}.index({x})]'):
            return 'rm'
        if f'{L}.pop(' in s or f'{L}.remove(' in s or f'del{L}' in s or f'{L}.insert(' in s or f'{L}.clear(' in s or f'{L}.append(' in s or f'{L}.sort(' in s or f'{L}.reverse(' in s:
            return 'other'
        return None
    paths = []

    def dfs(n, seen, effs):
        if len(paths) > 2000:
            return
        if n == head.id:
            paths.append(list(effs))
            return
        if n in seen:
            return
        node = g.nodes[n]
        if node.kind in ('exit', 'raise_exit'):
            return
        e = effect(node)
        if e:
            effs = effs + [(e, node)]
        for lbl, m in g.succ[n]:
            if lbl != 'exc':
                dfs(m, seen | {n}, effs)
    for lbl, m in g.succ[head.id]:
        if lbl == 'T':
            dfs(m, frozenset(), [])
    if not paths:
        problems.append((head, 'the scan loop body never returns to the loop head'))
    for effs in paths:
        kinds = [e for e, _ in effs]
        if kinds.count('rm') > 1 or 'other' in kinds:
            problems.append((effs[-1][1], f'a path through the scan of {list_attr} changes the list irregularly ({kinds})'))
        elif live and 'rm' in kinds:
            problems.append((effs[-1][1], f'the scan iterates the live list self.{list_attr} and removes from it: the element after every removed one is skipped'))
    problems += left_early(g, head, list_attr)
    return problems, head


def left_early(g, head, list_attr):
    """leaving the scan from inside its body (break / return) leaves the later elements unexamined: the only way out of the loop is its test"""
    inl = getattr(head, '_in_label', 'T')
    body = g.reach_edges([m for lbl, m in g.succ[head.id] if lbl == inl], cut_edges={(head.id, 'T'), (head.id, 'F')})
    if g.exit in body:
        return [(head, f'the scan of {list_attr} can be left from inside its body (break / return): later elements are not examined')]
    return []


def loop_body_paths(g, head, limit=4000):
    """all simple paths through the body of the while-loop whose test is the cond node `head`:
    from the T edge of the test back to the loop head.  Each path is a list of (node, label taken out of it)."""
    starts = [m for l, m in g.succ[head.id] if l == getattr(head, '_in_label', 'T')]
    paths = []

    def is_head(n):
        node = g.nodes[n]
        return n == head.id or (node.kind == 'join' and node.note == 'while-head' and head.id in [m for _, m in g.succ[n]])

    def dfs(n, seen, acc):
        if len(paths) > limit:
            return
        if is_head(n):
            paths.append(list(acc))
            return
        if n in seen:
            return
        node = g.nodes[n]
        if node.kind in ('exit', 'raise_exit'):
            return
        for lbl, m in g.succ[n]:
            if lbl == 'exc':
                continue
            dfs(m, seen | {n}, acc + [(node, lbl)])
    for s in starts:
        dfs(s, frozenset(), [])
    return paths


# ---- ghost case splits ---------------------------------------------------------------------------------

def ghost_refiner(specs):
    """refine hook from specs = [(ghost, matcher(test, frame) -> True (test <=> ghost) | False (test <=> not ghost) | None)]"""
    def h(an, test, truth, st, frame):
        for ghost, m in specs:
            r = m(test, frame)
            if r is None:
                continue
            want = 'T' if (truth if r else not truth) else 'F'
            cur = st.fields.get(ghost, '?')
            if cur in ('T', 'F') and cur != want:
                return None
            return st.with_field(ghost, want) if cur != want else st
        return NotImplemented
    return h


def pick_ifexp(e, st, specs, frame):
    """resolve conditional expressions whose test is recognised by `specs` according to the ghost values in st"""
    while isinstance(e, ast.IfExp):
        test, neg = e.test, False
        while isinstance(test, ast.UnaryOp) and isinstance(test.op, ast.Not):
            test, neg = test.operand, not neg
        pol = None
        for ghost, m in specs:
            r = m(test, frame)
            if r is not None and st.fields.get(ghost) in ('T', 'F'):
                pol = (st.fields[ghost] == 'T') == r
                break
        if pol is None:
            return e
        if neg:
            pol = not pol
        e = e.body if pol else e.orelse
    return e


def return_cases(ctx, c, method, specs, extra_locals=None):
    """values returned by `method` of class c for every assignment of the ghosts in `specs`:
    dict {tuple of 'T'/'F' per ghost: set of returned expression texts}; conditional expressions on recognised tests are resolved"""
    from .state import Analysis, State
    P = ctx.P
    g = ctx.graph(c, method)
    ghosts = [gh for gh, _ in specs]
    an = Analysis(P, g, ghosts)
    an.refine_hooks.append(ghost_refiner(specs))
    out = {}
    for vals in itertools.product('TF', repeat=len(ghosts)):
        s0 = State(dict(zip(ghosts, vals)))
        for k, v in (extra_locals or {}).items():
            s0.locals[(g.top.id, k)] = v
        res = ctx.explore(an, [s0])
        texts = set()
        for n in g.nodes.values():
            if n.kind == 'return' and n.frame is g.top:
                for st in res.at(n.id):
                    v = n.ast.value
                    from .norm import FrameEnv, subst
                    texts.add(ast.unparse(subst(pick_ifexp(v, st, specs, n.frame), FrameEnv(n.frame))) if v is not None else 'None')
        # falling off the end returns None
        for st in res.exits():
            path = res.path(g.exit, st)
            if not any(x.kind == 'return' and x.frame is g.top for x in path):
                texts.add('None')
        out[vals] = texts
    return out


def record_helper(P, cls):
    """(name, [param names without self]) of the private method of `cls` that forwards a label parameter to add_datapoint
    (e.g. Maintainer._record_work_order_datapoint(label, request)); identified by what it does, not by its name.  None if absent."""
    for k in cls.mro:
        for nm, fn in k.methods.items():
            params = [a.arg for a in fn.args.args if a.arg != 'self']
            for x in ast.walk(fn):
                if isinstance(x, ast.Call) and isinstance(x.func, ast.Attribute) and x.func.attr == 'add_datapoint' and x.args and \
                        isinstance(x.args[0], ast.Name) and x.args[0].id in params:
                    return nm, params, params.index(x.args[0].id)
    return None


def record_call(cl, helper):
    """(label, [texts of the other arguments]) if `cl` is a call of the record helper with a constant label"""
    if helper is None or not isinstance(cl.func, ast.Attribute) or cl.func.attr != helper[0]:
        return None
    nm, params, li = helper
    b = {}
    for p_, a in zip(params, cl.args):
        b[p_] = a
    for kw in cl.keywords:
        if kw.arg:
            b[kw.arg] = kw.value
    lab = b.get(params[li])
    if not isinstance(lab, ast.Constant):
        return None
    return str(lab.value), [ast.unparse(b[p_]) for p_ in params if p_ != params[li] and p_ in b]


def bind_method_call(P, cls, call):
    """{parameter name: argument expression} for a call `self.m(...)` / `Class.m(...)` of a method of cls (positional and keyword),
    None if the callee cannot be resolved"""
    f = call.func
    if not isinstance(f, ast.Attribute):
        return None
    hit = P.lookup(cls, f.attr)
    if not hit or hit[1] != 'method':
        return None
    fn = hit[2]
    params = [a.arg for a in fn.args.args]
    if f.attr not in hit[0].static and params[:1] == ['self']:
        params = params[1:]
    out = {}
    for p_, a in zip(params, call.args):
        out[p_] = a
    for kw in call.keywords:
        if kw.arg:
            out[kw.arg] = kw.value
    return out


def list_builder(fn):
    """the list a small function builds and returns, whichever way it is spelled: `return [elt for t in it if c]` or
    `xs = []; for t in it: [if c:] xs.append(elt); return xs`.  -> dict(elt, target, iter, ifs) or None"""
    body = [x for x in fn.body if not (isinstance(x, ast.Expr) and isinstance(x.value, ast.Constant))]
    if len(body) == 1 and isinstance(body[0], ast.Return) and isinstance(body[0].value, ast.ListComp) and len(body[0].value.generators) == 1:
        lc = body[0].value
        g_ = lc.generators[0]
        return {'elt': lc.elt, 'target': g_.target, 'iter': g_.iter, 'ifs': list(g_.ifs)}
    if len(body) == 2 and isinstance(body[0], ast.Assign) and isinstance(body[0].value, ast.ListComp) and isinstance(body[1], ast.Return) \
            and isinstance(body[1].value, ast.Name) and [ast.unparse(t) for t in body[0].targets] == [body[1].value.id] and len(body[0].value.generators) == 1:
        lc = body[0].value
        g_ = lc.generators[0]
        return {'elt': lc.elt, 'target': g_.target, 'iter': g_.iter, 'ifs': list(g_.ifs)}
    if len(body) == 3 and isinstance(body[0], ast.Assign) and isinstance(body[0].value, ast.List) and not body[0].value.elts and isinstance(body[1], ast.For) \
            and isinstance(body[2], ast.Return) and isinstance(body[2].value, ast.Name) and [ast.unparse(t) for t in body[0].targets] == [body[2].value.id] and not body[1].orelse:
        L = body[2].value.id
        inner = [x for x in body[1].body if not (isinstance(x, ast.Expr) and isinstance(x.value, ast.Constant))]
        ifs = []
        while len(inner) == 1 and isinstance(inner[0], ast.If) and not inner[0].orelse:
            ifs.append(inner[0].test)
            inner = inner[0].body
        if len(inner) == 1 and isinstance(inner[0], ast.Expr) and isinstance(inner[0].value, ast.Call) and ast.unparse(inner[0].value.func) == f'{L}.append' and len(inner[0].value.args) == 1:
            return {'elt': inner[0].value.args[0], 'target': body[1].target, 'iter': body[1].iter, 'ifs': ifs}
    return None


# ---- documented defaults (K13) ------------------------------------------------------------------------------

def _canon_default(x):
    x = x.strip().rstrip('.').strip()
    try:
        v = ast.literal_eval(x)
        if isinstance(v, (int, float)) and not isinstance(v, bool):
            return repr(float(v))
        return repr(v)
    except Exception:
        return x.replace(' ', '').replace('"', "'")


def documented_default(P, cname, method, param):
    """(documented, signature, kind) for one parameter: kind 'default' when the numpydoc entry says `default=X`, 'optional' when it says
    optional (no value documented), None when the parameter is not documented.  Values are canonical strings (0 == 0.0)."""
    import re
    c = P.cls(cname)
    fn = P.method(c, method)[1]
    doc = (ast.get_docstring(c.node) if method == '__init__' else ast.get_docstring(fn)) or ''
    a = fn.args
    params = a.posonlyargs + a.args
    d = dict(zip([p_.arg for p_ in params][len(params) - len(a.defaults):], a.defaults))
    sig = _canon_default(ast.unparse(d[param])) if param in d else None
    m = re.search(r'^\s*' + re.escape(param) + r'\s*:\s*[^\n]*?default\s*=\s*([^\n]+?)\s*$', doc, re.M)
    if m:
        return _canon_default(m.group(1)), sig, 'default'
    if re.search(r'^\s*' + re.escape(param) + r'\s*:\s*[^\n]*optional', doc, re.M):
        return None, sig, 'optional'
    return None, sig, None


def check_defaults(ctx, o, triples, unbounded=()):
    """K13 for the listed (class, method, parameter) triples: the signature default equals the documented default; a parameter documented
    as optional whose absence means "unbounded" (listed in `unbounded`) defaults to +infinity or None"""
    P = ctx.P
    for cname, method, param in triples:
        if not P.has_cls(cname) or not P.has_method(cname, method):
            continue
        o.count()
        doc, sig, kind = documented_default(P, cname, method, param)
        c = P.cls(cname)
        fn = P.method(c, method)[1]
        if sig is None:
            o.fail(P, f'{cname}.{method}', f'{param}=<default>', f'the parameter {param} no longer has a default value', file=c.mod.path, line=fn.lineno)
        elif kind == 'default':
            if doc != sig:
                o.fail(P, f'{cname}.{method}', f'{param} = {sig}', f'the signature default of {param} ({sig}) differs from the documented default ({doc}): code that relies on the documented '
                       'default behaves differently', file=c.mod.path, line=fn.lineno)
            else:
                o.witness((cname, method, param))
        elif (cname, method, param) in unbounded or kind == 'optional':
            if sig not in ("float('inf')", 'None', 'math.inf', 'inf'):
                o.fail(P, f'{cname}.{method}', f'{param} = {sig}', f'{param} is documented as optional (absent = unbounded / not set) but defaults to {sig}', file=c.mod.path, line=fn.lineno)
            else:
                o.witness((cname, method, param))


# ---- truthiness of domain objects --------------------------------------------------------------------------------------------
PART_SLOTS = ('_part', '_output')
PART_PARAMS = ('part', 'lost_part')


def part_truthiness_sites(P):
    """(cls, func, expr) for every place where an expression holding a part (a handler slot, a parameter named part / lost_part,
    or a local defined once from one of those) is used for its truth value: `if x`, `x and ..`, `not x`, `a if x else b`, bool(x).
    Such a test means "is not None" only while no class of the Part hierarchy defines __bool__ / __len__."""
    from .norm import single_defs
    out = []
    for m_, c_, f in inv_functions(P):
        defs = single_defs(f)
        params = {a.arg for a in f.args.args + f.args.kwonlyargs}

        def holds_part(e, depth=0):
            if isinstance(e, ast.Attribute) and isinstance(e.value, ast.Name) and e.value.id == 'self' and e.attr in PART_SLOTS:
                return True
            if isinstance(e, ast.Name):
                if e.id in params and e.id in PART_PARAMS:
                    return True
                if e.id in defs and depth < 4:
                    return holds_part(defs[e.id], depth + 1)
            return False
        tests = []
        for x in ast.walk(f):
            if isinstance(x, (ast.If, ast.While, ast.IfExp, ast.Assert)):
                tests.append(x.test)
            elif isinstance(x, ast.comprehension):
                tests.extend(x.ifs)
            elif isinstance(x, ast.Call) and isinstance(x.func, ast.Name) and x.func.id == 'bool' and len(x.args) == 1:
                tests.append(x.args[0])

        def atoms(t):
            if isinstance(t, ast.BoolOp):
                for v in t.values:
                    yield from atoms(v)
            elif isinstance(t, ast.UnaryOp) and isinstance(t.op, ast.Not):
                yield from atoms(t.operand)
            else:
                yield t
        for t in tests:
            for a_ in atoms(t):
                if holds_part(a_):
                    out.append((c_, f, a_))
        # `x or default` / `x and y` used as values
        for x in ast.walk(f):
            if isinstance(x, ast.BoolOp) and not any(x is t or any(x is y for y in ast.walk(t)) for t in tests):
                for v in x.values[:-1]:
                    if holds_part(v):
                        out.append((c_, f, v))
    return out


def inv_functions(P):
    from . import inventory
    return inventory.functions(P)


def truthiness_overrides(P, root='Part'):
    """classes of the `root` hierarchy that define __bool__ or __len__ (their instances can be falsy)"""
    if not P.has_cls(root):
        return []
    r = P.cls(root)
    out = []
    for cs in P.by_name.values():
        for c in cs:
            if r not in c.mro:
                continue
            # the method Python consults for this class: __bool__ first (nearest in the MRO), __len__ only when no class of the MRO defines __bool__
            def nearest(m):
                for k in c.mro:
                    if m in k.methods:
                        return k
                return None
            kb, kl = nearest('__bool__'), nearest('__len__')
            if kb is not None:
                fn = kb.methods['__bool__']
                fn = fn[0] if isinstance(fn, (list, tuple)) else fn
                fn = getattr(fn, 'node', fn)
                body = [x for x in fn.body if not (isinstance(x, ast.Expr) and isinstance(x.value, ast.Constant))]
                always = len(body) == 1 and isinstance(body[0], ast.Return) and isinstance(body[0].value, ast.Constant) and body[0].value.value is True
                if not always and kb is c:
                    out.append((c, '__bool__'))
                continue            # `def __bool__(self): return True` keeps every instance truthy whatever __len__ says
            if kl is c:
                out.append((c, '__len__'))
    return out


# ---- contradiction rule: an attribute the class itself treats as optional ---------------------------------------------------------
def optional_attr_contradictions(P, c):
    """(beliefs, violations) for class c.  A belief is a call `getattr(E, '<a>', default)` in a method of c: the class states that
    objects reached as E may lack attribute a.  E is identified by the last attribute of its chain (`request.target`, `req.target`,
    `self._queue[i].target` are all "a .target").  A violation is a plain read `<...>.target.<a>` anywhere in the class: the same
    class relies on the attribute being there (Engler et al.: one of the two is wrong)."""
    beliefs, viol = [], []
    for fn in c.methods.values():
        for x in ast.walk(fn):
            if isinstance(x, ast.Call) and isinstance(x.func, ast.Name) and x.func.id == 'getattr' and len(x.args) == 3 \
                    and isinstance(x.args[1], ast.Constant) and isinstance(x.args[1].value, str) and isinstance(x.args[0], ast.Attribute):
                beliefs.append((x.args[0].attr, x.args[1].value, fn, x))
    keys = {(b[0], b[1]) for b in beliefs}
    for fn in c.methods.values():
        for x in ast.walk(fn):
            if isinstance(x, ast.Attribute) and isinstance(x.ctx, ast.Load) and isinstance(x.value, ast.Attribute) and (x.value.attr, x.attr) in keys:
                viol.append((fn, x))
    return beliefs, viol


# ---- `param or default`: a configured 0 is not "not configured" ------------------------------------------------------------------
def _falsy_default_in(fn):
    """BoolOp(Or) nodes in fn whose first operand is a bare parameter of fn with a numeric / None / absent default, used as a value"""
    a = fn.args
    params = [x.arg for x in a.posonlyargs + a.args + a.kwonlyargs]
    defaults = dict(zip([x.arg for x in (a.posonlyargs + a.args)][len(a.posonlyargs + a.args) - len(a.defaults):], a.defaults))
    defaults.update({k.arg: d for k, d in zip(a.kwonlyargs, a.kw_defaults) if d is not None})
    out = []
    for x in ast.walk(fn):
        if isinstance(x, ast.BoolOp) and isinstance(x.op, ast.Or) and isinstance(x.values[0], ast.Name) and x.values[0].id in params and x.values[0].id != 'self':
            d = defaults.get(x.values[0].id)
            if isinstance(d, (ast.Constant,)) and isinstance(d.value, (str, bytes)) and d.value is not None:
                continue        # a text parameter: '' or default is the usual idiom
            if isinstance(d, (ast.List, ast.Dict, ast.Tuple, ast.Set)):
                continue
            last = x.values[-1]
            if isinstance(last, (ast.List, ast.Dict, ast.Tuple, ast.Set)) or (isinstance(last, ast.Constant) and isinstance(last.value, str)):
                continue        # `names or []`: a container default
            out.append(x)
    return out


def falsy_default_obligation(ctx, oid, class_names, what):
    """K12 lint, expected count zero, with a positive control: no `param or default` on a numeric / optional configuration parameter of the
    listed classes -- a configured 0 (an empty budget, capacity 0, interval 0) is falsy and would silently become the default"""
    from .report import Ob
    P = ctx.P
    o = Ob(oid, 'K12', f'{what}: no `parameter or default` on a numeric or optional parameter (a configured 0 is falsy and would silently turn into the default)')
    control = ast.parse("def f(self, capacity=None):\n    self._c = capacity or float('inf')\n").body[0]
    o.count()
    if len(_falsy_default_in(control)) != 1:
        from . import AnalysisError
        raise AnalysisError('falsy-default lint: the positive control was not recognised')
    o.witness('positive-control')
    n = 0
    for cn in class_names:
        if not P.has_cls(cn):
            continue
        c = P.cls(cn)
        fns = list(c.methods.values()) + [f for pr in c.props.values() for f in pr.values()]
        for fn in fns:
            o.count()
            n += 1
            for x in _falsy_default_in(fn):
                o.fail(P, f'{c.name}.{fn.name}', x, f'`{ast.unparse(x)}`: when `{x.values[0].id}` is 0 (or 0.0) the right-hand side is taken, so an explicit zero configuration '
                       'behaves like "not given"; test `is None` instead', file=c.mod.path, line=x.lineno)
    o.sample({'classes': [cn for cn in class_names if P.has_cls(cn)], 'functions_scanned': n})
    return o


# ---- "how many parts is this" -----------------------------------------------------------------------------------------------
def count_functions(ctx):
    """{method name: [(class, param)]} of the functions of the package that compute the number of parts an item stands for -- len(x.parts) for a
    Batch, 1 otherwise -- found by what they return (dv.return_cases), wherever they live (Buffer, Batch, PartHandler, Sink ...) and whatever
    they are called; a function that only forwards its argument to one of them is one too."""
    P = ctx.P
    cached = P.__dict__.get('_sa_count_functions')
    if cached is not None:
        return cached
    out = {}
    cands = []
    for cs in P.by_name.values():
        for c in cs:
            for nm, fn in c.methods.items():
                params = [a.arg for a in fn.args.args if a.arg not in ('self', 'cls')]
                if len(params) != 1 or fn.args.vararg or fn.args.kwarg:
                    continue
                cands.append((c, nm, fn, params[0]))
    for c, nm, fn, p in cands:
        src = ast.unparse(fn)
        if 'Batch' not in src or '.parts' not in src:
            continue

        def m_batch(test, frame, p=p):
            if isinstance(test, ast.Call) and ast.unparse(test.func) == 'isinstance' and len(test.args) == 2 and ast.unparse(test.args[0]) == p and ast.unparse(test.args[1]) == 'Batch':
                return True
            return None
        try:
            cases = return_cases(ctx, c, nm, [('#batch', m_batch)])
        except Exception:      # noqa: BLE001 -- not a function this model understands: not a count function
            continue
        if cases.get(('T',)) == {f'len({p}.parts)'} and cases.get(('F',)) == {'1'}:
            out.setdefault(nm, []).append((c, p))
    # ... and module-level functions of one parameter (`def _count_parts(part)` next to class Batch), read off their statements
    for m in P.mods.values():
        for nm, fn in m.functions.items():
            params = [a.arg for a in fn.args.args]
            if len(params) != 1 or fn.args.vararg or fn.args.kwarg or fn.decorator_list:
                continue
            p = params[0]
            body = [s_ for s_ in fn.body if not (isinstance(s_, ast.Expr) and isinstance(s_.value, ast.Constant))]

            def is_batch_test(t, p=p):
                return isinstance(t, ast.Call) and ast.unparse(t.func) == 'isinstance' and len(t.args) == 2 and ast.unparse(t.args[0]) == p and ast.unparse(t.args[1]) == 'Batch'
            yes = no = None
            if len(body) == 1 and isinstance(body[0], ast.Return) and isinstance(body[0].value, ast.IfExp) and is_batch_test(body[0].value.test):
                yes, no = body[0].value.body, body[0].value.orelse
            elif body and isinstance(body[0], ast.If) and is_batch_test(body[0].test) and len(body[0].body) == 1 and isinstance(body[0].body[0], ast.Return):
                rest = body[0].orelse if body[0].orelse else body[1:]
                if len(rest) == 1 and isinstance(rest[0], ast.Return) and (not body[0].orelse or len(body) == 1):
                    yes, no = body[0].body[0].value, rest[0].value
            if yes is not None and no is not None and ast.unparse(yes) == f'len({p}.parts)' and ast.unparse(no) == '1':
                out.setdefault(nm, []).append((None, p))
    changed = True
    while changed:
        changed = False
        for c, nm, fn, p in cands:
            if nm in out and any(k is c for k, _ in out[nm]):
                continue
            body = [s_ for s_ in fn.body if not (isinstance(s_, ast.Expr) and isinstance(s_.value, ast.Constant))]
            if len(body) == 1 and isinstance(body[0], ast.Return) and isinstance(body[0].value, ast.Call) and isinstance(body[0].value.func, (ast.Attribute, ast.Name)) \
                    and call_attr(body[0].value) in out and [ast.unparse(a) for a in body[0].value.args] == [p] and not body[0].value.keywords:
                out.setdefault(nm, []).append((c, p))
                changed = True
    # a class-level alias of a count function is one too: `_get_part_count = staticmethod(count_parts)`
    for cs in P.by_name.values():
        for c in cs:
            for st in c.node.body:
                if isinstance(st, ast.Assign) and len(st.targets) == 1 and isinstance(st.targets[0], ast.Name):
                    v = st.value
                    if isinstance(v, ast.Call) and isinstance(v.func, ast.Name) and v.func.id in ('staticmethod', 'classmethod') and len(v.args) == 1:
                        v = v.args[0]
                    nm_ = v.id if isinstance(v, ast.Name) else v.attr if isinstance(v, ast.Attribute) else None
                    if nm_ in out and st.targets[0].id not in out:
                        out[st.targets[0].id] = [(c, out[nm_][0][1])]
    P.__dict__['_sa_count_functions'] = out
    return out


def reset_functions(P, Env):
    """names of the methods that make up "the reset" of the environment: the method(s) that store the constant 0 into the clock, and the private
    helpers only they call (`self._reset_event_queues()`)"""
    from . import inventory as inv
    base = set()
    for s_ in inv.attr_stores(P, '_now'):
        if s_.cls is Env and s_.func is not None and isinstance(s_.stmt, ast.Assign) and isinstance(s_.stmt.value, ast.Constant) and s_.stmt.value.value == 0:
            base.add(s_.func.name)
    return base, (inv.covered(P, base) if base else set())
