"""L6 -- obligations, findings, evidence and the per-property runner."""
import ast
import importlib
import json
import os
import pathlib
import re
import sys
import time
import traceback

from . import AnalysisError
from .model import Program
from .cfg import Builder

VERIF = pathlib.Path(__file__).resolve().parent.parent

_print = print


def print(*a, **k):       # noqa: A001  -- a closed stdout must not change the exit status
    try:
        _print(*a, **k)
        sys.stdout.flush()
    except BrokenPipeError:
        try:
            sys.stdout = open(os.devnull, 'w')
        except Exception:
            pass


def norm_text(node_or_str):
    """normalised statement text used in finding keys (never line numbers)"""
    if isinstance(node_or_str, ast.AST):
        try:
            s = ast.unparse(node_or_str)
        except Exception:
            s = type(node_or_str).__name__
    else:
        s = str(node_or_str)
    s = s.split('\n')[0]
    return re.sub(r'\s+', ' ', s).strip()[:120]


class Finding:
    def __init__(self, ob, where, construct, message, file=None, line=None, path=None, detail=None):
        self.ob = ob                    # obligation id, e.g. 'C03.1'
        self.where = where              # 'Class.method' (concrete class . entry point) or module-level name
        self.construct = norm_text(construct)
        self.message = message
        self.file, self.line = file, line
        self.path = path or []
        self.detail = detail or {}

    @property
    def key(self):
        return f'{self.ob}|{self.where}|{self.construct}'

    def to_json(self):
        d = {'obligation': self.ob, 'where': self.where, 'construct': self.construct, 'message': self.message,
             'file': self.file, 'line': self.line, 'key': self.key}
        if self.path:
            d['path'] = self.path
        if self.detail:
            d['detail'] = self.detail
        return d

    def one_line(self):
        loc = f'{self.file}:{self.line}' if self.file else ''
        return f'{self.ob} [{self.where}] {loc} {self.message} :: `{self.construct}`'


class Ob:
    """one structural obligation of a property and what this run established about it"""

    def __init__(self, oid, kind, text):
        self.id, self.kind, self.text = oid, kind, text
        self.instances = 0          # rule instances evaluated (sites / (entry point, state) pairs / exit states)
        self.nontrivial = set()     # distinct instances whose subject exists and whose antecedent was witnessed
        self.findings = []
        self.samples = []
        self.notes = []
        self.stats = {}
        self.broken = []            # vacuity / anchor problems: reported as ANALYSIS-ERROR unless a violation was found anyway

    def count(self, n=1):
        self.instances += n

    def witness(self, what):
        self.nontrivial.add(what)

    def sample(self, s, cap=6):
        if len(self.samples) < cap:
            self.samples.append(s)

    def fail(self, P, where, construct, message, node=None, file=None, line=None, path=None, detail=None):
        if node is not None:
            if hasattr(node, 'frame') and getattr(node, 'frame', None) is not None:   # supergraph node
                file = P.rel(node.file)
                line = node.line
                if construct is None:
                    construct = node.ast if node.ast is not None else node.note
            else:                                                                     # ast node
                line = getattr(node, 'lineno', None)
                if construct is None:
                    construct = node
        if file is not None:
            file = P.rel(file)
        f = Finding(self.id, where, construct if construct is not None else '', message, file, line, path, detail)
        # one finding per key
        if all(f.key != g.key for g in self.findings):
            self.findings.append(f)
        return f

    def require(self, cond, what):
        """vacuity guard: the rule found the subject it is about.  Deferred: if the same run also finds a violation the
        violation is reported (a change that removes a construct usually does both); otherwise the run is analysis-broken."""
        if not cond:
            self.broken.append(f'{self.id}: {what}')
        return bool(cond)

    def to_json(self):
        return {'id': self.id, 'kind': self.kind, 'obligation': self.text, 'instances': self.instances,
                'nontrivial': len(self.nontrivial), 'findings': len(self.findings),
                'stats': self.stats, 'notes': self.notes, 'samples': self.samples}


class Ctx:
    def __init__(self, repo, tier):
        self.repo, self.tier = repo, tier
        self.P = Program(repo)
        self.B = Builder(self.P, maxdepth=10 if tier == 'quick' else 14)
        self._graphs = {}
        self.units = {'graphs': 0, 'graph_nodes': 0, 'abstract_states': 0, 'entry_points': set()}

    def graph(self, cls, entry, boolean=False, opaque=(), call_exc=False):
        """supergraph of an entry point; methods named in `opaque` are not inlined"""
        if isinstance(cls, str):
            cls = self.P.cls(cls)
        opaque = tuple(sorted(opaque))
        k = (cls.qual, entry, boolean, opaque, call_exc)
        if k not in self._graphs:
            B = self.B
            if opaque or call_exc:
                B = Builder(self.P, maxdepth=self.B.maxdepth, inline_filter=lambda fr, c, fn: fn.name not in opaque, call_exc=call_exc)
            g = B.build_entry(cls, entry, boolean=boolean)
            self._graphs[k] = g
            self.units['graphs'] += 1
            self.units['graph_nodes'] += len(g.nodes)
            self.units['entry_points'].add(f'{cls.name}.{entry}')
        return self._graphs[k]

    def explore(self, an, entry_states, **kw):
        res = an.run(entry_states, **kw)
        self.units['abstract_states'] += res.n_states()
        return res

    def shared(self, module_name, src_id, new_id, why):
        """an obligation of another property's rule module that this property depends on too, re-labelled: the same rule, evaluated
        once per run (cached), reported under this property's id with the reason it is a necessary condition here"""
        import importlib
        from . import AnalysisError
        if self.__dict__.get('_in_shared'):
            # While a module is evaluated on behalf of another property only its OWN obligations are wanted: the obligations it shares from
            # third modules are not evaluated (shared obligations always refer to own obligations, so nothing is lost, dependency cycles
            # between properties -- C01 -> C20 -> C18 -> C01 -- cannot recurse, and the cost stays linear)
            ph = Ob(new_id, 'shared', f'(not evaluated while sa/rules/{module_name}.py is consulted for another property) {why}')
            ph.placeholder = True
            return ph
        cache = self.__dict__.setdefault('_shared', {})
        if module_name not in cache:
            self.__dict__['_in_shared'] = True
            try:
                cache[module_name] = importlib.import_module(f'sa.rules.{module_name}').check(self)
            finally:
                self.__dict__['_in_shared'] = False
        src = [x for x in cache[module_name] if x.id == src_id]
        if not src:
            raise AnalysisError(f'shared obligation {src_id} not produced by sa/rules/{module_name}.py')
        if getattr(src[0], 'placeholder', False):
            raise AnalysisError(f'{new_id} refers to {src_id}, which is itself a shared obligation: refer to the module that owns the rule')
        return self.relabel(src[0], new_id, why)

    def relabel(self, src, new_id, why):
        """an obligation computed for another property, reported under new_id with the reason it is a necessary condition here"""
        src_id = src.id
        o = Ob(new_id, src.kind, f'{why} [= {src_id}: {src.text}]')
        o.instances = src.instances
        o.nontrivial = set(src.nontrivial)
        o.samples = src.samples[:2]
        o.stats = dict(src.stats)
        o.broken = [b.replace(src_id, new_id, 1) for b in src.broken]
        for f in src.findings:
            g = Finding(new_id, f.where, f.construct, f.message, f.file, f.line, f.path, f.detail)
            o.findings.append(g)
        return o

    def func_graph(self, mod_func_name):
        """supergraph of a module-level function (no receiver)"""
        raise NotImplementedError


def load_known():
    p = VERIF / 'known_findings.json'
    if not p.exists():
        return {'known': [], 'fixed': []}
    return json.loads(p.read_text())


def run_property(pid, repo='/repo', tier='quick', seed=0, quiet=False):
    """returns exit status"""
    t0 = time.time()
    evdir = pathlib.Path(os.environ.get('VERIF_EVIDENCE_DIR') or (VERIF / 'evidence'))
    evidence_path = evdir / f'{pid}.json'
    viol_path = evdir / f'{pid}.violations.json'
    try:
        mod = importlib.import_module(f'sa.rules.{pid.lower()}')
    except ModuleNotFoundError:
        print(f'ANALYSIS-ERROR property={pid} no rule module (property not claimed)')
        return 2
    try:
        ctx = Ctx(repo, tier)
        st = ctx.P.stats()
        if st['classes'] < 30 or st['modules'] < 20 or st['functions'] < 200:
            raise AnalysisError(f'only {st} analysed under {repo}; the package has 32 classes in 29 modules')
        from .rules import c02 as _c02
        _c02.ensure_deleg(ctx)
        obs = mod.check(ctx)
        if not obs:
            raise AnalysisError('rule module returned no obligations')
        floor = getattr(mod, 'MIN_INSTANCES', 1)
        total = sum(o.instances for o in obs)
        if total < floor:
            obs[0].broken.append(f'{pid}: only {total} rule instances evaluated, expected at least {floor} '
                                 '(a rule matching nothing must not pass silently)')
    except AnalysisError as e:
        print(f'ANALYSIS-ERROR property={pid} {e}')
        return 2
    except Exception:
        traceback.print_exc()
        print(f'ANALYSIS-ERROR property={pid} internal error in the checker (see traceback)')
        return 2

    broken = [m for o in obs for m in o.broken]
    known = load_known()
    known_keys = {k['key']: k for k in known.get('known', []) if k.get('property') == pid}
    new, old = [], []
    for o in obs:
        for f in o.findings:
            (old if f.key in known_keys else new).append(f)

    n_inst = sum(o.instances for o in obs)
    n_nontriv = sum(len(o.nontrivial) for o in obs)
    discharged = sum(1 for o in obs if not o.findings)
    samples = []
    for o in obs:
        for s in o.samples[:3]:
            samples.append({'obligation': o.id, 'case': s})
    units = dict(ctx.units)
    units['entry_points'] = len(units['entry_points'])
    units.update(ctx.P.stats())
    ev = {
        'property_id': pid,
        'tier': tier,
        'seed': seed,
        'level': 'other',
        'coverage': {
            'explanation': getattr(mod, 'EXPLANATION', '').strip(),
            'rule': ('Every obligation is evaluated on the source of the current working tree of the repository; '
                     'an instance is one call site / store site / (concrete class, entry point, abstract entry state) '
                     'pair / exit state the rule was applied to; it is non-trivial when the construct the rule is '
                     'about exists and the antecedent of the rule was witnessed there (e.g. a transition from '
                     '"cannot accept" to "can accept" actually occurs in that entry point).'),
            'obligations': len(obs),
            'discharged': discharged,
            'evaluations': n_inst,
            'distinct_nontrivial': n_nontriv,
            'exhaustive': True,
            'samples': samples,
            'per_obligation': [o.to_json() for o in obs],
            'units_analysed': units,
            'checker_cmd': f'./check {pid} --tier {tier}',
            'trusted_base': ['CPython ast parser', 'semantics of list/dict/bisect.insort/sorted assumed',
                             "the engine's control-flow model of the statement kinds used by the repository",
                             'single-threaded run-to-completion of entry points (re-entrancy audited by C03.9)'],
            'known_findings_reported': [f.key for f in old],
        },
        'assumptions': list(getattr(mod, 'ASSUMPTIONS', [])),
        'wall_s': round(time.time() - t0, 3),
        'violations': len(new),
    }
    evidence_path.parent.mkdir(parents=True, exist_ok=True)
    evidence_path.write_text(json.dumps(ev, indent=1, default=str) + '\n')

    if not quiet:
        print(f'{pid} [{tier}] repo={repo}: {len(obs)} obligations, {n_inst} rule instances, '
              f'{n_nontriv} non-trivial, {units["graphs"]} supergraphs, {ev["wall_s"]}s')
        for o in obs:
            mark = 'ok  ' if not o.findings else 'FAIL'
            print(f'  {mark} {o.id:8s} {o.kind:10s} inst={o.instances:<5d} nontriv={len(o.nontrivial):<4d} {o.text[:110]}')
    for f in old:
        print(f'KNOWN-FINDING: property={pid} {known_keys[f.key].get("what", f.message)} [{f.key}]')
    if new:
        viol_path.write_text(json.dumps({'property': pid, 'repo': str(repo), 'tier': tier,
                                         'violations': [f.to_json() for f in new]}, indent=1) + '\n')
        for m in broken:
            print(f'  note: {m}')
        for f in new:
            print('  FINDING ' + f.one_line())
            for ln in f.path[-12:]:
                print('      | ' + ln)
        print(f'VIOLATION property={pid} replay={viol_path}')
        return 1
    if viol_path.exists():
        viol_path.unlink()
    if broken:
        for m in broken:
            print(f'ANALYSIS-ERROR property={pid} {m}')
        return 2
    return 0


def explain(path):
    d = json.loads(pathlib.Path(path).read_text())
    for v in d['violations']:
        print(f"{v['obligation']} [{v['where']}] {v['file']}:{v['line']}\n   {v['message']}\n   construct: {v['construct']}")
        for ln in v.get('path', []):
            print('      | ' + ln)
        if v.get('detail'):
            print('   detail:', json.dumps(v['detail']))
