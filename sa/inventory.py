"""L5 -- inventories over the whole package: who stores which attribute, which
container operations are applied to a list-valued field, who calls which method."""
import ast


class Site:
    """a syntactic site with its enclosing function context"""
    __slots__ = ('mod', 'cls', 'func', 'node', 'stmt', 'extra')

    def __init__(self, mod, cls, func, node, stmt=None, extra=None):
        self.mod, self.cls, self.func, self.node, self.stmt, self.extra = mod, cls, func, node, stmt, extra or {}

    @property
    def ctx(self):
        c = self.cls.name if self.cls is not None else '<module>'
        f = self.func.name if self.func is not None else '<top>'
        return f'{c}.{f}'

    @property
    def line(self):
        return getattr(self.node, 'lineno', None)


def functions(P):
    """(mod, cls|None, FunctionDef) for every function of the package, nested defs excluded"""
    for m in P.mods.values():
        for f in m.functions.values():
            yield m, None, f
        for c in m.classes.values():
            for _, _, f in c.all_functions():
                yield m, c, f


def _stmts(fn):
    """every statement node inside fn (including nested blocks, excluding nested defs' bodies)"""
    todo = list(fn.body)
    while todo:
        s = todo.pop()
        yield s
        for ch in ast.iter_child_nodes(s):
            if isinstance(ch, ast.stmt) and not isinstance(ch, (ast.FunctionDef, ast.ClassDef)):
                todo.append(ch)
            elif isinstance(ch, (ast.ExceptHandler,)):
                todo.extend(ch.body)


def attr_stores(P, attr):
    """all stores / deletes / augmented stores to `<anything>.<attr>` (not subscripts of it)"""
    out = []
    for m, c, f in functions(P):
        for n in ast.walk(f):
            if isinstance(n, ast.Attribute) and n.attr == attr and isinstance(n.ctx, (ast.Store, ast.Del)):
                st = _enclosing_stmt(m, n)
                out.append(Site(m, c, f, n, st))
    # class-level / module-level stores
    for m in P.mods.values():
        for n in ast.walk(m.tree):
            if isinstance(n, ast.Attribute) and n.attr == attr and isinstance(n.ctx, (ast.Store, ast.Del)):
                if not any(s.node is n for s in out):
                    out.append(Site(m, None, None, n, _enclosing_stmt(m, n)))
    return out


def _enclosing_stmt(m, n):
    p = n
    while p is not None and not isinstance(p, ast.stmt):
        p = m.parents.get(p)
    return p


def _enclosing_func_cls(P, m, n):
    p = n
    func = None
    cls = None
    while p is not None:
        p = m.parents.get(p)
        if isinstance(p, ast.FunctionDef) and func is None:
            func = p
        if isinstance(p, ast.ClassDef):
            cls = m.classes.get(p.name)
            break
    return cls, func


def attr_uses(P, attr):
    """every occurrence of `<x>.<attr>` in the package with its syntactic role.
    role: one of
      ('store',) ('del',) ('augstore',)
      ('method', name, call)        <x>.attr.name(...)
      ('arg', callee_text, index, call)   f(..., <x>.attr, ...)
      ('subscript-load',) ('subscript-store',) ('subscript-del',)
      ('iter',)   for/comprehension iterable
      ('test',)   truthiness test / boolean operand / compare operand
      ('binop', opname)
      ('return',) ('assign-alias', target_text) ('other', parent type)
    """
    out = []
    for m in P.mods.values():
        par = m.parents
        for n in ast.walk(m.tree):
            if not (isinstance(n, ast.Attribute) and n.attr == attr):
                continue
            cls, func = _enclosing_func_cls(P, m, n)
            p = par.get(n)
            role = None
            if isinstance(n.ctx, ast.Store):
                role = ('augstore',) if isinstance(p, ast.AugAssign) and p.target is n else ('store',)
            elif isinstance(n.ctx, ast.Del):
                role = ('del',)
            elif isinstance(p, ast.Attribute) and p.value is n:
                pp = par.get(p)
                if isinstance(pp, ast.Call) and pp.func is p:
                    role = ('method', p.attr, pp)
                else:
                    role = ('attr', p.attr)
            elif isinstance(p, ast.Call) and n in p.args:
                role = ('arg', ast.unparse(p.func), p.args.index(n), p)
            elif isinstance(p, ast.Subscript) and p.value is n:
                role = {ast.Load: ('subscript-load',), ast.Store: ('subscript-store',), ast.Del: ('subscript-del',)}[type(p.ctx)]
            elif isinstance(p, (ast.For, ast.comprehension)) and p.iter is n:
                role = ('iter',)
            elif isinstance(p, (ast.While, ast.If, ast.IfExp, ast.Assert)) and p.test is n:
                role = ('test',)
            elif isinstance(p, ast.BoolOp) or (isinstance(p, ast.UnaryOp) and isinstance(p.op, ast.Not)):
                role = ('test',)
            elif isinstance(p, ast.Compare):
                role = ('test',)
            elif isinstance(p, ast.BinOp):
                role = ('binop', type(p.op).__name__)
            elif isinstance(p, ast.Return):
                role = ('return',)
            elif isinstance(p, ast.Assign) and p.value is n:
                role = ('assign-alias', ast.unparse(p.targets[0]))
            elif isinstance(p, ast.AugAssign) and p.value is n:
                role = ('binop', type(p.op).__name__)
            else:
                role = ('other', type(p).__name__)
            out.append(Site(m, cls, func, n, _enclosing_stmt(m, n), {'role': role}))
    return out


def method_calls(P, name):
    """every call `<recv>.<name>(...)` in the package"""
    out = []
    for m in P.mods.values():
        for n in ast.walk(m.tree):
            if isinstance(n, ast.Call) and isinstance(n.func, ast.Attribute) and n.func.attr == name:
                cls, func = _enclosing_func_cls(P, m, n)
                out.append(Site(m, cls, func, n, _enclosing_stmt(m, n), {'recv': ast.unparse(n.func.value)}))
    return out


def name_calls(P, name):
    out = []
    for m in P.mods.values():
        for n in ast.walk(m.tree):
            if isinstance(n, ast.Call) and isinstance(n.func, ast.Name) and n.func.id == name:
                cls, func = _enclosing_func_cls(P, m, n)
                out.append(Site(m, cls, func, n, _enclosing_stmt(m, n)))
    return out


def enum_members(P, cls):
    """ordered (name, value) of an IntEnum-like class whose members are auto() or int literals"""
    out = []
    nxt = 1
    for st in cls.node.body:
        if isinstance(st, ast.Assign) and len(st.targets) == 1 and isinstance(st.targets[0], ast.Name):
            v = st.value
            if isinstance(v, ast.Call) and ast.unparse(v.func) in ('auto', 'enum.auto'):
                val = nxt
            elif isinstance(v, ast.Constant) and isinstance(v.value, (int, float)):
                val = v.value
            elif isinstance(v, ast.UnaryOp) and isinstance(v.op, ast.USub) and isinstance(v.operand, ast.Constant):
                val = -v.operand.value
            else:
                continue
            out.append((st.targets[0].id, val))
            nxt = int(val) + 1 if isinstance(val, (int, float)) else nxt + 1
    return out
