"""L5 -- inventories over the whole package: who stores which attribute, which
container operations are applied to a list-valued field, who calls which method."""
import ast


class Site:
    """a syntactic site with its enclosing function context"""
    __slots__ = ('mod', 'cls', 'func', 'node', 'stmt', 'extra')

    def __init__(self, mod, cls, func, node, stmt=None, extra=None):
        self.mod, self.cls, self.func, self.node, self.stmt, self.extra = mod, cls, func, node, stmt, extra or {}

    @property
    def ctx(self):
        c = self.cls.name if self.cls is not None else '<module>'
        f = self.func.name if self.func is not None else '<top>'
        return f'{c}.{f}'

    @property
    def line(self):
        return getattr(self.node, 'lineno', None)


def functions(P):
    """(mod, cls|None, FunctionDef) for every function of the package, nested defs excluded"""
    for m in P.mods.values():
        for f in m.functions.values():
            yield m, None, f
        for c in m.classes.values():
            for _, _, f in c.all_functions():
                yield m, c, f


def _stmts(fn):
    """every statement node inside fn (including nested blocks, excluding nested defs' bodies)"""
    todo = list(fn.body)
    while todo:
        s = todo.pop()
        yield s
        for ch in ast.iter_child_nodes(s):
            if isinstance(ch, ast.stmt) and not isinstance(ch, (ast.FunctionDef, ast.ClassDef)):
                todo.append(ch)
            elif isinstance(ch, (ast.ExceptHandler,)):
                todo.extend(ch.body)


def attr_stores(P, attr):
    """all stores / deletes / augmented stores to `<anything>.<attr>` (not subscripts of it)"""
    out = []
    for m, c, f in functions(P):
        for n in ast.walk(f):
            if isinstance(n, ast.Attribute) and n.attr == attr and isinstance(n.ctx, (ast.Store, ast.Del)):
                st = _enclosing_stmt(m, n)
                out.append(Site(m, c, f, n, st))
    # class-level / module-level stores
    for m in P.mods.values():
        for n in ast.walk(m.tree):
            if isinstance(n, ast.Attribute) and n.attr == attr and isinstance(n.ctx, (ast.Store, ast.Del)):
                if not any(s.node is n for s in out):
                    out.append(Site(m, None, None, n, _enclosing_stmt(m, n)))
    return out


def _enclosing_stmt(m, n):
    p = n
    while p is not None and not isinstance(p, ast.stmt):
        p = m.parents.get(p)
    return p


def _enclosing_func_cls(P, m, n):
    p = n
    func = None
    cls = None
    while p is not None:
        p = m.parents.get(p)
        if isinstance(p, ast.FunctionDef) and func is None:
            func = p
        if isinstance(p, ast.ClassDef):
            cls = m.classes.get(p.name)
            break
    return cls, func


def attr_uses(P, attr):
    """every occurrence of `<x>.<attr>` in the package with its syntactic role.
    role: one of
      ('store',) ('del',) ('augstore',)
      ('method', name, call)        <x>.attr.name(...)
      ('arg', callee_text, index, call)   f(..., <x>.attr, ...)
      ('subscript-load',) ('subscript-store',) ('subscript-del',)
      ('iter',)   for/comprehension iterable
      ('test',)   truthiness test / boolean operand / compare operand
      ('binop', opname)
      ('return',) ('assign-alias', target_text) ('other', parent type)
    """
    out = []
    for m in P.mods.values():
        par = m.parents
        nodes = [n for n in ast.walk(m.tree) if isinstance(n, ast.Attribute) and n.attr == attr]
        i = 0
        while i < len(nodes):
            n = nodes[i]
            i += 1
            cls, func = _enclosing_func_cls(P, m, n)
            p = par.get(n)
            role = None
            if isinstance(n.ctx, ast.Store):
                role = ('augstore',) if isinstance(p, ast.AugAssign) and p.target is n else ('store',)
            elif isinstance(n.ctx, ast.Del):
                role = ('del',)
            elif isinstance(p, ast.Attribute) and p.value is n:
                pp = par.get(p)
                if isinstance(pp, ast.Call) and pp.func is p:
                    role = ('method', p.attr, pp)
                else:
                    role = ('attr', p.attr)
            elif isinstance(p, ast.Call) and n in p.args:
                role = ('arg', ast.unparse(p.func), p.args.index(n), p)
            elif isinstance(p, ast.Subscript) and p.value is n:
                role = {ast.Load: ('subscript-load',), ast.Store: ('subscript-store',), ast.Del: ('subscript-del',)}[type(p.ctx)]
            elif isinstance(p, (ast.For, ast.comprehension)) and p.iter is n:
                role = ('iter',)
            elif isinstance(p, (ast.While, ast.If, ast.IfExp, ast.Assert)) and p.test is n:
                role = ('test',)
            elif isinstance(p, ast.BoolOp) or (isinstance(p, ast.UnaryOp) and isinstance(p.op, ast.Not)):
                role = ('test',)
            elif isinstance(p, ast.Compare):
                role = ('test',)
            elif isinstance(p, ast.BinOp):
                role = ('binop', type(p.op).__name__)
            elif isinstance(p, ast.Return):
                role = ('return',)
            elif isinstance(p, ast.Assign) and p.value is n:
                role = ('assign-alias', ast.unparse(p.targets[0]))
                # a local that is just another name for the object held in the attribute (cfg.tame_aliases): its uses are uses of the
                # attribute, reported with the roles they have
                if func is not None and isinstance(n, ast.Attribute) and len(p.targets) == 1 and isinstance(p.targets[0], ast.Name):
                    from .cfg import tame_aliases
                    if p.targets[0].id in tame_aliases(func):
                        role = ('alias', p.targets[0].id)
                        for u in ast.walk(func):
                            if isinstance(u, ast.Name) and u.id == p.targets[0].id and isinstance(u.ctx, ast.Load):
                                nodes.append(u)
            elif isinstance(p, ast.AugAssign) and p.value is n:
                role = ('binop', type(p.op).__name__)
            elif isinstance(p, (ast.Tuple, ast.List)) and isinstance(par.get(p), ast.Assign) and par.get(p).value is p and func is not None \
                    and len(par.get(p).targets) == 1 and isinstance(par.get(p).targets[0], (ast.Tuple, ast.List)) and len(par.get(p).targets[0].elts) == len(p.elts):
                # `events, paused = self._events, self._paused_events`: the element-wise form of an alias assignment
                t = par.get(p).targets[0].elts[p.elts.index(n)]
                role = ('assign-alias', ast.unparse(t))
                from .cfg import tame_aliases
                if isinstance(t, ast.Name) and t.id in tame_aliases(func):
                    role = ('alias', t.id)
                    for u in ast.walk(func):
                        if isinstance(u, ast.Name) and u.id == t.id and isinstance(u.ctx, ast.Load):
                            nodes.append(u)
            else:
                role = ('other', type(p).__name__)
            out.append(Site(m, cls, func, n, _enclosing_stmt(m, n), {'role': role}))
    return out


def method_calls(P, name):
    """every call `<recv>.<name>(...)` in the package"""
    out = []
    for m in P.mods.values():
        for n in ast.walk(m.tree):
            if isinstance(n, ast.Call) and isinstance(n.func, ast.Attribute) and n.func.attr == name:
                cls, func = _enclosing_func_cls(P, m, n)
                out.append(Site(m, cls, func, n, _enclosing_stmt(m, n), {'recv': ast.unparse(n.func.value)}))
    return out


def name_calls(P, name):
    out = []
    for m in P.mods.values():
        for n in ast.walk(m.tree):
            if isinstance(n, ast.Call) and isinstance(n.func, ast.Name) and n.func.id == name:
                cls, func = _enclosing_func_cls(P, m, n)
                out.append(Site(m, cls, func, n, _enclosing_stmt(m, n)))
    return out


def enum_members(P, cls):
    """ordered (name, value) of an IntEnum-like class whose members are auto() or int literals"""
    out = []
    nxt = 1
    for st in cls.node.body:
        if isinstance(st, ast.Assign) and len(st.targets) == 1 and isinstance(st.targets[0], ast.Name):
            v = st.value
            if isinstance(v, ast.Call) and ast.unparse(v.func) in ('auto', 'enum.auto'):
                val = nxt
            elif isinstance(v, ast.Constant) and isinstance(v.value, (int, float)):
                val = v.value
            elif isinstance(v, ast.UnaryOp) and isinstance(v.op, ast.USub) and isinstance(v.operand, ast.Constant):
                val = -v.operand.value
            else:
                continue
            out.append((st.targets[0].id, val))
            nxt = int(val) + 1 if isinstance(val, (int, float)) else nxt + 1
    return out


def covered(P, allowed):
    """method names that are in `allowed`, or private helpers (not entry points: not public, never referenced as a value, never called on
    a foreign receiver) every one of whose callers -- through self./super()/Class. calls anywhere in the package -- is itself covered.
    Used by who-may-write rules so that extracting a helper from an allowed method does not change the verdict."""
    from .entries import _scan
    value_refs, foreign_calls = _scan(P)
    callers = {}
    foreign = set()
    foreign_unique = set()
    from .cfg import _unique_methods
    unique = set(_unique_methods(P))
    for m, c, f in functions(P):
        for n in ast.walk(f):
            if isinstance(n, ast.Call) and isinstance(n.func, ast.Attribute):
                v = n.func.value
                is_self = isinstance(v, ast.Name) and (v.id == 'self' or (P.resolve_name(m, v.id) or (None,))[0] == 'class')
                is_super = isinstance(v, ast.Call) and isinstance(v.func, ast.Name) and v.func.id == 'super'
                if is_self or is_super:
                    callers.setdefault(n.func.attr, set()).add(f.name)
                elif n.func.attr in unique:
                    # a call on another object of a method that only one class of the package defines (a state transition moved onto the
                    # object it is about: event._pause(now)) can only reach that method: the caller is a caller of it
                    callers.setdefault(n.func.attr, set()).add(f.name)
                    foreign_unique.add(n.func.attr)
                else:
                    foreign.add(n.func.attr)
    out = set(allowed)
    changed = True
    while changed:
        changed = False
        for h, cs in callers.items():
            if h in out or h.startswith('__') or h in value_refs or h in foreign:
                continue
            if not h.startswith('_') and h not in foreign_unique:
                continue
            if cs and all(c_ in out or c_ == h for c_ in cs) and any(c_ != h for c_ in cs):
                # a foreign call of the same method name elsewhere makes it an entry point -- unless the receiver is a class of the package (static call)
                out.add(h)
                changed = True
    return out


def readonly_param(P, cls, callee_text, index):
    """True if `callee_text` (e.g. 'self._select', 'Environment._select') names a method of `cls` whose parameter receiving the
    positional argument `index` is only read (iterated, measured, tested, indexed) -- so passing a list to it neither mutates the list nor
    lets it escape"""
    parts = callee_text.split('.')
    if len(parts) != 2 or cls is None:
        return False
    if parts[0] != 'self' and parts[0] != cls.name:
        return False
    hit = P.lookup(cls, parts[1])
    if not hit or hit[1] != 'method':
        return False
    fn = hit[2]
    params = [a.arg for a in fn.args.args]
    if parts[1] not in hit[0].static and params and params[0] == 'self':
        params = params[1:]
    par = {}
    for n in ast.walk(fn):
        for ch in ast.iter_child_nodes(n):
            par[ch] = n
    if index >= len(params):
        # `*lists`: the argument is an element of the tuple; it is only read if the tuple is only iterated and every loop variable that
        # receives its elements is itself only read
        if fn.args.vararg is None:
            return False
        names = {fn.args.vararg.arg}
        for n in ast.walk(fn):
            if isinstance(n, ast.Name) and n.id == fn.args.vararg.arg:
                p = par.get(n)
                if not (isinstance(n.ctx, ast.Load) and isinstance(p, (ast.comprehension, ast.For)) and p.iter is n and isinstance(p.target, ast.Name)):
                    return False
                names.add(p.target.id)
        names.discard(fn.args.vararg.arg)
        if not names:
            return False
        pnames = names
    else:
        pnames = {params[index]}
    for n in ast.walk(fn):
        if isinstance(n, ast.Name) and n.id in pnames:
            if isinstance(par.get(n), (ast.comprehension, ast.For)) and par.get(n).target is n:
                continue
            if not isinstance(n.ctx, ast.Load):
                return False
            p = par.get(n)
            ok = (isinstance(p, (ast.comprehension, ast.For)) and p.iter is n) or \
                 (isinstance(p, ast.Call) and isinstance(p.func, ast.Name) and p.func.id in ('len', 'list', 'tuple', 'sorted', 'iter', 'enumerate', 'reversed', 'any', 'all') and n in p.args) or \
                 (isinstance(p, ast.Compare)) or (isinstance(p, ast.Subscript) and p.value is n and isinstance(p.ctx, ast.Load)) or \
                 (isinstance(p, ast.Attribute) and p.attr == 'copy')
            if not ok:
                return False
    return True


def method_writes(P, cls, name, attr, _seen=None):
    """True if method `name` of `cls` stores into self.<attr>[...] / self.<attr> itself or through self./super() helpers"""
    _seen = _seen or set()
    if name in _seen:
        return False
    _seen.add(name)
    hit = P.lookup(cls, name)
    if not hit or hit[1] != 'method':
        return False
    for n in ast.walk(hit[2]):
        if isinstance(n, ast.Subscript) and isinstance(n.ctx, (ast.Store, ast.Del)) and isinstance(n.value, ast.Attribute) and n.value.attr == attr \
                and isinstance(n.value.value, ast.Name) and n.value.value.id == 'self':
            return True
        if isinstance(n, ast.Attribute) and n.attr == attr and isinstance(n.ctx, (ast.Store, ast.Del)) and isinstance(n.value, ast.Name) and n.value.id == 'self':
            return True
        if isinstance(n, ast.Call) and isinstance(n.func, ast.Attribute) and isinstance(n.func.value, ast.Name) and n.func.value.id == 'self':
            if method_writes(P, cls, n.func.attr, attr, _seen):
                return True
    return False


READ_ONLY_CALLEES = {'len', 'any', 'all', 'sum', 'list', 'tuple', 'sorted', 'min', 'max', 'enumerate', 'iter', 'next', 'bool', 'reversed', 'zip', 'filter', 'map', 'set', 'frozenset'}


def flows_to_read_only_local(mod, func, node):
    """the expression `node` is (an operand of a conditional expression / list concatenation that is) assigned to a local of `func`, and that local
    is only ever read: iterated, measured, tested, indexed or handed to a pure builtin -- a query over the data, nothing that could change it
    or let it escape"""
    par = mod.parents
    cur = node
    p = par.get(cur)
    while isinstance(p, (ast.IfExp, ast.BinOp)) and not (isinstance(p, ast.IfExp) and p.test is cur):
        cur, p = p, par.get(p)
    if not (isinstance(p, ast.Assign) and p.value is cur and len(p.targets) == 1 and isinstance(p.targets[0], ast.Name)) or func is None:
        return False
    nm = p.targets[0].id
    if sum(1 for x in ast.walk(func) if isinstance(x, ast.Name) and x.id == nm and isinstance(x.ctx, ast.Store)) != 1:
        return False
    for u in ast.walk(func):
        if not (isinstance(u, ast.Name) and u.id == nm and isinstance(u.ctx, ast.Load)):
            continue
        q = par.get(u)
        ok = (isinstance(q, (ast.For, ast.comprehension)) and q.iter is u) or \
             (isinstance(q, ast.Call) and isinstance(q.func, ast.Name) and q.func.id in READ_ONLY_CALLEES and u in q.args) or \
             (isinstance(q, ast.Compare) and u in q.comparators and all(isinstance(o_, (ast.In, ast.NotIn)) for o_ in q.ops)) or \
             (isinstance(q, ast.Subscript) and q.value is u and isinstance(q.ctx, ast.Load)) or \
             (isinstance(q, (ast.If, ast.While, ast.IfExp)) and q.test is u) or isinstance(q, ast.BoolOp) or (isinstance(q, ast.UnaryOp) and isinstance(q.op, ast.Not))
        if not ok:
            return False
    return True
