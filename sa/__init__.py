"""Static analysis engine for the simprocesd properties (see /verif/DESIGN.md).

Standard library only (ast); nothing under /repo is imported or executed.
"""


class AnalysisError(Exception):
    """The analysis itself cannot proceed (vanished anchor, unsupported syntax).

    Reported as ANALYSIS-ERROR with exit status 2 -- never as a pass and never
    as a VIOLATION."""
