"""Per-element abstract execution of functions that move elements between lists (L10).

The three operations pause / unpause / cancel of the event queue are written, by different authors, as a comprehension plus a loop,
a filtered loop over a copy, a single partition pass with a slice store, a filtered rebuild plus `extend`, a nested loop over a tuple
of lists, through a selector helper ...  What all spellings share is their effect on ONE arbitrary element.  This module executes a
function abstractly for a single tracked element E whose origin (which list of `self` it is in at entry) and whose selection
predicate value are fixed by the caller, and returns, per path, how often E is in every list of `self` at exit, which attributes
of E were written (with fully substituted right-hand sides, E spelled `E_`), in which order these things happened, and a log of
constructs that break order / escape / are not understood.

Domain: list objects carry the multiplicity of E (0, 1, 2 = "more than once") and whether they are an order-preserving subsequence
of one of the lists of `self`; other elements are not represented -- a loop body is probed with an anonymous other element only to
find out whether it can end the loop (break / return) before E is reached.  Conditions that do not depend on E or on the
parameters fork the path.  Helper methods of the same class (self.m(...), Class.m(...)) are inlined.
"""
import ast
from .cfg import foreign_prepass
import copy
import itertools

INSORT = {'bisect.insort', 'bisect.insort_right', 'bisect.insort_left', 'insort', 'insort_right', 'insort_left'}
HEAPPUSH = {'heapq.heappush', 'heappush'}
COPY_FUNCS = {'list', 'tuple', 'sorted', 'reversed', 'iter'}


class LObj:
    __slots__ = ('count', 'ordered_of', 'fresh', 'attr', 'filled_by', 'lazy_src')

    def __init__(self, count=0, ordered_of=frozenset(), fresh=False, attr=None):
        self.count = count
        self.ordered_of = frozenset(ordered_of)   # attrs of self of which this list is an order-preserving subsequence
        self.fresh = fresh                         # created empty; gets its order from the loop that fills it
        self.attr = attr                           # the list *is* self.<attr>
        self.filled_by = None
        self.lazy_src = None                       # a generator / filter object: the id of the list it reads *while it is consumed*

    def clone(self):
        o = LObj(self.count, self.ordered_of, self.fresh, self.attr)
        o.filled_by = self.filled_by
        o.lazy_src = self.lazy_src
        return o


class St:
    """one path state"""

    def __init__(self):
        self.objs = {}        # id -> LObj
        self.attrs = {}       # self attr -> obj id
        self.vars = [{}]      # stack of frames: name -> value
        self.writes = []      # (attr, rhs ast (substituted), seq)
        self.log = []         # (kind, detail, lineno)
        self.seq = 0
        self.events = []      # (seq, what, detail)
        self._next = 0

    def clone(self):
        s = St()
        s.objs = {k: v.clone() for k, v in self.objs.items()}
        s.attrs = dict(self.attrs)
        s.vars = [dict(f) for f in self.vars]
        s.writes = list(self.writes)
        s.log = list(self.log)
        s.seq = self.seq
        s.events = list(self.events)
        s._next = self._next
        return s

    def new_obj(self, **kw):
        self._next += 1
        self.objs[self._next] = LObj(**kw)
        return self._next

    def tick(self, what, detail=None):
        self.seq += 1
        self.events.append((self.seq, what, detail))
        return self.seq


class Unknown(Exception):
    pass


class Interp:
    def __init__(self, P, cls, list_attrs, match, param_name, param_given=True, max_depth=6):
        """match(test_ast, elem_names) -> None | ('m', polarity): recognises the selection predicate on an element variable"""
        self.P = P
        self.cls = cls
        self.list_attrs = list_attrs
        self.match = match
        self.param_name = param_name
        self.param_given = param_given
        self.max_depth = max_depth
        self.loop_now = []      # stack of (iter obj id, loop ast) of the loops being executed (mutation while iterating)

    # ---- values -----------------------------------------------------------------------------------------------------------
    # ('list', oid) ('elem',) ('other', m) ('tuple', [values]) ('opaque', ast|None) ('none',) ('param',)

    def lookup(self, st, name):
        return st.vars[-1].get(name)

    def subst(self, st, e):
        """expression with element variables spelled E_, opaque single-value locals replaced by their definitions"""
        me = self

        class T(ast.NodeTransformer):
            def visit_Name(self, n):
                v = me.lookup(st, n.id)
                if v is None:
                    return n
                if v[0] == 'elem':
                    return ast.copy_location(ast.Name('E_', ast.Load()), n)
                if v[0] == 'opaque' and v[1] is not None:
                    return copy.deepcopy(v[1])
                return n
        return T().visit(copy.deepcopy(e))

    def ev(self, st, e, depth=0):
        """-> list of (state, value): evaluation may fork (helper calls)"""
        if isinstance(e, ast.Name):
            v = self.lookup(st, e.id)
            if v is not None:
                return [(st, v)]
            return [(st, ('opaque', e))]
        if isinstance(e, ast.Constant):
            return [(st, ('none',) if e.value is None else ('opaque', e))]
        if isinstance(e, ast.Attribute) and isinstance(e.value, ast.Name) and e.value.id == 'self' and e.attr in st.attrs:
            return [(st, ('list', st.attrs[e.attr]))]
        if isinstance(e, (ast.List, ast.Tuple)):
            if not e.elts:
                return [(st, ('list', st.new_obj(count=0, fresh=True)))]
            outs = [(st, [])]
            for x in e.elts:
                nxt = []
                for s, acc in outs:
                    for s2, v in self.ev(s, x, depth):
                        nxt.append((s2, acc + [v]))
                outs = nxt
            res = []
            for s, vals in outs:
                if all(v[0] in ('elem', 'other') for v in vals):
                    res.append((s, ('list', s.new_obj(count=sum(1 for v in vals if v[0] == 'elem')))))
                else:
                    res.append((s, ('tuple', vals)))
            return res
        if isinstance(e, ast.BinOp) and isinstance(e.op, ast.Add):
            out = []
            for s, a in self.ev(st, e.left, depth):
                for s2, b in self.ev(s, e.right, depth):
                    if a[0] == 'list' and b[0] == 'list':
                        A, B = s2.objs[a[1]], s2.objs[b[1]]
                        out.append((s2, ('list', s2.new_obj(count=min(2, A.count + B.count)))))
                    else:
                        out.append((s2, ('opaque', self.subst(s2, e))))
            return out
        if isinstance(e, ast.Subscript) and isinstance(e.slice, ast.Slice) and e.slice.lower is None and e.slice.upper is None and e.slice.step is None:
            out = []
            for s, v in self.ev(st, e.value, depth):
                out.append((s, self._copy_of(s, v)))
            return out
        if isinstance(e, (ast.ListComp, ast.GeneratorExp)) and len(e.generators) == 1:
            return self._comp(st, e, depth, lazy=isinstance(e, ast.GeneratorExp))
        if isinstance(e, (ast.ListComp, ast.GeneratorExp)) and len(e.generators) == 2 and isinstance(e.generators[0].target, ast.Name) \
                and not e.generators[0].ifs and isinstance(e.generators[1].iter, ast.Name) and e.generators[1].iter.id == e.generators[0].target.id:
            # [x for lst in (L1, L2, ...) for x in lst if c]: the comprehension over L1 + L2 + ...
            out = []
            for s, tv in self.ev(st, e.generators[0].iter, depth):
                if tv[0] == 'tuple' and tv[1] and all(v[0] == 'list' for v in tv[1]):
                    cnt = min(2, sum(s.objs[v[1]].count for v in tv[1]))
                    ordered = set()
                    if len(tv[1]) == 1:
                        o1 = s.objs[tv[1][0][1]]
                        ordered = set(o1.ordered_of) | ({o1.attr} if o1.attr is not None else set())
                    cat = ('list', s.new_obj(count=cnt, ordered_of=ordered))
                    inner = ast.copy_location(type(e)(elt=e.elt, generators=[e.generators[1]]), e)
                    out += self._comp(s, inner, depth, src_value=cat)
                elif tv[0] == 'tuple' and not tv[1]:
                    out.append((s, ('list', s.new_obj(count=0, fresh=True))))
                else:
                    out.append((s, ('opaque', self.subst(s, e))))
            return out
        if isinstance(e, ast.Call):
            f = e.func
            ftxt = ast.unparse(f)
            if isinstance(f, ast.Name) and f.id in COPY_FUNCS and len(e.args) == 1:
                out = []
                for s, v in self.ev(st, e.args[0], depth):
                    c = self._copy_of(s, v)
                    if c[0] == 'list' and f.id in ('sorted', 'reversed'):
                        s.objs[c[1]].ordered_of = frozenset()
                    if c[0] == 'list' and v[0] == 'list' and f.id in ('reversed', 'iter'):
                        s.objs[c[1]].lazy_src = s.objs[v[1]].lazy_src or v[1]       # iterators: not copies
                    out.append((s, c))
                return out
            if isinstance(f, ast.Attribute) and f.attr == 'copy' and not e.args:
                return [(s, self._copy_of(s, v)) for s, v in self.ev(st, f.value, depth)]
            if isinstance(f, ast.Name) and f.id == 'filter' and len(e.args) == 2 and isinstance(e.args[0], ast.Lambda) and len(e.args[0].args.args) == 1:
                lam = e.args[0]
                comp = ast.ListComp(elt=ast.Name(lam.args.args[0].arg, ast.Load()),
                                    generators=[ast.comprehension(target=ast.Name(lam.args.args[0].arg, ast.Store()), iter=e.args[1], ifs=[lam.body], is_async=0)])
                return self._comp(st, ast.copy_location(comp, e), depth, lazy=True)     # filter() reads its source while it is consumed
            if ftxt in ('itertools.chain', 'chain'):
                be = None
                for a in e.args:
                    be = a if be is None else ast.BinOp(be, ast.Add(), a)
                if be is not None:
                    return self.ev(st, ast.copy_location(be, e), depth)
            h = self._helper(f)
            if h is not None:
                return self._call(st, e, h, depth)
            # an unknown call that receives one of the lists lets it escape
            for a in list(e.args) + [k.value for k in e.keywords]:
                for s, v in self.ev(st, a, depth):
                    if v[0] == 'list' and s.objs[v[1]].attr is not None and not (isinstance(f, ast.Name) and f.id in ('len', 'any', 'all', 'bool', 'enumerate', 'print', 'str', 'repr', 'min', 'max', 'sum')) \
                            and ftxt not in ('bisect.bisect', 'bisect.bisect_right', 'bisect.bisect_left', 'bisect_right', 'bisect_left'):
                        st.log.append(('escape', ftxt, getattr(e, 'lineno', None)))
            return [(st, ('opaque', self.subst(st, e)))]
        return [(st, ('opaque', self.subst(st, e)))]

    def _copy_of(self, s, v):
        if v[0] == 'list':
            o = s.objs[v[1]]
            ordered = set(o.ordered_of)
            if o.attr is not None:
                ordered.add(o.attr)
            return ('list', s.new_obj(count=o.count, ordered_of=ordered))
        return ('opaque', None)

    def _comp(self, st, e, depth, src_value=None, lazy=False):
        out = self._comp_eager(st, e, depth, src_value)
        if lazy and src_value is None:
            # a generator expression / filter object is not a copy: it walks its source list while the consumer runs, so a consumer
            # that edits the source list skips or repeats elements (the list value produced here stands for the elements it *would* yield)
            for s, v in out:
                if v[0] == 'list':
                    for s0, src in self.ev(s.clone(), e.generators[0].iter, depth):
                        if src[0] == 'list':
                            s.objs[v[1]].lazy_src = s.objs[src[1]].lazy_src or src[1]
                        break
        return out

    def _comp_eager(self, st, e, depth, src_value=None):
        gen = e.generators[0]
        out = []
        for s, src in ([(st, src_value)] if src_value is not None else self.ev(st, gen.iter, depth)):
            if src[0] != 'list' or not isinstance(gen.target, ast.Name):
                out.append((s, ('opaque', self.subst(s, e))))
                continue
            o = s.objs[src[1]]
            ordered = set(o.ordered_of)
            if o.attr is not None:
                ordered.add(o.attr)
            elt_is_target = isinstance(e.elt, ast.Name) and e.elt.id == gen.target.id
            if not elt_is_target:
                out.append((s, ('opaque', self.subst(s, e))))
                continue
            if o.count == 0:
                out.append((s, ('list', s.new_obj(count=0, ordered_of=ordered))))
                continue
            s.vars[-1] = dict(s.vars[-1])
            saved = s.vars[-1].get(gen.target.id)
            s.vars[-1][gen.target.id] = ('elem',)
            branches = [(s, True)]
            for c in gen.ifs:
                nxt = []
                for s_, keep in branches:
                    if not keep:
                        nxt.append((s_, False))
                        continue
                    for s2, t in self.cond(s_, c, depth):
                        nxt.append((s2, t))
                branches = nxt
            for s_, keep in branches:
                if saved is None:
                    s_.vars[-1].pop(gen.target.id, None)
                else:
                    s_.vars[-1][gen.target.id] = saved
                out.append((s_, ('list', s_.new_obj(count=o.count if keep else 0, ordered_of=ordered))))
        return out

    def _helper(self, f):
        if isinstance(f, ast.Attribute) and isinstance(f.value, ast.Name) and f.value.id in ('self', self.cls.name):
            hit = self.P.lookup(self.cls, f.attr)
            if hit and hit[1] == 'method':
                return hit
        return None

    def _call(self, st, call, hit, depth):
        """inline a helper of the same class: -> [(state, return value)]"""
        if depth >= self.max_depth:
            st.log.append(('unrecognised', 'helper nesting too deep: ' + ast.unparse(call.func), getattr(call, 'lineno', None)))
            return [(st, ('opaque', None))]
        fn = hit[2]
        params = [a.arg for a in fn.args.args]
        if fn.name not in hit[0].static and params[:1] == ['self']:
            params = params[1:]
        defaults = dict(zip(reversed(params), reversed(fn.args.defaults)))
        argexprs = {}
        for p_, a in zip(params, call.args):
            argexprs[p_] = a
        for kw in call.keywords:
            if kw.arg:
                argexprs[kw.arg] = kw.value
        outs = [(st, {})]
        if fn.args.vararg is not None:
            # *rest receives the remaining positional arguments as a tuple
            extra = call.args[len(params):]
            if any(isinstance(a, ast.Starred) for a in call.args):
                st.log.append(('unrecognised', 'starred argument in a call of ' + ast.unparse(call.func), getattr(call, 'lineno', None)))
                return [(st, ('opaque', None))]
            nxt0 = []
            for s, b in outs:
                accs = [(s, [])]
                for a in extra:
                    accs = [(s2, acc + [v]) for s1, acc in accs for s2, v in self.ev(s1, a, depth)]
                for s2, acc in accs:
                    nxt0.append((s2, dict(b, **{fn.args.vararg.arg: ('tuple', acc)})))
            outs = nxt0
        for p_ in params:
            nxt = []
            for s, b in outs:
                if p_ in argexprs:
                    for s2, v in self.ev(s, argexprs[p_], depth):
                        nxt.append((s2, dict(b, **{p_: v})))
                elif p_ in defaults:
                    for s2, v in self.ev(s, defaults[p_], depth):
                        nxt.append((s2, dict(b, **{p_: v})))
                else:
                    nxt.append((s, dict(b, **{p_: ('opaque', None)})))
            outs = nxt
        res = []
        for s, b in outs:
            # the parameter that receives the asset id keeps its meaning
            frame = {}
            for k, v in b.items():
                frame[k] = v
            s.vars.append(frame)
            for s2, flow, val in self.block(s, foreign_prepass(self.P, fn), depth + 1):
                s2.vars.pop()
                res.append((s2, val if flow == 'return' and val is not None else ('none',)))
        return res

    # ---- conditions -----------------------------------------------------------------------------------------------------------
    def cond(self, st, t, depth=0):
        """-> [(state, bool)]; unknown conditions fork"""
        if isinstance(t, ast.UnaryOp) and isinstance(t.op, ast.Not):
            return [(s, not b) for s, b in self.cond(st, t.operand, depth)]
        if isinstance(t, ast.BoolOp):
            is_and = isinstance(t.op, ast.And)
            outs = [(st, is_and)]
            for v in t.values:
                nxt = []
                for s, acc in outs:
                    if acc != is_and:      # short-circuited
                        nxt.append((s, acc))
                        continue
                    for s2, b in self.cond(s, v, depth):
                        nxt.append((s2, b))
                outs = nxt
            return outs
        if isinstance(t, ast.Constant):
            return [(st, bool(t.value))]
        k = self._known(st, t)
        if k is not None:
            return [(st, k)]
        if isinstance(t, ast.Call) and self._helper(t.func) is not None:
            out = []
            for s, v in self._call(st, t, self._helper(t.func), depth):
                if v[0] == 'opaque' and isinstance(v[1], ast.Constant) and isinstance(v[1].value, bool):
                    out.append((s, v[1].value))
                elif v[0] == 'bool':
                    out.append((s, v[1]))
                else:
                    out.append((s.clone(), True))
                    out.append((s, False))
            return out
        # unknown: fork
        return [(st.clone(), True), (st, False)]

    def _is_param(self, st, e):
        if isinstance(e, ast.Name):
            v = self.lookup(st, e.id)
            return v is not None and v[0] == 'param'
        return False

    def _known(self, st, t):
        elems = {n for n, v in st.vars[-1].items() if v[0] == 'elem'}
        others = {n: v[1] for n, v in st.vars[-1].items() if v[0] == 'other'}
        params = {n for n, v in st.vars[-1].items() if v[0] == 'param'}
        m = self.match(t, elems, params)
        if m is not None:
            return m
        for name, mval in others.items():
            m = self.match(t, {name}, params, value=mval)
            if m is not None:
                return m
        if isinstance(t, ast.Compare) and len(t.ops) == 1:
            a, b, op = t.left, t.comparators[0], t.ops[0]
            # len(A) ==/!= len(B) where A is a selection of B: if the tracked element is in B but not in A the lengths differ
            if isinstance(op, (ast.Eq, ast.NotEq)) and all(isinstance(x, ast.Call) and isinstance(x.func, ast.Name) and x.func.id == 'len' and len(x.args) == 1 for x in (a, b)):
                va = self.ev(st, a.args[0])
                vb = self.ev(st, b.args[0])
                if len(va) == 1 and len(vb) == 1 and va[0][1][0] == 'list' and vb[0][1][0] == 'list':
                    A, B = st.objs[va[0][1][1]], st.objs[vb[0][1][1]]
                    for small, big in ((A, B), (B, A)):
                        if big.attr is not None and big.attr in small.ordered_of and small.count < big.count:
                            return isinstance(op, ast.NotEq)
            for x, y in ((a, b), (b, a)):
                if self._is_param(st, x) and isinstance(y, ast.Constant) and y.value is None:
                    if isinstance(op, (ast.Eq, ast.Is)):
                        return not self.param_given
                    if isinstance(op, (ast.NotEq, ast.IsNot)):
                        return self.param_given
            if isinstance(op, (ast.In, ast.NotIn)) and isinstance(a, ast.Name) and self.lookup(st, a.id) in (('elem',),):
                for s, v in self.ev(st, b):
                    if v[0] == 'list':
                        inside = s.objs[v[1]].count > 0
                        return inside if isinstance(op, ast.In) else not inside
        if self._is_param(st, t):
            return None if self.param_given else False
        return None

    # ---- statements -----------------------------------------------------------------------------------------------------------
    def block(self, st, stmts, depth=0):
        """-> [(state, flow, value)] with flow in next/break/continue/return"""
        states = [(st, 'next', None)]
        for stmt in stmts:
            nxt = []
            for s, flow, val in states:
                if flow != 'next':
                    nxt.append((s, flow, val))
                    continue
                nxt.extend(self.stmt(s, stmt, depth))
            states = nxt
            if len(states) > 4000:
                raise Unknown('path explosion')
        return states

    def _list_of(self, st, e, depth):
        """[(state, LObj id | None)]"""
        return [(s, v[1] if v[0] == 'list' else None) for s, v in self.ev(st, e, depth)]

    def _touch(self, s, oid, how, line):
        for it, loop in self.loop_now:
            if it == oid or (it in s.objs and s.objs[it].lazy_src == oid):
                s.log.append(('mutate-while-iterating', f'{how} on the list being iterated', line))
        o = s.objs[oid]
        if o.attr is not None:
            s.tick(how, o.attr)

    def _elem_kind(self, st, e):
        if isinstance(e, ast.Name):
            v = self.lookup(st, e.id)
            if v is not None and v[0] in ('elem', 'other'):
                return v[0]
        return None

    def _append(self, s, oid, what, e, line, in_order=True):
        o = s.objs[oid]
        k = self._elem_kind(s, e)
        if k is None:
            s.log.append(('unrecognised', f'{what} of something that is not the element of the enclosing loop', line))
            return
        self._touch(s, oid, what, line)
        if k == 'elem':
            o.count = min(2, o.count + 1)
        # order bookkeeping: a fresh list filled in ONE loop over an ordered source, by tail appends, is an ordered subsequence
        cur = self.loop_now[-1] if self.loop_now else None
        if in_order and cur is not None and (o.fresh or o.filled_by is cur[1]) and (o.filled_by is None or o.filled_by is cur[1]):
            src = s.objs[cur[0]] if cur[0] in s.objs else None
            if src is not None:
                ordered = set(src.ordered_of)
                if src.attr is not None:
                    ordered.add(src.attr)
                o.ordered_of = frozenset(ordered) if o.filled_by is None else (o.ordered_of & frozenset(ordered))
                o.filled_by = cur[1]
                o.fresh = False
                return
        o.ordered_of = frozenset()
        o.fresh = False

    def stmt(self, st, stmt, depth):
        line = getattr(stmt, 'lineno', None)
        if isinstance(stmt, (ast.Pass, ast.Global, ast.Nonlocal, ast.FunctionDef, ast.Import, ast.ImportFrom, ast.Assert)):
            return [(st, 'next', None)]
        if isinstance(stmt, ast.Expr) and isinstance(stmt.value, ast.Constant):
            return [(st, 'next', None)]
        if isinstance(stmt, ast.Return):
            if stmt.value is None:
                return [(st, 'return', None)]
            if isinstance(stmt.value, (ast.Compare, ast.BoolOp)) or (isinstance(stmt.value, ast.UnaryOp) and isinstance(stmt.value.op, ast.Not)):
                return [(s, 'return', ('bool', b)) for s, b in self.cond(st, stmt.value, depth)]
            return [(s, 'return', v) for s, v in self.ev(st, stmt.value, depth)]
        if isinstance(stmt, ast.Break):
            return [(st, 'break', None)]
        if isinstance(stmt, ast.Continue):
            return [(st, 'continue', None)]
        if isinstance(stmt, ast.If):
            out = []
            for s, b in self.cond(st, stmt.test, depth):
                out.extend(self.block(s, stmt.body if b else stmt.orelse, depth))
            return out
        if isinstance(stmt, ast.For):
            return self._for(st, stmt, depth)
        if isinstance(stmt, ast.While):
            st.log.append(('unrecognised', 'while loop', line))
            return [(st, 'next', None)]
        if isinstance(stmt, ast.With):
            return self.block(st, stmt.body, depth)
        if isinstance(stmt, ast.Try):
            out = []
            for s, flow, val in self.block(st, stmt.body, depth):
                if flow == 'next':
                    for r in self.block(s, stmt.orelse + stmt.finalbody, depth):
                        out.append(r)
                else:
                    out.append((s, flow, val))
            return out
        if isinstance(stmt, ast.Assign) and len(stmt.targets) == 1:
            return self._assign(st, stmt.targets[0], stmt.value, stmt, depth)
        if isinstance(stmt, ast.AnnAssign) and stmt.value is not None:
            return self._assign(st, stmt.target, stmt.value, stmt, depth)
        if isinstance(stmt, ast.AugAssign):
            t = stmt.target
            if isinstance(t, ast.Attribute) and self._elem_kind(st, t.value):
                load = ast.Attribute(t.value, t.attr, ast.Load())
                return self._assign(st, t, ast.BinOp(load, stmt.op, stmt.value), stmt, depth)
            out = []
            for s, oid in self._list_of(st, t if not isinstance(t, ast.Name) else ast.Name(t.id, ast.Load()), depth):
                if oid is None:
                    if isinstance(t, ast.Name):
                        s.vars[-1][t.id] = ('opaque', None)
                    out.append((s, 'next', None))
                    continue
                for s2, xid in self._list_of(s, stmt.value, depth):
                    if isinstance(stmt.op, ast.Add) and xid is not None:
                        self._touch(s2, oid, 'extend', line)
                        o = s2.objs[oid]
                        o.count = min(2, o.count + s2.objs[xid].count)
                        if o.attr is not None and o.attr in self.ordered_attrs:
                            s2.log.append(('unordered', f'`{ast.unparse(stmt)[:60]}` appends to the sorted list', line))
                        o.ordered_of = frozenset()
                    else:
                        s2.log.append(('unrecognised', ast.unparse(stmt)[:60], line))
                    out.append((s2, 'next', None))
            return out
        if isinstance(stmt, ast.Delete):
            out = [(st, 'next', None)]
            for t in stmt.targets:
                if isinstance(t, ast.Subscript):
                    nxt = []
                    for s, _, _ in out:
                        for s2, oid in self._list_of(s, t.value, depth):
                            if oid is None:
                                nxt.append((s2, 'next', None))
                                continue
                            self._touch(s2, oid, 'del', line)
                            o = s2.objs[oid]
                            if o.count > 0:
                                s3 = s2.clone()
                                s3.objs[oid].count -= 1
                                nxt.append((s3, 'next', None))
                            nxt.append((s2, 'next', None))
                    out = nxt
            return out
        if isinstance(stmt, ast.Expr) and isinstance(stmt.value, ast.Call):
            return self._call_stmt(st, stmt.value, stmt, depth)
        if isinstance(stmt, ast.Expr):
            return [(st, 'next', None)]
        if isinstance(stmt, ast.Raise):
            return [(st, 'raise', None)]
        st.log.append(('unrecognised', type(stmt).__name__, line))
        return [(st, 'next', None)]

    ordered_attrs = ()

    def _assign(self, st, target, value, stmt, depth):
        line = getattr(stmt, 'lineno', None)
        out = []
        if isinstance(target, ast.Name):
            if isinstance(value, (ast.Compare, ast.BoolOp)) or (isinstance(value, ast.UnaryOp) and isinstance(value.op, ast.Not)):
                # a boolean local: keep it symbolic (its definition is substituted where it is tested)
                st.vars[-1][target.id] = ('opaque', self.subst(st, value))
                return [(st, 'next', None)]
            for s, v in self.ev(st, value, depth):
                s.vars[-1][target.id] = v
                out.append((s, 'next', None))
            return out
        if isinstance(target, ast.Tuple) and isinstance(value, ast.Tuple) and len(target.elts) == len(value.elts):
            states = [(st, 'next', None)]
            for t, v in zip(target.elts, value.elts):
                nxt = []
                for s, _, _ in states:
                    nxt.extend(self._assign(s, t, v, stmt, depth))
                states = nxt
            return states
        if isinstance(target, ast.Attribute) and isinstance(target.value, ast.Name):
            k = self._elem_kind(st, target.value)
            if k == 'elem':
                rhs = self.subst(st, value)
                seq = st.tick('write', target.attr)
                st.writes.append((target.attr, rhs, seq, line))
                return [(st, 'next', None)]
            if k == 'other':
                return [(st, 'next', None)]
            if target.value.id == 'self' and target.attr in st.attrs:
                for s, v in self.ev(st, value, depth):
                    if v[0] == 'list':
                        s.log.append(('rebind', target.attr, line))
                        s.tick('rebind', target.attr)
                        new = s.objs[v[1]].clone()
                        new.attr = target.attr
                        s.objs[s.attrs[target.attr]].attr = None
                        s._next += 1
                        s.objs[s._next] = new
                        s.attrs[target.attr] = s._next
                    else:
                        s.log.append(('unrecognised', ast.unparse(stmt)[:60], line))
                    out.append((s, 'next', None))
                return out
            return [(st, 'next', None)]
        if isinstance(target, ast.Subscript):
            full = isinstance(target.slice, ast.Slice) and target.slice.lower is None and target.slice.upper is None and target.slice.step is None
            for s, oid in self._list_of(st, target.value, depth):
                if oid is None:
                    out.append((s, 'next', None))
                    continue
                if not full:
                    s.log.append(('unordered' if s.objs[oid].attr in self.ordered_attrs else 'unrecognised', f'item/slice store `{ast.unparse(stmt)[:60]}`', line))
                    out.append((s, 'next', None))
                    continue
                for s2, v in self.ev(s, value, depth):
                    o = s2.objs[oid]
                    if v[0] != 'list':
                        s2.log.append(('unrecognised', f'`{ast.unparse(stmt)[:60]}`', line))
                    else:
                        x = s2.objs[v[1]]
                        self._touch(s2, oid, 'slice-store', line)
                        o.count = x.count
                        if o.attr is not None and o.attr in self.ordered_attrs and o.attr not in x.ordered_of and not (x.fresh and x.count == 0):
                            s2.log.append(('unordered', f'`{ast.unparse(stmt)[:60]}`: the new content is not an order-preserving selection of the old one', line))
                    out.append((s2, 'next', None))
            return out
        st.log.append(('unrecognised', ast.unparse(stmt)[:60], line))
        return [(st, 'next', None)]

    def _call_stmt(self, st, call, stmt, depth):
        line = getattr(stmt, 'lineno', None)
        f = call.func
        ftxt = ast.unparse(f)
        out = []
        if ftxt in INSORT | HEAPPUSH and len(call.args) >= 2:
            for s, oid in self._list_of(st, call.args[0], depth):
                if oid is None:
                    s.log.append(('unrecognised', ast.unparse(call)[:60], line))
                else:
                    k = self._elem_kind(s, call.args[1])
                    if k is None:
                        s.log.append(('unrecognised', 'sorted insertion of something that is not the loop element', line))
                    else:
                        self._touch(s, oid, 'heappush' if ftxt in HEAPPUSH else 'insort', line)
                        if k == 'elem':
                            s.objs[oid].count = min(2, s.objs[oid].count + 1)
                out.append((s, 'next', None))
            return out
        if isinstance(f, ast.Attribute):
            recv_states = self._list_of(st, f.value, depth) if not (isinstance(f.value, ast.Name) and f.value.id in ('self', self.cls.name)) else [(st, None)]
            for s, oid in recv_states:
                if oid is None:
                    h = self._helper(f)
                    if h is not None:
                        for s2, v in self._call(s, call, h, depth):
                            out.append((s2, 'next', None))
                    else:
                        self.ev(s, call, depth)      # escape check
                        out.append((s, 'next', None))
                    continue
                o = s.objs[oid]
                name = f.attr
                if name == 'append' and len(call.args) == 1:
                    if o.attr is not None and o.attr in self.ordered_attrs:
                        s.log.append(('unordered', f'.append() on the sorted list', line))
                    self._append(s, oid, 'append', call.args[0], line)
                elif name == 'insert' and len(call.args) == 2 and self._bisect_index(s, call, f.value):
                    k = self._elem_kind(s, call.args[1])
                    if k is None:
                        s.log.append(('unrecognised', 'sorted insertion of something that is not the loop element', line))
                    else:
                        self._touch(s, oid, 'insort', line)
                        if k == 'elem':
                            o.count = min(2, o.count + 1)
                elif name in ('insert', 'appendleft') and call.args:
                    if o.attr is not None and o.attr in self.ordered_attrs:
                        s.log.append(('unordered', f'.{name}() on the sorted list', line))
                    self._append(s, oid, name, call.args[-1], line, in_order=False)
                elif name == 'add' and len(call.args) == 1:
                    self._append(s, oid, 'add', call.args[0], line, in_order=False)
                elif name == 'remove' and len(call.args) == 1:
                    k = self._elem_kind(s, call.args[0])
                    if k is None:
                        s.log.append(('unrecognised', 'removal of something that is not the loop element', line))
                    else:
                        self._touch(s, oid, 'remove', line)
                        if k == 'elem':
                            if o.count == 0:
                                s.log.append(('raises', 'remove() of an element that is not in the list', line))
                            else:
                                o.count -= 1
                elif name == 'extend' and len(call.args) == 1:
                    for s2, xid in self._list_of(s, call.args[0], depth):
                        if xid is None:
                            s2.log.append(('unrecognised', ast.unparse(call)[:60], line))
                        else:
                            self._touch(s2, oid, 'extend', line)
                            o2 = s2.objs[oid]
                            o2.count = min(2, o2.count + s2.objs[xid].count)
                            if o2.attr is not None and o2.attr in self.ordered_attrs:
                                s2.log.append(('unordered', '.extend() on the sorted list', line))
                            o2.ordered_of = frozenset()
                        out.append((s2, 'next', None))
                    continue
                elif name == 'clear' and not call.args:
                    self._touch(s, oid, 'clear', line)
                    o.count = 0
                elif name == 'pop':
                    self._touch(s, oid, 'pop', line)
                    if o.count > 0:
                        s3 = s.clone()
                        s3.objs[oid].count -= 1
                        out.append((s3, 'next', None))
                elif name in ('sort', 'reverse'):
                    self._touch(s, oid, name, line)
                    if o.attr is not None and o.attr in self.ordered_attrs:
                        s.log.append(('unordered', f'.{name}() on the sorted list', line))
                    o.ordered_of = frozenset()
                elif name in ('index', 'count', 'copy'):
                    pass
                else:
                    s.log.append(('unrecognised', f'.{name}() on a list', line))
                out.append((s, 'next', None))
            return out
        h = self._helper(f)
        if h is not None:
            return [(s, 'next', None) for s, v in self._call(st, call, h, depth)]
        self.ev(st, call, depth)
        return [(st, 'next', None)]

    def _bisect_index(self, s, call, recv):
        """is the position argument of `recv.insert(i, x)` the bisect position of x in recv (directly or through a local)?"""
        idx = call.args[0]
        if isinstance(idx, ast.Name):
            v = self.lookup(s, idx.id)
            idx = v[1] if v is not None and v[0] == 'opaque' and v[1] is not None else idx
        if not (isinstance(idx, ast.Call) and ast.unparse(idx.func) in ('bisect.bisect', 'bisect.bisect_right', 'bisect.bisect_left', 'bisect', 'bisect_right', 'bisect_left')
                and len(idx.args) == 2):
            return False
        a0 = self.subst(s, idx.args[0]) if not isinstance(idx.args[0], ast.Attribute) else idx.args[0]
        return ast.unparse(a0) == ast.unparse(recv) and ast.unparse(self.subst(s, idx.args[1])) == ast.unparse(self.subst(s, call.args[1]))

    def _for(self, st, loop, depth):
        line = loop.lineno
        out = []
        for s, itv in self.ev(st, loop.iter, depth):
            if itv[0] == 'tuple':
                states = [(s, 'next', None)]
                for v in itv[1]:
                    nxt = []
                    for s2, flow, val in states:
                        if flow != 'next':
                            nxt.append((s2, flow, val))
                            continue
                        for r in self._bind_target(s2, loop.target, v):
                            if v[0] == 'list' and isinstance(loop.target, ast.Name):
                                pass
                            for s3, fl, vv in self.block(r, loop.body, depth):
                                if fl == 'continue':
                                    fl = 'next'
                                nxt.append((s3, fl, vv))
                    states = nxt
                for s2, flow, val in states:
                    if flow == 'break':
                        out.append((s2, 'next', None))
                    elif flow == 'next':
                        out.extend(self.block(s2, loop.orelse, depth))
                    else:
                        out.append((s2, flow, val))
                continue
            if itv[0] != 'list' or not isinstance(loop.target, ast.Name):
                if itv[0] == 'opaque':
                    # a loop over something that is not one of the lists (callbacks, ranges): body effects on lists are not element-wise
                    touches = any(isinstance(n, ast.Attribute) and isinstance(n.value, ast.Name) and n.value.id == 'self' and n.attr in s.attrs for n in ast.walk(loop))
                    if touches:
                        s.log.append(('unrecognised', f'loop over `{ast.unparse(loop.iter)[:40]}` touches the lists', line))
                else:
                    s.log.append(('unrecognised', f'loop over `{ast.unparse(loop.iter)[:40]}`', line))
                out.append((s, 'next', None))
                continue
            oid = itv[1]
            v = loop.target.id
            self.loop_now.append((oid, loop))
            try:
                # can an iteration for another element end the loop before E is reached?
                early = set()
                for m in (True, False):
                    probe = s.clone()
                    probe.vars[-1][v] = ('other', m)
                    try:
                        for s2, flow, val in self.block(probe, loop.body, depth):
                            if flow in ('break', 'return', 'raise'):
                                early.add(flow)
                            # whatever the body does for another element is recorded in the log of the real path too
                            for entry in s2.log[len(s.log):]:
                                if entry not in s.log:
                                    s.log.append(entry)
                            # ... and a fresh list that the body fills for other elements is, on the real path too, a selection of
                            # the iterated list in its order (even if the tracked element itself is never put into it)
                            for oid2, o2 in s2.objs.items():
                                o1 = s.objs.get(oid2)
                                if o1 is not None and o1.fresh and not o2.fresh and o2.filled_by is loop:
                                    o1.fresh, o1.filled_by, o1.ordered_of = False, loop, o2.ordered_of
                    except Unknown:
                        s.log.append(('unrecognised', 'loop body', line))
                if s.objs[oid].count == 0:
                    results = [(s, 'next', None)]
                else:
                    if early:
                        s.log.append(('early-exit', f'the loop can end ({"/".join(sorted(early))}) before every element was visited', line))
                    s.vars[-1][v] = ('elem',)
                    results = []
                    for s2, flow, val in self.block(s, loop.body, depth):
                        results.append((s2, 'next' if flow == 'continue' else flow, val))
                for s2, flow, val in results:
                    s2.vars[-1].pop(v, None)
                    if flow == 'break':
                        out.append((s2, 'next', None))
                    elif flow == 'next':
                        self.loop_now.pop()
                        try:
                            out.extend(self.block(s2, loop.orelse, depth))
                        finally:
                            self.loop_now.append((oid, loop))
                    else:
                        out.append((s2, flow, val))
            finally:
                self.loop_now.pop()
        return out

    def _bind_target(self, s, target, v):
        if isinstance(target, ast.Name):
            s.vars[-1][target.id] = v
            return [s]
        return [s]


def run(P, cls, method, list_attrs, ordered_attrs, match, origin, param_given=True):
    """execute cls.method for one element that is in self.<origin> at entry -> list of path summaries"""
    dk, fn = P.method(cls, method)
    params = [a.arg for a in fn.args.args][1:]
    it = Interp(P, cls, list_attrs, match, params[0] if params else None, param_given)
    it.ordered_attrs = tuple(ordered_attrs)
    st = St()
    for a in list_attrs:
        st.attrs[a] = st.new_obj(count=1 if a == origin else 0, attr=a)
    for i, p_ in enumerate(params):
        st.vars[-1][p_] = ('param',) if i == 0 else ('opaque', None)
    res = []
    for s, flow, val in it.block(st, foreign_prepass(P, fn)):
        res.append({
            'counts': {a: s.objs[s.attrs[a]].count for a in list_attrs},
            'writes': s.writes,
            'log': s.log,
            'events': s.events,
            'flow': flow,
        })
    return res
