"""Computed entry points per concrete class.

An entry point of class C is a method or property setter that code outside the
receiver's own `self.`/`super()` call chains can invoke:
  public       -- name without a leading underscore
  setter       -- property setter
  action       -- referenced as a value somewhere in the package (`self._m` passed to
                  schedule_event / partial / registered as a callback)
  foreign      -- underscore method called on a non-self receiver somewhere in the package
Private helpers that are only called through self./super() are internal and are
analysed inlined in the context of their callers.
"""
import ast


def _scan(P):
    if hasattr(P, '_entry_scan'):
        return P._entry_scan
    value_refs, foreign_calls = set(), set()
    foreign_sites = {}
    for m in P.mods.values():
        parents = m.parents
        for n in ast.walk(m.tree):
            if isinstance(n, ast.Attribute):
                par = parents.get(n)
                is_callee = isinstance(par, ast.Call) and par.func is n
                recv_self = isinstance(n.value, ast.Name) and n.value.id == 'self'
                recv_super = (isinstance(n.value, ast.Call) and isinstance(n.value.func, ast.Name)
                              and n.value.func.id == 'super')
                if is_callee and not recv_self and not recv_super:
                    foreign_calls.add(n.attr)
                    foreign_sites.setdefault(n.attr, []).append((m, n))
                if not is_callee and recv_self and isinstance(n.ctx, ast.Load):
                    value_refs.add(n.attr)
    P._entry_scan = (value_refs, foreign_calls)
    P._entry_foreign_sites = foreign_sites
    return P._entry_scan


def entry_points(P, c):
    """dict entry -> kind; entry is 'name' for methods and 'prop:name' for setters"""
    value_refs, foreign_calls = _scan(P)
    out = {}
    names = set()
    for k in c.mro:
        names |= set(k.methods)
        names |= {p for p, acc in k.props.items() if 'set' in acc}
    for nm in sorted(names):
        hit = P.lookup(c, nm)
        if hit is None:
            continue
        if hit[1] == 'prop':
            if P.lookup_prop(c, nm, 'set'):
                out['prop:' + nm] = 'setter'
            continue
        if hit[1] != 'method':
            continue
        if nm.startswith('__'):
            continue
        if not nm.startswith('_'):
            out[nm] = 'public'
        elif nm in value_refs:
            out[nm] = 'action'
        elif nm in foreign_calls and _may_receive(P, c, nm):
            out[nm] = 'foreign'
    return out


def internal_methods(P, c):
    ep = entry_points(P, c)
    allm = set()
    for k in c.mro:
        allm |= set(k.methods)
    return sorted(n for n in allm if n not in ep and not n.startswith('__'))


def _element_classes(P, attr):
    """classes whose instances are put into the container attribute `attr` as `self` (`x.attr.append(self)`), or None when something
    else is put there as well"""
    cache = P.__dict__.setdefault('_entry_elem_classes', {})
    if attr in cache:
        return cache[attr]
    out, unknown = set(), False
    for m in P.mods.values():
        for n in ast.walk(m.tree):
            if isinstance(n, ast.Call) and isinstance(n.func, ast.Attribute) and n.func.attr in ('append', 'insert', 'extend', 'appendleft') \
                    and isinstance(n.func.value, ast.Attribute) and n.func.value.attr == attr:
                v = n.args[-1] if n.args else None
                if n.func.attr != 'extend' and isinstance(v, ast.Name) and v.id == 'self':
                    cf = m.enclosing(n) if hasattr(m, 'enclosing') else None
                    c = None
                    for cs in P.by_name.values():
                        for k in cs:
                            if k.mod is m and any(x is n for f in k.methods.values() for x in ast.walk(f)):
                                c = k
                    if c is None:
                        unknown = True
                    else:
                        out.add(c)
                else:
                    # putting back what was taken out of the same container adds no new kind of element
                    back = False
                    if isinstance(v, ast.Name):
                        from .norm import single_defs
                        for cs in P.by_name.values():
                            for k in cs:
                                if k.mod is m:
                                    for f in k.methods.values():
                                        if any(x is n for x in ast.walk(f)):
                                            d = single_defs(f).get(v.id)
                                            if (isinstance(d, ast.Call) and isinstance(d.func, ast.Attribute) and d.func.attr in ('pop', 'popleft')
                                                    and isinstance(d.func.value, ast.Attribute) and d.func.value.attr == attr) or \
                                               (isinstance(d, ast.Subscript) and isinstance(d.value, ast.Attribute) and d.value.attr == attr):
                                                back = True
                    if not back:
                        unknown = True
            if isinstance(n, ast.Assign) and any(isinstance(t, ast.Subscript) and isinstance(t.value, ast.Attribute) and t.value.attr == attr for t in n.targets):
                unknown = True
    cache[attr] = None if unknown or not out else out
    return cache[attr]


def _may_receive(P, c, name):
    """can an instance of c be the receiver of one of the foreign calls of `name`?  Unknown receivers can; a receiver taken out of a container
    that only holds instances of certain classes (`part._group_pathing.pop()`: only GroupPath objects are ever put there) can only be one of those"""
    from .norm import single_defs
    _scan(P)
    for m, n in P._entry_foreign_sites.get(name, []):
        recv = n.value
        for _ in range(3):
            if isinstance(recv, ast.Name):
                fn = None
                for cs in P.by_name.values():
                    for k in cs:
                        if k.mod is m:
                            for f in k.methods.values():
                                if any(x is n for x in ast.walk(f)):
                                    fn = f
                d = single_defs(fn).get(recv.id) if fn is not None else None
                if d is None:
                    break
                recv = d
            else:
                break
        attr = None
        if isinstance(recv, ast.Call) and isinstance(recv.func, ast.Attribute) and recv.func.attr in ('pop', 'popleft') and isinstance(recv.func.value, ast.Attribute):
            attr = recv.func.value.attr
        elif isinstance(recv, ast.Subscript) and isinstance(recv.value, ast.Attribute):
            attr = recv.value.attr
        if attr is None:
            return True
        ks = _element_classes(P, attr)
        if ks is None or any(k in c.mro for k in ks):
            return True
    return False
