"""Computed entry points per concrete class.

An entry point of class C is a method or property setter that code outside the
receiver's own `self.`/`super()` call chains can invoke:
  public       -- name without a leading underscore
  setter       -- property setter
  action       -- referenced as a value somewhere in the package (`self._m` passed to
                  schedule_event / partial / registered as a callback)
  foreign      -- underscore method called on a non-self receiver somewhere in the package
Private helpers that are only called through self./super() are internal and are
analysed inlined in the context of their callers.
"""
import ast


def _scan(P):
    if hasattr(P, '_entry_scan'):
        return P._entry_scan
    value_refs, foreign_calls = set(), set()
    for m in P.mods.values():
        parents = m.parents
        for n in ast.walk(m.tree):
            if isinstance(n, ast.Attribute):
                par = parents.get(n)
                is_callee = isinstance(par, ast.Call) and par.func is n
                recv_self = isinstance(n.value, ast.Name) and n.value.id == 'self'
                recv_super = (isinstance(n.value, ast.Call) and isinstance(n.value.func, ast.Name)
                              and n.value.func.id == 'super')
                if is_callee and not recv_self and not recv_super:
                    foreign_calls.add(n.attr)
                if not is_callee and recv_self and isinstance(n.ctx, ast.Load):
                    value_refs.add(n.attr)
    P._entry_scan = (value_refs, foreign_calls)
    return P._entry_scan


def entry_points(P, c):
    """dict entry -> kind; entry is 'name' for methods and 'prop:name' for setters"""
    value_refs, foreign_calls = _scan(P)
    out = {}
    names = set()
    for k in c.mro:
        names |= set(k.methods)
        names |= {p for p, acc in k.props.items() if 'set' in acc}
    for nm in sorted(names):
        hit = P.lookup(c, nm)
        if hit is None:
            continue
        if hit[1] == 'prop':
            if P.lookup_prop(c, nm, 'set'):
                out['prop:' + nm] = 'setter'
            continue
        if hit[1] != 'method':
            continue
        if nm.startswith('__'):
            continue
        if not nm.startswith('_'):
            out[nm] = 'public'
        elif nm in value_refs:
            out[nm] = 'action'
        elif nm in foreign_calls:
            out[nm] = 'foreign'
    return out


def internal_methods(P, c):
    ep = entry_points(P, c)
    allm = set()
    for k in c.mro:
        allm |= set(k.methods)
    return sorted(n for n in allm if n not in ep and not n.startswith('__'))
