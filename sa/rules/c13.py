"""C13 -- shutdown, failure and restore: machine state, lost parts, uptime accounting."""
import ast
import itertools

from .. import AnalysisError
from ..report import Ob
from ..cfg import calls_at, call_attr, is_self_attr, own_exprs, walk_now
from ..state import Analysis, State, TOP
from ..norm import Normalizer, FrameEnv
from .. import inventory as inv
from .. import devices as dv
from .c02 import foreign_deleg_call, construct_and_initialize

EXPLANATION = '''
Static analysis of PartProcessor's shutdown / failure / restore mechanism (part_processor.py, with maintainer.py for the
default work-order hooks) by typestate exploration of every computed entry point of the concrete class.
Decided: (C13.1) no part is accepted and none is handed over while the machine is down; (C13.2) a failure with a part in
process reaches the cancellation of the device's events, the shutdown callbacks with that part and the failure record,
whether or not the machine was already shut down; (C13.3) shutdown() on a machine that is down and
restore_functionality() on a machine that is up reach no field store and no call; (C13.4) accounting: the accumulators
are updated with now - interval start, interval starts are stamped with now, the uptime/utilization properties add the
open interval, and the invariants "restore stamp is None <=> down" and "use-start stamp set <=> (part in process and up)"
are inductive; (C13.5) the four callback lists are appended to on registration, iterated forward with the documented
arguments, at most once per entry point and exactly once when their occurrence happens; (C13.6) the default start_work /
end_work hooks shut the machine down / restore it; (C13.7) restore re-offers a finished part, announces free space when
idle, restarts the utilization clock when a part is in process.
NOT decided: accounting identities over a whole history (sums of intervals of a run).
'''
ASSUMPTIONS = ['run-to-completion of entry points', 'user callbacks do not call back into the machine they are notified about (library warning)']
MIN_INSTANCES = 400

TR = ['_part', '_output', '_is_shut_down', '_block_input', '_last_restore', '_last_use_start']
CB = {'_received_part_callbacks': 'receive', '_finish_processing_callbacks': 'finish', '_shutdown_callbacks': 'shutdown', '_restored_callbacks': 'restored'}
CB_ARGS = {'receive': ['self', 'self._part'], 'finish': ['self', 'self._output'], 'shutdown': ['self', 'is_failure', 'lost_part'], 'restored': ['self']}


def acc_inv(f):
    if not dv.slot_invariant('PartProcessor', f):
        return False
    down = f['_is_shut_down'] == 'T'
    if (f['_last_restore'] == 'N') != down:
        return False
    if (f['_last_use_start'] == 'S') != (dv.full(f['_part']) and not down):
        return False
    return True


def check(ctx):
    P = ctx.P
    if not P.has_cls('PartProcessor'):
        raise AnalysisError('class PartProcessor not found')
    c = P.cls('PartProcessor')
    N = Normalizer(P, c)
    actions = dv.action_event_types(P)
    obs = []

    # ---- C13.1 ----------------------------------------------------------------------------------
    o = Ob('C13.1', 'K5', 'while the machine is down no part is accepted and no part is offered downstream')
    obs.append(o)
    dom = dv.base_domain(P, c)
    dom['_block_input'] = ['F']
    for e, kind, g, s0, res in dv.explore_all(ctx, c, ['_part', '_output', '_is_shut_down', '_block_input'], dom,
                                              lambda f: dv.slot_invariant('PartProcessor', f), call_models={'reserve_resources': TOP}):
        hands = [n for n in g.nodes.values() if n.kind == 'cond' and foreign_deleg_call(g, n, n.ast)]
        stores = [n for n in g.nodes.values() if n.kind == 'stmt' and isinstance(n.ast, ast.Assign) and any(is_self_attr(t, '_part') for t in n.ast.targets)
                  and not (isinstance(n.ast.value, ast.Constant) and n.ast.value.value is None)]
        for hn in hands + stores:
            for st in res.at(hn.id):
                o.count()
                if st.fields['_is_shut_down'] == 'F':
                    o.witness((e, hn.line))
                else:
                    o.fail(P, f'PartProcessor.{e}', None, 'a part is ' + ('offered downstream' if hn in hands else 'accepted') + ' while the machine is shut down or failed',
                           node=hn, path=res.path_lines(hn.id, st))

    # ---- C13.2 ------------------------------------------------------------------------------------
    o = Ob('C13.2', 'K5', 'failure with a part in process: device events cancelled, lost part given to the shutdown callbacks (is_failure true) and '
                          'written to the failure record -- also when the machine is already shut down')
    obs.append(o)
    g = ctx.graph(c, '_fail')
    an = Analysis(P, g, ['_part', '_output', '_is_shut_down', '_block_input'])

    def fail_hook(an_, n, before, after):
        st = after
        for cl in calls_at(an_.g, n):
            if call_attr(cl) == 'cancel_matching_events':
                st = st.with_flag('cancelled')
            if call_attr(cl) == 'add_datapoint' and cl.args and isinstance(cl.args[0], ast.Constant) and cl.args[0].value == 'device_failure':
                st = st.with_flag('logged' if dv.record_carries(an_, cl, before, n.frame, 'p0') else 'logged-without-part')
        if n.kind == 'for' and '_shutdown_callbacks' in ast.unparse(n.ast.iter):
            tg = n.ast.target.id if isinstance(n.ast.target, ast.Name) else None
            for s_ in n.ast.body:
                for x in ast.walk(s_):
                    if isinstance(x, ast.Call) and isinstance(x.func, ast.Name) and x.func.id == tg and len(x.args) == 3:
                        if an_.ev(x.args[2], after, n.frame) == 'p0' and an_.ev(x.args[1], after, n.frame) == 'T':
                            st = st.with_flag('cb')       # reporting twice is C13.5 (ran2:shutdown)
        return st
    an.expr_hooks.append(dv.id_of_token)
    an.node_hooks.append(fail_hook)
    for sd in 'TF':
        s0 = State({'_part': 'p0', '_output': 'N', '_is_shut_down': sd, '_block_input': 'F'})
        res = ctx.explore(an, [s0])
        for st in res.exits():
            o.count()
            o.witness(sd)
            miss = [w for w, fl in (('cancel its pending and paused events', 'cancelled'), ('report the lost part to the shutdown callbacks', 'cb'),
                                    ('record the lost part in the failure log', 'logged')) if fl not in st.flags]
            if st.fields['_is_shut_down'] != 'T':
                miss.append('leave the machine down')
            if miss:
                o.fail(P, 'PartProcessor._fail', '_fail', f'a failure of a machine that is {"already shut down" if sd == "T" else "up"} with a part in process does not ' + '; '.join(miss),
                       file=c.mod.path, line=P.method(c, '_fail')[1].lineno, path=res.path_lines(g.exit, st))
        o.sample({'entry': s0.show(), 'exit_flags': [sorted(s.flags) for s in res.exits()][:2]})

    # ---- C13.3 idempotence ---------------------------------------------------------------------------
    o = Ob('C13.3', 'K5', 'shutdown() on a machine that is down and restore_functionality() on a machine that is up reach no field store and no call')
    obs.append(o)

    def effect_hook(an_, n, before, after):
        a = n.ast
        if n.kind == 'stmt' and isinstance(a, (ast.Assign, ast.AugAssign)):
            tg = a.targets if isinstance(a, ast.Assign) else [a.target]
            if any(isinstance(t, (ast.Attribute, ast.Subscript)) for t in tg):
                return after.with_flag('effect:' + n.src()[:50])
        if n.kind in ('stmt', 'for', 'cond') and calls_at(an_.g, n):
            names = [call_attr(cl) for cl in calls_at(an_.g, n)]
            if any(nm not in ('is_operational',) for nm in names):
                return after.with_flag('effect:' + n.src()[:50])
        return after
    # (the property speaks of repeated shutdown / restore calls; what the work-order hooks do on a machine that is already down -- count the order -- is C13.6)
    for e, sd in (('shutdown', 'T'), ('restore_functionality', 'F')):
        g = ctx.graph(c, e)
        an = Analysis(P, g, ['_part', '_output', '_is_shut_down', '_block_input'])
        an.node_hooks.append(effect_hook)
        for pv, ov in (('N', 'N'), ('S', 'N'), ('N', 'S')):
            s0 = State({'_part': pv, '_output': ov, '_is_shut_down': sd, '_block_input': 'F'})
            res = ctx.explore(an, [s0])
            for st in res.exits():
                o.count()
                o.witness((e, pv, ov))
                eff = sorted(f[7:] for f in st.flags if f.startswith('effect:'))
                if eff or st.fields != s0.fields:
                    o.fail(P, f'PartProcessor.{e}', eff[0] if eff else e, f'{e}() on a machine that is already {"down" if sd == "T" else "up"} is not a no-op: {eff or st.show()}',
                           file=c.mod.path, line=dv.entry_fn(P, c, e).lineno, path=res.path_lines(g.exit, st))

    # ---- C13.4 accounting ----------------------------------------------------------------------------------
    o = Ob('C13.4', 'K6+K5', 'accounting: accumulators += now - interval start; interval starts stamped with now; properties add the open interval; '
                             'restore stamp None <=> down and use-start set <=> (part in process and up), inductive over all entry points')
    obs.append(o)
    FORMS = {'_uptime': '_last_restore', '_time_in_use': '_last_use_start'}

    def acc_hook(an_, n, before, after):
        a = n.ast
        st = after
        if n.kind != 'stmt' or n.frame.func.name == '__init__':
            return st
        acc = None      # (accumulator field, normal form of its new value): `x += d`, `x = x + d`, `x = d + x` (locals substituted) alike
        if isinstance(a, ast.AugAssign) and is_self_attr(a.target) and a.target.attr in FORMS:
            acc = a.target.attr, N.norm(ast.BinOp(left=ast.Attribute(value=a.target.value, attr=a.target.attr, ctx=ast.Load()), op=a.op, right=a.value), FrameEnv(n.frame))
        elif isinstance(a, ast.Assign) and any(is_self_attr(t) and t.attr in FORMS for t in a.targets):
            acc = [t.attr for t in a.targets if is_self_attr(t) and t.attr in FORMS][0], N.norm(a.value, FrameEnv(n.frame))
        if acc is not None:
            fld_, lin_ = acc
            start = FORMS[fld_]
            good = lin_.is_({'self.' + fld_: 1, 'NOW': 1, 'self.' + start: -1}) and before.fields.get(start) == 'S'
            st = st.with_flag(f'acc:{fld_}' if good else f'ACC-WRONG:{fld_}')
            if good:
                st = st.with_flag('closed:' + start)
        if isinstance(a, ast.Assign) and any(is_self_attr(t) and t.attr in FORMS.values() for t in a.targets):
            fld = [t.attr for t in a.targets if is_self_attr(t) and t.attr in FORMS.values()][0]
            if isinstance(a.value, ast.Constant) and a.value.value is None:
                # closing an interval: the accumulator must have been updated from it first
                if before.fields.get(fld) == 'S' and 'closed:' + fld not in st.flags:
                    st = st.with_flag('LOST-INTERVAL:' + fld)
                st = st.without_flag('closed:' + fld)
            else:
                if not N.norm(a.value, FrameEnv(n.frame)).is_({'NOW': 1}):
                    st = st.with_flag('STAMP-NOT-NOW:' + fld)
                elif before.fields.get(fld) == 'S':
                    st = st.with_flag('LOST-INTERVAL:' + fld)       # re-stamping an open interval discards it
                else:
                    st = st.with_flag('stamped:' + fld)
                if before.fields.get(fld) == 'S' and n.frame.func.name == 'initialize':
                    st = st.with_flag('stamped:' + fld)          # the constructor's placeholder is replaced by the initialisation time
                st = st.with_field(fld, 'S')
        return st
    dom = dv.base_domain(P, c)
    dom['_block_input'] = ['F']
    dom['_last_restore'] = ['N', 'S']
    dom['_last_use_start'] = ['N', 'S']

    def ef(e, kind, s0):
        f = s0.fields
        if 'FINISH_PROCESSING' in actions.get(e, ()) and not (dv.full(f['_part']) and f['_is_shut_down'] == 'F' and not dv.full(f['_output'])):
            return None
        return s0
    for e, kind, g, s0, res in dv.explore_all(ctx, c, TR, dom, acc_inv, node_hooks=[acc_hook], call_models={'reserve_resources': TOP}, entry_filter=ef):
        for st in res.exits():
            o.count()
            bad = sorted(f for f in st.flags if f.split(':')[0] in ('ACC-WRONG', 'LOST-INTERVAL', 'STAMP-NOT-NOW'))
            if any(f.startswith('acc:') for f in st.flags):
                o.witness((e, 'accumulate'))
            if bad:
                k = bad[0]
                what = {'ACC-WRONG': 'an accumulator is not increased by (now - interval start) of an open interval',
                        'LOST-INTERVAL': 'an open interval is closed or re-stamped without being added to its accumulator',
                        'STAMP-NOT-NOW': 'an interval start is stamped with something other than the current time'}[k.split(':')[0]]
                ln = dv.last_node(res, g.exit, st, lambda n: n.kind == 'stmt' and k.split(':')[1] in n.src())
                o.fail(P, f'PartProcessor.{e}', ln.ast if ln else k, f'{what} ({k.split(":")[1]})', node=ln, file=c.mod.path, path=res.path_lines(g.exit, st))
            if not acc_inv(st.fields):
                f = st.fields
                what = ('the restore stamp does not agree with the machine state (None <=> down)' if (f['_last_restore'] == 'N') != (f['_is_shut_down'] == 'T')
                        else 'the utilization clock does not agree with "a part is in process on a machine that is up"')
                ln = dv.last_node(res, g.exit, st, lambda n: n.kind in ('stmt', 'cond', 'return') and n.ast is not None)
                o.fail(P, f'PartProcessor.{e}', ln.ast if ln else e, f'{what}: entry {s0.show()} -> exit {st.show()}', node=ln, file=c.mod.path,
                       path=res.path_lines(g.exit, st))
    for st in construct_and_initialize(ctx, c, TR, extra_hooks=[acc_hook]):
        o.count()
        f = dict(st.fields)
        if f.get('_block_input') == TOP:
            f['_block_input'] = 'F'
        if not acc_inv(f) or any(fl.split(':')[0] in ('ACC-WRONG', 'STAMP-NOT-NOW') for fl in st.flags) or 'stamped:_last_restore' not in st.flags:
            o.fail(P, 'PartProcessor.initialize', 'self._last_restore = self.env.now', f'after construction and initialisation the accounting state is {st.show()} (the open uptime interval of a running machine must start at its initialisation time, '
                   'stamped by initialize(): a machine created while the simulation runs would otherwise be credited with the time before it existed)',
                   file=c.mod.path, line=c.node.lineno)
        else:
            o.witness('base')
    # the reporting properties
    for prop, accu, start in (('uptime', '_uptime', '_last_restore'), ('utilization_time', '_time_in_use', '_last_use_start')):
        pg = P.lookup_prop(c, prop, 'get')
        o.count()
        if not pg:
            o.fail(P, f'PartProcessor.{prop}', prop, 'the reporting property is missing', file=c.mod.path, line=c.node.lineno)
            continue
        g = ctx.B.build_func(c, pg[0], pg[1])
        an = Analysis(P, g, [start])
        for sv in 'NS':
            res = ctx.explore(an, [State({start: sv})])
            rets = [n for n in g.nodes.values() if n.kind == 'return' and n.frame is g.top and res.visited(n.id)]
            for rn in rets:
                o.count()
                lin = N.norm(rn.ast.value, FrameEnv(rn.frame)) if rn.ast.value is not None else None
                want = {'self.' + accu: 1} if sv == 'N' else {'self.' + accu: 1, 'NOW': 1, 'self.' + start: -1}
                o.witness((prop, sv))
                if lin is None or not lin.is_(want):
                    o.fail(P, f'PartProcessor.{prop}', None, f'{prop} with the interval {"closed" if sv == "N" else "open"} must report the accumulator'
                           + ('' if sv == 'N' else ' plus (now - interval start)') + f'; found `{lin.key() if lin else None}`', node=rn)
    for a_ in ('_uptime', '_time_in_use', '_last_restore', '_last_use_start', '_is_shut_down'):
        for s in inv.attr_stores(P, a_):
            o.count()
            if s.cls is not c and not (s.cls is not None and s.cls in c.mro and isinstance(s.node, ast.Attribute) and isinstance(s.node.value, ast.Name) and s.node.value.id == 'self'):
                # (a base class or mixin of PartProcessor writing the field of `self` is PartProcessor's own code; what it does is decided by the
                # exploration above, which follows the MRO)
                o.fail(P, s.ctx, s.stmt, f'{a_} is written outside PartProcessor', file=s.mod.path, line=s.line)

    # ---- C13.5 callbacks ------------------------------------------------------------------------------------------
    o = Ob('C13.5', 'K7+K5', 'callback lists: appended on registration, iterated forward with the documented arguments, at most once per entry point '
                             'and exactly once when the occurrence happens (part accepted / cycle finished / went down or lost a part / restored)')
    obs.append(o)
    reg = {'_received_part_callbacks': 'add_receive_part_callback', '_finish_processing_callbacks': 'add_finish_processing_callback',
           '_shutdown_callbacks': 'add_shutdown_callback', '_restored_callbacks': 'add_restored_callback'}
    for lst, kind in CB.items():
        for s in inv.attr_uses(P, lst):
            role = s.extra['role']
            o.count()
            if role[0] == 'store':
                if not (s.func is not None and s.func.name == '__init__' and isinstance(s.stmt.value, ast.List) and not s.stmt.value.elts):
                    o.fail(P, s.ctx, s.stmt, f'the {kind} callback list is re-bound', file=s.mod.path, line=s.line)
            elif role[0] == 'method':
                if role[1] == 'append' and s.func.name == reg[lst] and [ast.unparse(a) for a in role[2].args] == [s.func.args.args[1].arg]:
                    o.witness(('register', kind))
                else:
                    o.fail(P, s.ctx, s.stmt, f'{kind} callbacks must be registered by appending (registration order is call order)', file=s.mod.path, line=s.line)
            elif role[0] == 'iter':
                lp = s.mod.parents.get(s.node)
                okb = isinstance(lp, ast.For) and isinstance(lp.target, ast.Name) and len(lp.body) == 1 and isinstance(lp.body[0], ast.Expr) \
                    and isinstance(lp.body[0].value, ast.Call) and isinstance(lp.body[0].value.func, ast.Name) and lp.body[0].value.func.id == lp.target.id \
                    and [ast.unparse(a) for a in lp.body[0].value.args] == CB_ARGS[kind] and not lp.body[0].value.keywords
                if not okb:
                    o.fail(P, s.ctx, lp if lp is not None else s.stmt, f'{kind} callbacks must each be called once, in list order, as callback({", ".join(CB_ARGS[kind])})', file=s.mod.path, line=s.line)
                else:
                    o.witness(('iterate', kind, s.line))
            elif role[0] == 'alias':
                pass
            else:
                o.fail(P, s.ctx, s.stmt, f'unexpected use of the {kind} callback list ({role[0]})', file=s.mod.path, line=s.line)

    def cb_hook(an_, n, before, after):
        st = after
        if n.kind == 'for':
            it = ast.unparse(n.ast.iter)
            for lst, kind in CB.items():
                if it == 'self.' + lst:
                    # count loop *entries*: the for node is revisited after each iteration; count only when coming from outside the loop body
                    pass
        return st

    def cb_edge(an_, n, label, st):
        return st
    # loop entries are counted on the edge into the `for` node from outside its body: mark on the 'F' (exhausted) edge, which is taken exactly once per loop execution
    def cb_exhaust(an_, n, label, st):
        if n.kind == 'for' and label == 'F':
            it = ast.unparse(n.ast.iter)
            for lst, kind in CB.items():
                if it == 'self.' + lst:
                    return st.with_flag(f'ran2:{kind}' if f'ran:{kind}' in st.flags else f'ran:{kind}')
        return st

    def occ_hook(an_, n, before, after):
        st = after
        a = n.ast
        if n.kind == 'stmt' and isinstance(a, ast.Assign):
            if any(is_self_attr(t, '_part') for t in a.targets) and not (isinstance(a.value, ast.Constant) and a.value.value is None):
                st = st.with_flag('occ:receive')
            if any(is_self_attr(t, '_output') for t in a.targets) and is_self_attr(a.value, '_part'):
                st = st.with_flag('occ:finish')
            if any(is_self_attr(t, '_is_shut_down') for t in a.targets):
                v = an_.ev(a.value, before, n.frame)
                if v == 'T' and before.fields['_is_shut_down'] == 'F':
                    st = st.with_flag('occ:shutdown')
                if v == 'F' and before.fields['_is_shut_down'] == 'T':
                    st = st.with_flag('occ:restored')
        if n.kind == 'call_enter' and n.frame.func.name == '_shutdown':
            lp = st.locals.get((n.frame.id, 'lost_part'))
            if lp not in (None, 'N', TOP):
                st = st.with_flag('occ:shutdown')
        return st
    dom = dv.base_domain(P, c, part_tokens=True)
    dom['_block_input'] = ['F']
    for e, kind_, g, s0, res in dv.explore_all(ctx, c, ['_part', '_output', '_is_shut_down', '_block_input'], dom,
                                               lambda f: dv.slot_invariant('PartProcessor', f), node_hooks=[occ_hook], edge_hooks=[cb_exhaust],
                                               call_models={'reserve_resources': TOP}, entry_filter=ef):
        for st in res.exits():
            o.count()
            for kind in CB.values():
                ran = f'ran:{kind}' in st.flags
                twice = f'ran2:{kind}' in st.flags
                occ = f'occ:{kind}' in st.flags
                if occ:
                    o.witness((e, kind))
                if twice or ran != occ:
                    what = (f'the {kind} callbacks run twice in one operation' if twice else
                            f'the {kind} callbacks are not run although the occurrence happened' if occ else
                            f'the {kind} callbacks run although nothing of that kind happened')
                    o.fail(P, f'PartProcessor.{e}', f'for c in self.{[k for k, v in CB.items() if v == kind][0]}', f'{what} (entry {s0.show()} -> exit {st.show()})',
                           file=c.mod.path, line=dv.entry_fn(P, c, e).lineno, path=res.path_lines(g.exit, st))

    # ---- C13.6 default work-order hooks ---------------------------------------------------------------------------------
    o = Ob('C13.6', 'K3+K5', 'the default start_work shuts the machine down and counts the order; the default end_work restores the machine when the last default order on it ends')
    obs.append(o)
    # The machine counts the default work orders in progress on it (several maintainers may work on one machine: each excludes a second order on
    # a target only among its own).  The counter is found by what it does: the field the default start_work increases by one.
    from ..norm import cmp_norm as _cmpn
    import operator as _op
    sfn = P.method(c, 'start_work')[1]
    N13 = Normalizer(P, c)
    counters = []
    for x in ast.walk(sfn):
        if isinstance(x, (ast.AugAssign, ast.Assign)):
            tg = x.target if isinstance(x, ast.AugAssign) else (x.targets[0] if len(x.targets) == 1 else None)
            if tg is not None and is_self_attr(tg):
                newv = N13.norm(ast.BinOp(left=tg, op=x.op, right=x.value) if isinstance(x, ast.AugAssign) else x.value, {})
                if newv.is_({'self.' + tg.attr: 1}, 1):
                    counters.append(tg.attr)
    CNT = counters[0] if len(counters) == 1 else None
    OPS13 = {'<': _op.lt, '<=': _op.le, '==': _op.eq, '!=': _op.ne}

    def ival(e, st, frame):
        """value of an integer expression over the counter and locals that hold counter values, or None"""
        if isinstance(e, ast.Call) and isinstance(e.func, ast.Name) and e.func.id in ('max', 'min') and len(e.args) >= 2 and not e.keywords:
            vals = [ival(a_, st, frame) for a_ in e.args]          # a clamp: max(0, counter - 1)
            return None if any(v is None for v in vals) else (max if e.func.id == 'max' else min)(vals)
        try:
            lin = N13.norm(e, {})
        except Exception:      # noqa: BLE001
            return None
        if lin is None:
            return None
        tot = lin.const
        for atom, k in lin.terms.items():
            if atom == 'self.' + CNT:
                v = st.fields['#cnt']
            else:
                v = st.locals.get((frame.id, atom))
            if not (isinstance(v, str) and v.isdigit()):
                return None
            tot += k * int(v)
        return tot

    def cnt_node(an_, n, before, after):
        a = n.ast
        if CNT and n.kind == 'stmt' and isinstance(a, (ast.AugAssign, ast.Assign)):
            tg = a.target if isinstance(a, ast.AugAssign) else (a.targets[0] if len(a.targets) == 1 else None)
            rhs = ast.BinOp(left=ast.Name(id=tg.id, ctx=ast.Load()) if isinstance(tg, ast.Name) else tg, op=a.op, right=a.value) if isinstance(a, ast.AugAssign) and tg is not None else a.value
            if tg is not None and is_self_attr(tg, CNT):
                v = ival(rhs, before, n.frame)
                return after.with_field('#cnt', str(v) if v is not None and 0 <= v <= 3 else 'bad')
            if isinstance(tg, ast.Name):
                v = ival(rhs, before, n.frame)
                if v is not None and 0 <= v <= 3:
                    s2 = after.copy()
                    s2.locals[(n.frame.id, tg.id)] = str(v)
                    return s2
        return after

    def cnt_refine(an_, test, truth, st, frame):
        if not CNT:
            return NotImplemented
        t = test
        if is_self_attr(t, CNT) or (isinstance(t, ast.Name) and str(st.locals.get((frame.id, t.id), '')).isdigit()):          # truthiness of the counter
            cur = st.fields['#cnt'] if is_self_attr(t, CNT) else st.locals[(frame.id, t.id)]
            return (st if (cur != '0') == truth else None) if cur in ('0', '1', '2', '3') else st
        if isinstance(t, ast.Compare) and len(t.ops) == 1:
            r = _cmpn(N13, t, {}, truth)
            if r is not None and r[0].terms:
                tot = r[0].const
                for atom, k in r[0].terms.items():
                    v = st.fields['#cnt'] if atom == 'self.' + CNT else st.locals.get((frame.id, atom))
                    if not (isinstance(v, str) and v.isdigit()):
                        return NotImplemented
                    tot += k * int(v)
                return st if OPS13[r[1]](tot, 0) else None
        return NotImplemented
    o.count()
    if CNT is None:
        o.fail(P, 'PartProcessor.end_work', 'self.restore_functionality()', 'the default end_work restores the machine whatever else is in progress on it: the machine does not count '
               'the default work orders working on it, and a maintainer excludes a second order on a target only among its own orders -- with two maintainers the first order to end '
               'brings the machine up while the other is still in progress', file=c.mod.path, line=P.method(c, 'end_work')[1].lineno)
    else:
        o.witness(('counter', CNT))
    for e, sd, k0, want, k1 in (('start_work', 'F', '0', 'T', '1'), ('start_work', 'T', '1', 'T', '2'), ('end_work', 'T', '2', 'T', '1'), ('end_work', 'T', '1', 'F', '0'),
                                ('end_work', 'T', '0', 'F', '0')):
        if CNT is None and (e, k0) not in (('start_work', '0'), ('end_work', '1')):
            continue
        g = ctx.graph(c, e)
        an = Analysis(P, g, ['_part', '_output', '_is_shut_down', '_block_input', '#cnt'])
        an.node_hooks.append(cnt_node)
        an.refine_hooks.insert(0, cnt_refine)
        res = ctx.explore(an, [State({'_part': 'N', '_output': 'N', '_is_shut_down': sd, '_block_input': 'F', '#cnt': k0})])
        for st in res.exits():
            o.count()
            o.witness((e, k0))
            if st.fields['_is_shut_down'] != want or (CNT and st.fields['#cnt'] != k1):
                o.fail(P, f'PartProcessor.{e}', 'self.shutdown()' if e == 'start_work' else 'self.restore_functionality()',
                       f'with {k0} default work order(s) in progress on the machine, the default {e} hook leaves the machine {"down" if st.fields["_is_shut_down"] == "T" else "up"} and the count at '
                       f'{st.fields["#cnt"]}; expected {"down" if want == "T" else "up"} and {k1} (the machine stays down until the last order on it ends)',
                       file=c.mod.path, line=P.method(c, e)[1].lineno, path=res.path_lines(g.exit, st))
    for m_ in ('get_work_order_duration', 'get_work_order_capacity', 'get_work_order_cost'):
        o.count()
        if not P.has_method(c, m_):
            o.fail(P, f'PartProcessor.{m_}', m_, 'Maintainable hook missing', file=c.mod.path, line=c.node.lineno)

    # ---- C13.7 restore re-establishes the flow ----------------------------------------------------------------------------
    o = Ob('C13.7', 'K2', 'restore_functionality: finished part => a hand-over attempt is scheduled; idle => upstream notified; events unpaused')
    obs.append(o)
    restore_flow(ctx, o)

    # ---- C13.8 a failure names the part it discards -----------------------------------------------------------------------------
    o = Ob('C13.8', 'K12', 'tests of the form `x if part else y` / `if part:` on a slot value mean "a part is there": no class of the Part hierarchy may make its instances falsy '
                           '(__bool__ / __len__), or an empty batch discarded by a failure is logged as "nothing lost" while the callbacks are given it')
    obs.append(o)
    sites = dv.part_truthiness_sites(P)
    falsy = dv.truthiness_overrides(P)
    o.count()
    for c_, f, e in sites:
        o.count()
        where = f'{c_.name}.{f.name}' if c_ is not None else f.name
        if falsy:
            kc, km = falsy[0]
            o.fail(P, where, e, f'`{ast.unparse(e)}` is tested for truth, and {kc.name}.{km} makes a part falsy without being absent (every such test now also '
                   f'rejects e.g. an empty batch); compare with None instead, or do not define {km} in the Part hierarchy', file=(c_.mod.path if c_ is not None else None), line=e.lineno)
        else:
            o.witness((where, ast.unparse(e)))
    if not sites:
        o.witness('no truthiness test on a part')
    o.sample({'truthiness_tests_on_parts': [f'{(c_.name + ".") if c_ is not None else ""}{f.name}: {ast.unparse(e)}' for c_, f, e in sites][:8],
              'falsy_makers_in_Part_hierarchy': [f'{c.name}.{m}' for c, m in falsy]})
    obs.append(ctx.shared('c12', 'C12.3', 'C13.9', 'a default work order restores its target when it ends: two orders in progress on one target would bring the machine up '
                          'when the first ends, while the second still runs -- the maintainer must never start an order whose target is being worked on'))
    obs.append(ctx.shared('c07', 'C07.2', 'C13.11', 'a restored machine goes on where it stopped: every event that was paused with it is resumed, shifted by the length of the pause '
                          '(an unpause that skips or loses one leaves the part in process for ever, or drops a scheduled failure)'))
    obs.append(ctx.shared('c20', 'C20.1b', 'C13.10', 'uptime is counted from the stamp initialize() writes: the constructor must not write the accounting fields again after '
                          'the base constructor has registered (and, for a machine created while the simulation runs, already initialised) the device'))
    return obs


def restore_flow(ctx, o):
    """shared by C13.7 and C03.11: whatever the waiting flag says, a restored machine re-offers a finished part and an idle
    one announces free space (notifications that arrived while it was down were ignored, so the flag proves nothing)"""
    P = ctx.P
    c = P.cls('PartProcessor')
    g = ctx.graph(c, 'restore_functionality')
    an = Analysis(P, g, ['_part', '_output', '_is_shut_down', '_block_input', '_waiting_for_downstream_space', '#pending'])
    an.node_hooks.extend([dv.ghost_hook({'#pending'}), dv.notify_hook])
    for pv, ov, wv in (('N', 'N', 'F'), ('N', 'N', 'T'), ('S', 'N', 'F'), ('S', 'N', 'T'), ('N', 'S', 'F'), ('N', 'S', 'T')):
        s0 = State({'_part': pv, '_output': ov, '_is_shut_down': 'T', '_block_input': 'F', '_waiting_for_downstream_space': wv, '#pending': 'F'})
        res = ctx.explore(an, [s0])
        for st in res.exits():
            o.count()
            o.witness((pv, ov, wv))
            if st.fields['_is_shut_down'] != 'F':
                o.fail(P, 'PartProcessor.restore_functionality', 'self._is_shut_down = False', 'restore leaves the machine down', file=c.mod.path, line=P.method(c, 'restore_functionality')[1].lineno)
            if ov == 'S' and st.fields['#pending'] != 'T':
                o.fail(P, 'PartProcessor.restore_functionality', 'self._schedule_pass_part_downstream()',
                       f'a finished part is not offered again after the restore (waiting flag {"armed" if wv == "T" else "clear"} at entry: a notification that arrived while the machine was down was ignored, so nothing else will retry)',
                       file=c.mod.path, line=P.method(c, 'restore_functionality')[1].lineno, path=res.path_lines(g.exit, st))
            if pv == 'N' and ov == 'N' and 'notified' not in st.flags:
                o.fail(P, 'PartProcessor.restore_functionality', 'self.notify_upstream_of_available_space()', 'a restored idle machine does not announce that it can take a part', file=c.mod.path,
                       line=P.method(c, 'restore_functionality')[1].lineno, path=res.path_lines(g.exit, st))


CLAIM = {
    'technique': 'static analysis: typestate exploration of all entry points of PartProcessor (down/up, slots, interval stamps, callback-loop '
                 'counters), linear normal forms of the accounting updates and reporting properties, callback-list inventory',
    'level_text': 'State machine, failure reporting, idempotence, interval accounting invariants and once-per-occurrence callbacks are decided on '
                  'all paths of all entry points and abstract states; numeric identities over histories are not computed.',
    'level_note': 'Run-to-completion; callbacks must not re-enter the machine (documented by the library).',
}
