"""C10 -- waiting resource requests are served: exactly once, in order, only when feasible."""
import ast

from .. import AnalysisError
from ..report import Ob
from ..cfg import calls_at, call_attr, is_self_attr
from ..state import sched_calls, sched_action_name, sched_event_type, bind_call, SCHED_PARAMS
from ..norm import Normalizer, FrameEnv
from .. import inventory as inv
from .. import devices as dv
from .c03 import resource_wakeups

EXPLANATION = '''
Static analysis of the waiting-request mechanism of ResourceManager (resource_manager.py).
Decided: (C10.1) every path of add_resources / _release_resources / reserve_resources_with_callback that changes a pool or
the waiting list schedules _check_pending_requests for the current instant, under id -1 (not pausable with a device);
(C10.2) the check scans the waiting list from index 0, and every path through the loop body is either "the entry fits:
callback, then remove this entry, index kept" or "does not fit: index + 1", the feasibility of the entry at the current
index being re-evaluated in every iteration; (C10.3) the callback of an entry is called only on the true edge of the
feasibility test for that same entry, with (manager, that entry's request), exactly once, and the entry is removed on every
normal path after it; (C10.4) registration appends, at the tail, a deep copy of the request paired with the callback;
the waiting list has no other writer.
NOT decided: the interleaving semantics of callbacks that themselves reserve (the scan re-tests feasibility after each
callback, which is the structural part).
'''
ASSUMPTIONS = ['callbacks do not mutate the waiting list directly']
MIN_INSTANCES = 25
OPQ = ('_can_fulfill_request',)


def _alias_is_tame(fn, name):
    """every use of the local `name` in fn is len(name), name[...] (read) or name.pop(...)"""
    par = {}
    for n in ast.walk(fn):
        for ch in ast.iter_child_nodes(n):
            par[ch] = n
    stores = 0
    for n in ast.walk(fn):
        if isinstance(n, ast.Name) and n.id == name:
            p_ = par.get(n)
            if isinstance(n.ctx, ast.Store):
                stores += 1
                continue
            ok = (isinstance(p_, ast.Subscript) and p_.value is n and isinstance(p_.ctx, ast.Load)) or \
                 (isinstance(p_, ast.Call) and isinstance(p_.func, ast.Name) and p_.func.id == 'len' and n in p_.args) or \
                 (isinstance(p_, ast.Attribute) and p_.attr == 'pop' and isinstance(par.get(p_), ast.Call))
            if not ok:
                return False
    return stores == 1


def check(ctx):
    P = ctx.P
    RM = P.cls('ResourceManager')
    obs = []
    o1 = Ob('C10.1', 'K3', 'a check of the waiting requests is scheduled at the current instant after every registration, capacity change and release')
    o2 = Ob('C10.2', 'K14', 'the check scans from index 0; each body path: fits => callback, removal of this entry, index kept; else index + 1; feasibility re-evaluated each iteration')
    resource_wakeups(ctx, o1, o2)
    obs += [o1, o2]
    # the scheduled check is high priority at NOW (so that it runs before time advances)
    for s in inv.method_calls(P, 'schedule_event'):
        if s.cls is RM and sched_action_name(s.node) == '_check_pending_requests':
            o1.count()
            o1.sample({'site': f'{P.rel(s.mod.path)}:{s.line}', 'event_type': sched_event_type(s.node)})

    # requests registered before the simulation starts wait for the first check, which initialize() must ask for (their registration could not:
    # there was no environment yet -- F11)
    gi = ctx.graph(RM, 'initialize', opaque=('_schedule_check_pending_requesters',))
    sched_i = {n.id for n in gi.nodes.values() if any(call_attr(c_) in ('_schedule_check_pending_requesters', '_check_pending_requests') or
                                                      (call_attr(c_) == 'schedule_event' and sched_action_name(c_) == '_check_pending_requests') for c_ in calls_at(gi, n))}
    o1.count()
    NONEMPTY_T = ('len(self._waiting_requests)>0', 'self._waiting_requests', 'len(self._waiting_requests)!=0', 'len(self._waiting_requests)>=1', '0<len(self._waiting_requests)', 'len(self._waiting_requests)')
    NONEMPTY_F = ('len(self._waiting_requests)==0', 'notself._waiting_requests', 'len(self._waiting_requests)<=0', 'len(self._waiting_requests)<1')
    empty_edges = set()
    for n in gi.nodes.values():
        if n.kind == 'cond':
            t = dv.canon_text(n.ast, n.frame)
            if t in NONEMPTY_T:
                empty_edges.add((n.id, 'F'))
            elif t in NONEMPTY_F:
                empty_edges.add((n.id, 'T'))
    fi = P.method(RM, 'initialize')[1]
    reach_i = gi.reach_edges([gi.entry], cut_edges=empty_edges | {(i_, l_) for i_ in sched_i for l_, _ in gi.succ[i_]})
    if not sched_i or gi.exit in reach_i:
        o1.fail(P, 'ResourceManager.initialize', 'if len(self._waiting_requests) > 0: self._schedule_check_pending_requesters()',
                'initialize() can return with requests waiting and no check of them scheduled: a request registered before the simulation starts is then served only when some '
                'unrelated pool change happens', file=RM.mod.path, line=fi.lineno)
    else:
        o1.witness('initialize-checks-early-requests')
    o3 = Ob('C10.3', 'K2', 'the callback of a waiting entry runs only on the true edge of the feasibility test of that entry, as callback(manager, request of that entry), '
                           'once, followed by the removal of that entry')
    obs.append(o3)
    g = ctx.graph(RM, '_check_pending_requests', opaque=OPQ)
    fn = P.method(RM, '_check_pending_requests')[1]
    problems, head = dv.scan_shape(g, '_waiting_requests')
    if head is None:
        o3.fail(P, 'ResourceManager._check_pending_requests', 'while i < len(self._waiting_requests)', 'no index scan over the waiting list found', file=RM.mod.path, line=fn.lineno)
        o3.count()
    else:
        iv = head.ast.left.id if isinstance(head.ast.left, ast.Name) else head.ast.comparators[0].id
        entry = f'self._waiting_requests[{iv}]'

        def rs(e, frame):
            """canonical spelling: locals (`request, callback = self._waiting_requests[i]`), aliases of the list and parameters of a
            helper that serves one index are substituted"""
            return dv.canon_text(e, frame, keep=(iv,))

        def classify(node, lbl):
            if node.kind == 'cond' and isinstance(node.ast, ast.Call) and call_attr(node.ast) == '_can_fulfill_request':
                arg = rs(node.ast.args[0], node.frame) if node.ast.args else ''
                return ('test', lbl, arg == f'{entry}[0]')
            if node.kind == 'stmt':
                for cl in calls_at(g, node):
                    ft = rs(cl.func, node.frame) if isinstance(cl.func, (ast.Subscript, ast.Name)) else ''
                    if ft.startswith('self._waiting_requests'):
                        good = ft == f'{entry}[1]' and [rs(a, node.frame) for a in cl.args] == ['self', f'{entry}[0]'] and not cl.keywords
                        return ('cb', good)
                a_ = node.ast
                s = rs(a_.value, node.frame) if isinstance(a_, ast.Expr) else ('del' + rs(a_.targets[0], node.frame)) if isinstance(a_, ast.Delete) and len(a_.targets) == 1 else ''
                if s in (f'self._waiting_requests.pop({iv})', f'delself._waiting_requests[{iv}]'):
                    return ('rm',)
                if node.frame is head.frame:
                    if isinstance(node.ast, ast.AugAssign) and isinstance(node.ast.target, ast.Name) and node.ast.target.id == iv:
                        return ('inc',)
                    if isinstance(node.ast, ast.Assign) and any(isinstance(t, ast.Name) and t.id == iv for t in node.ast.targets):
                        return ('inc',)
            return None
        paths = dv.loop_body_paths(g, head)
        o3.require(paths, 'the scan loop of _check_pending_requests has no body path')
        for path in paths:
            o3.count()
            ev = [e for e in (classify(n, l) for n, l in path) if e]
            kinds = [e[0] for e in ev]
            tests = [e for e in ev if e[0] == 'test']
            bad = None
            if len(tests) != 1 or not tests[0][2]:
                bad = 'the feasibility of the entry at the current index is not (re-)evaluated exactly once per iteration'
            elif tests[0][1] == 'T':
                o3.witness('serve-path')
                if kinds != ['test', 'cb', 'rm']:
                    bad = ('a waiting entry that fits is not handled as: call its callback once, then remove it' +
                           (' (removed before/without being called back)' if 'rm' in kinds and ('cb' not in kinds or kinds.index('rm') < kinds.index('cb')) else ''))
                elif not ev[1][1]:
                    bad = 'the callback must be the one of the entry that was tested and receive (manager, request of that entry)'
            else:
                o3.witness('skip-path')
                if kinds != ['test', 'inc']:
                    bad = 'a waiting entry that does not fit must be left alone (index + 1, no callback, no removal)'
            if bad:
                last = [n for n, _ in path if n.kind in ('stmt', 'cond')]
                o3.fail(P, 'ResourceManager._check_pending_requests', last[-1].ast if last else 'scan body', bad, node=last[-1] if last else None, file=RM.mod.path,
                        path=[f'{n.line}: {n.kind} {n.src()} [{l or ""}]' for n, l in path if n.kind in ('stmt', 'cond')])
        o3.sample({'loop': head.src(), 'paths': len(paths), 'rule': '[test T, callback(self, entry request), pop(i)] | [test F, i += 1]'})
    # nobody else invokes a stored callback
    for s in inv.attr_uses(P, '_waiting_requests'):
        role = s.extra['role']
        o3.count()
        if s.cls is not RM:
            o3.fail(P, s.ctx, s.stmt, 'the waiting list is used outside ResourceManager', file=s.mod.path, line=s.line)

    o4 = Ob('C10.4', 'K7', 'registration appends (copy.deepcopy(request), callback) at the tail; the waiting list has no other writer than the serving scan')
    obs.append(o4)
    napp = 0
    for s in inv.attr_uses(P, '_waiting_requests'):
        role = s.extra['role']
        o4.count()
        bad = None
        if role[0] == 'method':
            if role[1] == 'append' and s.func.name == 'reserve_resources_with_callback':
                napp += 1
                f = s.func
                rq, cb = f.args.args[1].arg, f.args.args[2].arg
                a = role[2].args[0] if role[2].args else None
                from ..norm import single_defs as _sd
                d_ = _sd(f)
                if isinstance(a, ast.Name) and a.id in d_:
                    a = d_[a.id]
                if a is not None:
                    from ..norm import inline_class_factories
                    a = inline_class_factories(P, a, RM)      # the entry may be built by a static helper of the manager
                if isinstance(a, ast.Tuple) and len(a.elts) == 2 and isinstance(a.elts[0], ast.Name) and a.elts[0].id in d_:
                    a = ast.Tuple(elts=[d_[a.elts[0].id], a.elts[1]], ctx=ast.Load())
                if not (isinstance(a, ast.Tuple) and len(a.elts) == 2 and ast.unparse(a.elts[0]) in (f'copy.deepcopy({rq})', f'deepcopy({rq})') and ast.unparse(a.elts[1]) == cb):
                    bad = 'a waiting entry must be (deep copy of the request, callback)'
                else:
                    o4.witness('append')
            elif role[1] == 'pop' and s.func.name in inv.covered(P, {'_check_pending_requests'}):
                o4.witness('pop')       # which element is removed, and when, is decided by C10.2 / C10.3
            elif role[1] in ('copy', 'index', 'count'):
                pass
            else:
                bad = f'.{role[1]}() on the waiting list: requests must be kept in registration order'
        elif role[0] == 'store':
            if not (s.func.name == '__init__' and isinstance(s.stmt.value, ast.List) and not s.stmt.value.elts):
                bad = 'the waiting list is re-bound'
        elif role[0] in ('subscript-load', 'iter', 'test') or (role[0] == 'arg' and role[1] == 'len'):
            pass
        elif role[0] == 'assign-alias' and s.func.name in inv.covered(P, {'_check_pending_requests'}) and role[1].isidentifier() and _alias_is_tame(s.func, role[1]):
            pass        # a local name for the list inside the serving scan, used only to measure, index and pop (canonicalised in C10.2/C10.3)
        elif role[0] == 'subscript-del' and s.func.name in inv.covered(P, {'_check_pending_requests'}):
            o4.witness('pop')       # `del list[i]`: which element, and when, is decided by C10.2 / C10.3
        elif role[0] == 'alias':
            pass        # a local name for the list: its uses are reported as uses of the list (sa/inventory.py)
        else:
            bad = f'unexpected use of the waiting list ({role[0]})'
        if bad:
            o4.fail(P, s.ctx, s.stmt, bad, file=s.mod.path, line=s.line)
    o4.count()
    if napp != 1:
        o4.fail(P, 'ResourceManager.reserve_resources_with_callback', 'self._waiting_requests.append((copy.deepcopy(request), callback))', f'expected one registration site, found {napp}',
                file=RM.mod.path, line=RM.node.lineno)
    o5 = Ob('C10.5', 'K1', 'the availability check (scheduled under the shared id -1) is never paused or cancelled: every pause/unpause/cancel call is made by an asset for its own id')
    obs.append(o5)
    from .c07 import own_id_only
    own_id_only(ctx, o5)
    obs.append(ctx.shared('c09', 'C09.5', 'C10.6', 'a waiting request is served at the first check at which it fits: the test the scan applies must answer True exactly when every '
                          'non-zero entry of the request fits its pool (a test that also refuses a zero entry on an over-used pool, or an unknown pool asked for nothing, '
                          'leaves a satisfiable request waiting for ever)'))
    return obs


CLAIM = {
    'technique': 'static analysis: must-schedule-after-mutation typestate on ResourceManager entry points, path enumeration of the serving scan '
                 '(test / callback / removal / advance events), container-discipline inventory',
    'level_text': 'A check is scheduled at the current instant after every relevant change and the serving scan handles every entry correctly on '
                  'every body path; interleavings of callbacks that reserve are not executed.',
    'level_note': 'Callbacks do not mutate the waiting list directly.',
}
