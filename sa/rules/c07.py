"""C07 -- pausing, resuming and cancelling events preserves remaining delays."""
import ast
import copy

from .. import AnalysisError
from ..report import Ob
from .. import devices as dv
from ..cfg import calls_at, call_attr, is_self_attr
from ..norm import Normalizer, single_defs
from .. import inventory as inv
from . import c01
from .. import elem

EXPLANATION = '''
Static analysis of Environment.pause_matching_events / unpause_matching_events / cancel_matching_events
(simprocesd/model/simulation.py).  For each operation the checker extracts its *effect summary*: which list(s) the
affected events are selected from, the selection predicate (normalised, loop variable renamed), and the per-event
actions in order -- independent of whether the selection is written as a comprehension, a filtered loop or a loop
over a copy.  Decided: pause selects from the pending list only, by asset id equality, and moves each selected event
to the paused list stamping paused_at = now (C07.1); unpause selects from the paused list only, removes each event
from it, sets its time to time + now - paused_at and only then inserts it in order into the pending list (C07.2);
cancel selects from both lists and raises the cancelled flag (C07.3); the selection is skipped only for
asset_id None; no other code moves events between the lists or writes paused_at/cancelled/time (C07.4);
Event.execute honours the cancelled flag (C07.5, shared with C01.6).
NOT decided: agreement of whole operation sequences with a reference queue.
'''
ASSUMPTIONS = ['list.remove(x) removes the event itself (Event defines no __eq__)',
               'asset ids are ints, so `x.asset_id == None` never selects anything']
MIN_INSTANCES = 25

def own_id_only(ctx, o):
    """every pause / unpause / cancel call in the package is made by an asset about its own events (`self.id`): events scheduled under
    the shared id -1 (the resource manager's availability check, the terminate event) and other assets' events are never withheld or
    cancelled by someone else (shared with C10.5)"""
    P = ctx.P
    A = P.cls('Asset') if P.has_cls('Asset') else None
    n = 0
    for nm in ('pause_matching_events', 'unpause_matching_events', 'cancel_matching_events'):
        for s in inv.method_calls(P, nm):
            o.count()
            n += 1
            b = {}
            for p_, a in zip(['asset_id'], s.node.args):
                b[p_] = a
            for kw in s.node.keywords:
                if kw.arg:
                    b[kw.arg] = kw.value
            arg = b.get('asset_id')
            own = arg is not None and ast.unparse(arg) in ('self.id', 'self._id') and s.cls is not None and A is not None and A in s.cls.mro
            if not own:
                o.fail(P, s.ctx, s.node, f'{nm} is called for `{ast.unparse(arg) if arg is not None else "?"}`, not for the calling asset\'s own id: events of other assets, or the events '
                       'scheduled under the shared id -1 (availability check of the resource manager, end of run), would be withheld or cancelled', file=s.mod.path, line=s.line)
            else:
                o.witness((s.ctx, nm))
    o.require(n >= 3, f'only {n} pause/unpause/cancel call sites found')


OPS = ('pause_matching_events', 'unpause_matching_events', 'cancel_matching_events')
LISTS = ['_events', '_paused_events']
NAMES = {'_events': 'pending', '_paused_events': 'paused'}


def id_match(m):
    """the selection predicate `<element>.asset_id == <asset id parameter>` (either operand order, == or !=); m = its value for the tracked element"""
    def match(t, elems, params, value=None):
        if isinstance(t, ast.Compare) and len(t.ops) == 1 and isinstance(t.ops[0], (ast.Eq, ast.NotEq)):
            a, b = t.left, t.comparators[0]
            for x, y in ((a, b), (b, a)):
                if isinstance(x, ast.Attribute) and x.attr == 'asset_id' and isinstance(x.value, ast.Name) and x.value.id in elems \
                        and isinstance(y, ast.Name) and y.id in params:
                    v = m if value is None else value
                    return v if isinstance(t.ops[0], ast.Eq) else not v
        return None
    return match


_TABLE_CACHE = {}


def element_table(P, Env, op):
    """per-element effect of one operation: {(origin list, predicate value, id given): [path summaries]} (sa/elem.py)"""
    _TABLE_CACHE = P.__dict__.setdefault('_elem_tables', {})        # per Program object (never keyed by id(): addresses are re-used)
    key = op
    if key not in _TABLE_CACHE:
        t = {}
        for origin in LISTS:
            for m in (True, False):
                t[(origin, m, True)] = elem.run(P, Env, op, LISTS, ['_events'], id_match(m), origin, param_given=True)
            t[(origin, False, False)] = elem.run(P, Env, op, LISTS, ['_events'], id_match(False), origin, param_given=False)
        _TABLE_CACHE[key] = t
    return _TABLE_CACHE[key]


LOG_TEXT = {
    'unordered': 'the pending list does not stay sorted',
    'mutate-while-iterating': 'the list is changed while the loop iterates over it lazily: every second matching event is skipped',
    'early-exit': 'not every event is visited',
    'raises': 'the operation raises',
    'escape': 'an event list escapes to a function that may change it',
    'rebind': 'an event list is re-bound to a new list object (holders of the old list lose track)',
    'unrecognised': 'construct not understood by the per-element analysis',
}


_KNOWN_ATTRS = None


def _known_attributes():
    global _KNOWN_ATTRS
    if _KNOWN_ATTRS is None:
        import json, pathlib
        try:
            _KNOWN_ATTRS = set(json.load(open(pathlib.Path(__file__).parent.parent / 'signatures.json')).get('__attributes__', []))
        except Exception:      # noqa: BLE001
            _KNOWN_ATTRS = set()
        _KNOWN_ATTRS |= {'time', 'paused_at', 'cancelled', 'executed', 'status'}
    return _KNOWN_ATTRS


def check_table(P, Env, N, o, op, expect):
    """expect: {(origin, m): (counts dict, [(attr, value check, text)], needs_sorted_insert)}; every other case must leave the element alone"""
    dk, fn = P.method(Env, op)
    try:
        table = element_table(P, Env, op)
    except elem.Unknown as e:
        raise AnalysisError(f'Environment.{op}: per-element analysis failed ({e})')
    seen_msgs = set()

    def fail(construct, msg, line=None):
        if msg in seen_msgs:
            return
        seen_msgs.add(msg)
        o.fail(P, f'Environment.{op}', construct, msg, file=Env.mod.path, line=line or fn.lineno)

    for (origin, m, given), paths in sorted(table.items()):
        case = f'an event in the {NAMES[origin]} list whose asset id ' + ('matches' if m else 'does not match') + ('' if given else ' (asset id None)')
        exp = expect.get((origin, m)) if given else None
        o.require(bool(paths), f'{op}: no path for {case}')
        for r in paths:
            o.count()
            for kind, detail, line in r['log']:
                fail(detail, f'{LOG_TEXT.get(kind, kind)}: {detail}', line)
            if r['flow'] == 'raise':
                fail(op, f'{case}: the operation raises')
            want_counts = exp[0] if exp else {a: (1 if a == origin else 0) for a in LISTS}
            if r['counts'] != want_counts:
                got = ', '.join(f'{r["counts"][a]}x in the {NAMES[a]} list' for a in LISTS)
                want = ', '.join(f'{want_counts[a]}x in the {NAMES[a]} list' for a in LISTS)
                fail(op, f'{case}: afterwards it is {got}; expected {want}')
            want_writes = exp[1] if exp else []
            # a field the pinned tree does not have (a statistic such as `paused_duration`, a flag for a new query) is additive: nothing that exists reads
            # it -- if something does, the rule about that reader's formula reports it (C06.6 for the resumed time)
            got_attrs = [w[0] for w in r['writes'] if w[0] in _known_attributes() or w[0] in [a for a, _, _ in want_writes]]
            r = dict(r, writes=[w for w in r['writes'] if w[0] in got_attrs])
            if sorted(got_attrs) != sorted(a for a, _, _ in want_writes):
                fail(op, f'{case}: attributes written {got_attrs}; expected {[a for a, _, _ in want_writes]}', r['writes'][0][3] if r['writes'] else None)
            else:
                for attr, ok, text in want_writes:
                    w = [x for x in r['writes'] if x[0] == attr][0]
                    if not ok(w[1]):
                        fail(ast.unparse(w[1]), f'{case}: {text}, found `{attr} = {ast.unparse(w[1])}`', w[3])
            if exp and exp[2]:
                ins = [e for e in r['events'] if e[1] in ('insort', 'heappush') and e[2] == '_events']
                if len(ins) != 1:
                    fail(op, f'{case}: it must be inserted in order into the pending list exactly once')
                else:
                    late = [w for w in r['writes'] if w[0] == 'time' and w[2] > ins[0][0]]
                    if late:
                        fail(op, f'{case}: the event is inserted into the sorted pending list before its time is updated', late[0][3])
            if exp is None and given is True and m is True:
                pass
            if exp is not None and not seen_msgs:
                o.witness((op, origin, m))
    o.sample({'operation': op, 'file': P.rel(Env.mod.path), 'line': fn.lineno,
              'per_element_effect': {f'{NAMES[k[0]]}/{"match" if k[1] else "no match"}/{"id" if k[2] else "None"}':
                                     [{'counts': r['counts'], 'writes': [(w[0], ast.unparse(w[1])) for w in r['writes']], 'ops': [e[1] + ':' + str(e[2]) for e in r['events']]} for r in v][:2]
                                     for k, v in sorted(table.items())}})


def ops_obligations(P):
    """C07.1-3: the per-element effect of pause / unpause / cancel (no dependence on other rule modules, so C01 can re-use it)"""
    Env = P.cls('Environment')
    N = Normalizer(P, Env)
    obs = []

    def is_now(e):
        return N.norm(e, {}).is_({'NOW': 1})

    def is_shifted(e):
        return N.norm(e, {}).is_({'NOW': 1, 'E_.time': 1, 'E_.paused_at': -1})

    def is_true(e):
        return isinstance(e, ast.Constant) and e.value is True

    # ---- C07.1 pause ---------------------------------------------------------------
    o1 = Ob('C07.1', 'K2+K6', 'pause: exactly the pending events with the given asset id leave the pending list (which stays sorted), enter the '
                              'paused list once and are stamped paused_at = now; every other event is left alone')
    obs.append(o1)
    check_table(P, Env, N, o1, 'pause_matching_events', {
        ('_events', True): ({'_events': 0, '_paused_events': 1}, [('paused_at', is_now, 'each paused event must be stamped with the current time')], False)})

    # ---- C07.2 unpause -----------------------------------------------------------------
    o2 = Ob('C07.2', 'K2+K6', 'unpause: exactly the paused events with the given asset id leave the paused list, get the time '
                              'time + now - paused_at, and only then are inserted in order into the pending list; every other event is left alone')
    obs.append(o2)
    check_table(P, Env, N, o2, 'unpause_matching_events', {
        ('_paused_events', True): ({'_events': 1, '_paused_events': 0},
                                   [('time', is_shifted, 'the unpaused time must be time + now - paused_at (pause length added)')], True)})

    # ---- C07.3 cancel --------------------------------------------------------------------
    o3 = Ob('C07.3', 'K2', 'cancel: exactly the pending and the paused events with the given asset id get the cancelled flag; nothing moves')
    obs.append(o3)
    check_table(P, Env, N, o3, 'cancel_matching_events', {
        ('_events', True): ({'_events': 1, '_paused_events': 0}, [('cancelled', is_true, 'each selected event must be marked cancelled')], False),
        ('_paused_events', True): ({'_events': 0, '_paused_events': 1}, [('cancelled', is_true, 'each selected event must be marked cancelled')], False)})
    return obs


def check(ctx):
    P = ctx.P
    Env = P.cls('Environment')
    N = Normalizer(P, Env)
    obs = ops_obligations(P)
    o1, o2, o3 = obs

    # ---- C07.4 nobody else ---------------------------------------------------------------------
    o4 = Ob('C07.4', 'K1', 'no other code moves events between the lists or writes paused_at / cancelled / an event time')
    obs.append(o4)
    movers = inv.covered(P, {'pause_matching_events', 'unpause_matching_events'})     # what they do to the lists is decided by C07.1-3
    MUTATORS = {'append', 'insert', 'extend', 'remove', 'pop', 'clear', 'sort', 'reverse', 'appendleft', 'popleft', 'add', 'discard', '__setitem__', '__delitem__'}
    for s in inv.attr_uses(P, '_paused_events'):
        role = s.extra['role']
        o4.count()
        fn_name = s.func.name if s.func is not None else None
        inside = s.cls is Env and fn_name in movers
        bad = None
        if role[0] == 'store':
            v = s.stmt.value if isinstance(s.stmt, ast.Assign) else None
            if not (s.cls is Env and isinstance(v, ast.List) and not v.elts and s.func is not None and s.func.name in dv.reset_functions(P, Env)[1]):
                bad = 'the paused list is re-bound outside the reset'
        elif role[0] == 'method':
            if role[1] in MUTATORS or role[1] not in ('copy', 'index', 'count'):
                if not inside:
                    bad = f'.{role[1]}() on the paused list outside pause/unpause'
                else:
                    o4.witness((fn_name, role[1]))
        elif role[0] in ('augstore', 'del', 'subscript-store', 'subscript-del'):
            if not inside:
                bad = f'the paused list is changed outside pause/unpause ({role[0]})'
        elif role[0] in ('assign-alias', 'other') and inv.flows_to_read_only_local(s.mod, s.func, s.node):
            pass          # a query: `events = self._paused_events if paused else self._events; return sum(1 for x in events if ...)`
        elif role[0] in ('return', 'assign-alias', 'attr'):
            bad = f'the paused list escapes ({role[0]})'
        elif role[0] == 'other':
            par = s.mod.parents.get(s.node)
            holder = s.mod.parents.get(par)
            if not (isinstance(par, (ast.Tuple, ast.List)) and isinstance(holder, (ast.For, ast.comprehension)) and holder.iter is par):
                bad = f'the paused list escapes ({role[0]})'
        elif role[0] == 'arg' and role[1] not in c01.READ_FUNCS and not inv.readonly_param(P, s.cls, role[1], role[2]) \
                and not (inside and role[1] in elem.INSORT | elem.HEAPPUSH):
            bad = f'the paused list escapes to {role[1]}()'
        if bad:
            o4.fail(P, s.ctx, s.stmt, bad, file=s.mod.path, line=s.line)
    for attr, owners in (('paused_at', inv.covered(P, {'pause_matching_events'})),
                         ('time', inv.covered(P, {'unpause_matching_events'}))):
        for s in inv.attr_stores(P, attr):
            o4.count()
            k = (s.cls.name if s.cls else None, s.func.name if s.func else None)
            # (owners: the operation itself, its private helpers, and a state transition of Event that only the operation calls)
            if not (k == ('Event', '__init__') or (k[0] in ('Environment', 'Event') and k[1] in owners)):
                o4.fail(P, s.ctx, s.stmt, f'Event.{attr} is written outside its owners', file=s.mod.path, line=s.line)
            else:
                o4.witness((attr,) + k)

    own_id_only(ctx, o4)

    # ---- C07.5 --------------------------------------------------------------------------------------
    obs.append(ctx.shared('c01', 'C01.6', 'C07.5', 'a cancelled event stays in its list; it never runs because Event.execute honours the cancelled flag'))
    obs.append(ctx.shared('c01', 'C01.5', 'C07.6', 'events scheduled after a pause or cancel call are unaffected by it: every accepted request is queued as a live, unpaused event '
                          'with the time, owner, action and priority it was given (nothing is dropped as a "duplicate" of a cancelled or paused twin, held back, or retimed)'))
    obs.append(ctx.shared('c01', 'C01.1', 'C07.7', 'taking the events of one asset out of the pending list leaves all others in their order: one queue discipline only '
                          '(an element removed from the middle of a heap breaks the order of the rest)'))
    o8 = Ob('C07.8', 'K8', '"the events of that asset" are selected by id: ids are drawn from one counter for all assets (one counter owned by class Asset, +1 per construction), '
                           'so no two of them -- devices or parts -- share an id')
    from .c06 import unique_ids
    unique_ids(ctx, o8)
    obs.append(o8)
    return obs


CLAIM = {
    'technique': 'static analysis: per-element abstract execution of pause / unpause / cancel (sa/elem.py: membership multiplicity of one arbitrary event in '
                 'every list, attribute writes with substituted right-hand sides, order preservation of the sorted list, helper inlining, path forking), '
                 'linear normal form of the resume time, who-may-write / who-may-call inventories closed under private helpers',
    'level_text': 'For every origin list and both values of the selection predicate the effect of each operation on one arbitrary event is computed on every path '
                  'and compared with the effect the property describes (which list it ends up in, how often, which attributes change to what, in which order); '
                  'sequences of operations are not executed or compared with a reference model.',
    'level_note': 'Trusts list.remove/bisect semantics; Event has no __eq__, so remove(x) removes x itself.',
}
