"""C07 -- pausing, resuming and cancelling events preserves remaining delays."""
import ast
import copy

from .. import AnalysisError
from ..report import Ob
from ..cfg import calls_at, call_attr, is_self_attr
from ..norm import Normalizer, single_defs
from .. import inventory as inv
from . import c01

EXPLANATION = '''
Static analysis of Environment.pause_matching_events / unpause_matching_events / cancel_matching_events
(simprocesd/model/simulation.py).  For each operation the checker extracts its *effect summary*: which list(s) the
affected events are selected from, the selection predicate (normalised, loop variable renamed), and the per-event
actions in order -- independent of whether the selection is written as a comprehension, a filtered loop or a loop
over a copy.  Decided: pause selects from the pending list only, by asset id equality, and moves each selected event
to the paused list stamping paused_at = now (C07.1); unpause selects from the paused list only, removes each event
from it, sets its time to time + now - paused_at and only then inserts it in order into the pending list (C07.2);
cancel selects from both lists and raises the cancelled flag (C07.3); the selection is skipped only for
asset_id None; no other code moves events between the lists or writes paused_at/cancelled/time (C07.4);
Event.execute honours the cancelled flag (C07.5, shared with C01.6).
NOT decided: agreement of whole operation sequences with a reference queue.
'''
ASSUMPTIONS = ['list.remove(x) removes the event itself (Event defines no __eq__)',
               'asset ids are ints, so `x.asset_id == None` never selects anything']
MIN_INSTANCES = 25

ADDERS = {'append', 'add', 'insert', 'appendleft'}


class Rename(ast.NodeTransformer):
    def __init__(self, m):
        self.m = m

    def visit_Name(self, n):
        if n.id in self.m:
            return ast.copy_location(ast.Name(self.m[n.id], n.ctx), n)
        return n


def rn(node, m):
    return ast.unparse(Rename(m).visit(copy.deepcopy(node)))


def attr_sources(expr):
    """names of self.<list> attributes an iterable expression draws from; None if unrecognised"""
    e = expr
    if isinstance(e, ast.Call) and isinstance(e.func, ast.Name) and e.func.id in ('list', 'tuple', 'sorted', 'reversed') and len(e.args) == 1:
        return attr_sources(e.args[0])
    if isinstance(e, ast.Call) and isinstance(e.func, ast.Attribute) and e.func.attr == 'copy' and not e.args:
        return attr_sources(e.func.value)
    if isinstance(e, ast.Subscript) and isinstance(e.slice, ast.Slice) and e.slice.lower is None and e.slice.upper is None:
        return attr_sources(e.value)
    if isinstance(e, ast.BinOp) and isinstance(e.op, ast.Add):
        a, b = attr_sources(e.left), attr_sources(e.right)
        return None if a is None or b is None else a | b
    if isinstance(e, ast.Call) and ast.unparse(e.func) in ('itertools.chain', 'chain'):
        out = set()
        for a in e.args:
            s = attr_sources(a)
            if s is None:
                return None
            out |= s
        return out
    if is_self_attr(e):
        return {e.attr}
    return None


def _inline_selector(P, cls, call):
    """`self._helper(<list>, <id>)` / `Class._helper(...)` whose body is `return <comprehension over a parameter>`:
    the comprehension with the parameters replaced by the argument expressions, else None"""
    f = call.func
    if P is None or cls is None or not isinstance(f, ast.Attribute) or not isinstance(f.value, ast.Name) or f.value.id not in ('self', cls.name):
        return None
    hit = P.lookup(cls, f.attr)
    if not hit or hit[1] != 'method':
        return None
    fn = hit[2]
    params = [a.arg for a in fn.args.args]
    if f.attr not in hit[0].static and params[:1] == ['self']:
        params = params[1:]
    body = [s for s in fn.body if not (isinstance(s, ast.Expr) and isinstance(s.value, ast.Constant))]
    if len(body) != 1 or not isinstance(body[0], ast.Return) or not isinstance(body[0].value, (ast.ListComp, ast.GeneratorExp)) or call.keywords or len(call.args) != len(params):
        return None

    class Sub(ast.NodeTransformer):
        def visit_Name(self, n):
            if n.id in params and isinstance(n.ctx, ast.Load):
                return copy.deepcopy(call.args[params.index(n.id)])
            return n
    return Sub().visit(copy.deepcopy(body[0].value))


def selection_loops(fn, P=None, cls=None):
    """effect summaries of the `for` loops of fn:
    dict(loop=For, sources=set|None, preds=[str], actions=[(stmt, text)], var='E_')"""
    defs = single_defs(fn)
    out = []
    for loop in [n for n in ast.walk(fn) if isinstance(n, ast.For)]:
        if not isinstance(loop.target, ast.Name):
            continue
        v = loop.target.id
        it = loop.iter
        preds = []
        if isinstance(it, ast.Name) and it.id in defs:
            it = defs[it.id]
        if isinstance(it, ast.Call):
            sel = _inline_selector(P, cls, it)
            if sel is not None:
                it = sel
        # is the selection materialised before the loop runs (list / comprehension / copy), or produced lazily while the loop body runs?
        lazy = isinstance(it, ast.GeneratorExp) or is_self_attr(it) or (isinstance(it, ast.Call) and isinstance(it.func, ast.Name) and it.func.id in ('filter', 'iter', 'reversed', 'map'))
        sources = None
        if isinstance(it, (ast.ListComp, ast.GeneratorExp)) and len(it.generators) == 1:
            gen = it.generators[0]
            if isinstance(gen.target, ast.Name) and isinstance(it.elt, ast.Name) and it.elt.id == gen.target.id:
                sources = attr_sources(gen.iter)
                preds += [rn(c, {gen.target.id: 'E_'}) for c in gen.ifs]
        elif isinstance(it, ast.Call) and isinstance(it.func, ast.Name) and it.func.id == 'filter' and len(it.args) == 2 \
                and isinstance(it.args[0], ast.Lambda):
            lam = it.args[0]
            sources = attr_sources(it.args[1])
            preds.append(rn(lam.body, {lam.args.args[0].arg: 'E_'}))
        else:
            sources = attr_sources(it)
        actions = []

        def flat(stmts):
            for s in stmts:
                if isinstance(s, ast.If) and not s.orelse:
                    preds.append(rn(s.test, {v: 'E_'}))
                    flat(s.body)
                elif isinstance(s, ast.If) and len(s.body) == 1 and isinstance(s.body[0], ast.Continue):
                    preds.append('not (' + rn(s.test, {v: 'E_'}) + ')')
                    flat(s.orelse)
                elif isinstance(s, ast.Assign) and all(isinstance(t, ast.Name) for t in s.targets) and not any(isinstance(x, ast.Call) for x in ast.walk(s.value)):
                    pass        # a pure local definition is not an effect on the event (its value is substituted where it is used)
                else:
                    actions.append((s, rn(s, {v: 'E_'})))
        flat(loop.body)
        out.append({'loop': loop, 'sources': sources, 'preds': preds, 'actions': actions, 'iter_name': loop.iter.id if isinstance(loop.iter, ast.Name) else None, 'lazy': lazy})
    # a loop whose only effect is `<local list>.append(<element>)` builds a selection: the loop over that local inherits its
    # sources and predicates (for + if + append is the spelled-out form of the comprehension)
    empties = {t.id for n in ast.walk(fn) if isinstance(n, ast.Assign) and isinstance(n.value, ast.List) and not n.value.elts for t in n.targets if isinstance(t, ast.Name)}
    builders = {}
    for l in out:
        if len(l['actions']) == 1:
            t = l['actions'][0][1]
            for L in empties:
                if t == f'{L}.append(E_)' and l['sources'] is not None:
                    builders[L] = l
    if builders:
        res = []
        for l in out:
            if any(l is b for b in builders.values()):
                continue
            b = builders.get(l['iter_name'])
            if b is not None and not l['preds'] or (b is not None and l['sources'] is None):
                l = dict(l, sources=b['sources'], preds=b['preds'] + l['preds'])
            res.append(l)
        out = res
    return out


def match_pred(p, param):
    """the predicate is asset-id equality with the parameter"""
    try:
        e = ast.parse(p, mode='eval').body
    except SyntaxError:
        return False
    if isinstance(e, ast.Compare) and len(e.ops) == 1 and isinstance(e.ops[0], ast.Eq):
        s = {ast.unparse(e.left), ast.unparse(e.comparators[0])}
        return s == {'E_.asset_id', param}
    return False


def guard_conditions(P, ctx, Env, name, o, param):
    """with an asset id given (not None) every normal path through the operation reaches the selection loop"""
    from ..state import Analysis, State
    g = ctx.graph(Env, name)
    an = Analysis(P, g, [])

    def hook(an_, n, before, after):
        if n.kind == 'for' and n.frame is g.top:
            return after.with_flag('selection')
    an.node_hooks.append(hook)
    s0 = State({})
    s0.locals[(g.top.id, param)] = 'S'
    res = ctx.explore(an, [s0])
    for st in res.exits():
        o.count()
        if 'selection' not in st.flags:
            path = res.path_lines(g.exit, st)
            conds = [n for n in res.path(g.exit, st) if n.kind == 'cond']
            o.fail(P, f'Environment.{name}', conds[-1].ast if conds else name,
                   'with an asset id given, a path through the operation skips the selection of matching events',
                   node=conds[-1] if conds else None, file=Env.mod.path, path=path)
        else:
            o.witness('reaches-selection')


def own_id_only(ctx, o):
    """every pause / unpause / cancel call in the package is made by an asset about its own events (`self.id`): events scheduled under
    the shared id -1 (the resource manager's availability check, the terminate event) and other assets' events are never withheld or
    cancelled by someone else (shared with C10.5)"""
    P = ctx.P
    A = P.cls('Asset') if P.has_cls('Asset') else None
    n = 0
    for nm in ('pause_matching_events', 'unpause_matching_events', 'cancel_matching_events'):
        for s in inv.method_calls(P, nm):
            o.count()
            n += 1
            b = {}
            for p_, a in zip(['asset_id'], s.node.args):
                b[p_] = a
            for kw in s.node.keywords:
                if kw.arg:
                    b[kw.arg] = kw.value
            arg = b.get('asset_id')
            own = arg is not None and ast.unparse(arg) in ('self.id', 'self._id') and s.cls is not None and A is not None and A in s.cls.mro
            if not own:
                o.fail(P, s.ctx, s.node, f'{nm} is called for `{ast.unparse(arg) if arg is not None else "?"}`, not for the calling asset\'s own id: events of other assets, or the events '
                       'scheduled under the shared id -1 (availability check of the resource manager, end of run), would be withheld or cancelled', file=s.mod.path, line=s.line)
            else:
                o.witness((s.ctx, nm))
    o.require(n >= 3, f'only {n} pause/unpause/cancel call sites found')


def check(ctx):
    P = ctx.P
    Env = P.cls('Environment')
    N = Normalizer(P, Env)
    obs = []

    def summary(name, o):
        dk, fn = P.method(Env, name)
        params = [a.arg for a in fn.args.args][1:]
        if not params:
            raise AnalysisError(f'Environment.{name} takes no asset id')
        param = params[0]
        loops = selection_loops(fn, P, Env)
        acting = [l for l in loops if l['actions']]
        o.count()
        if len(acting) != 1:
            o.fail(P, f'Environment.{name}', f'for event in <selection>', f'expected one loop over the selected events, found {len(acting)}',
                   file=Env.mod.path, line=fn.lineno)
            return None, fn, param
        l = acting[0]
        o.count()
        if l['sources'] is None:
            o.fail(P, f'Environment.{name}', l['loop'].iter, 'cannot determine which list the events are selected from', file=Env.mod.path, line=l['loop'].lineno)
            return None, fn, param
        o.count()
        if len(l['preds']) != 1 or not match_pred(l['preds'][0], param):
            o.fail(P, f'Environment.{name}', ' and '.join(l['preds']) or 'no predicate',
                   f'events must be selected by `event.asset_id == {param}` and nothing else; found {l["preds"]}', file=Env.mod.path, line=l['loop'].lineno)
        else:
            o.witness('predicate')
        # a loop that adds to / removes from a list it is lazily iterating skips elements
        o.count()
        if l.get('lazy') and l['sources']:
            touched = [t for _, t in l['actions'] if any(t.startswith(f'self.{src}.') and t.split('.')[2].split('(')[0] in ('remove', 'pop', 'append', 'insert', 'clear') for src in l['sources'])]
            if touched:
                o.fail(P, f'Environment.{name}', l['loop'].iter, f'the selected events are produced lazily from {sorted(l["sources"])} while the loop body modifies that list ({touched[0]}): '
                       'every second matching event is skipped', file=Env.mod.path, line=l['loop'].lineno)
        guard_conditions(P, ctx, Env, name, o, param)
        o.sample({'operation': name, 'selects_from': sorted(l['sources']), 'predicate': l['preds'], 'per_event_actions': [t for _, t in l['actions']],
                  'file': P.rel(Env.mod.path), 'line': l['loop'].lineno})
        return l, fn, param

    # ---- C07.1 pause ---------------------------------------------------------------
    o1 = Ob('C07.1', 'K2+K6', 'pause: select from the pending list only by asset id; each selected event is added to the paused '
                              'list, removed from the pending list and stamped paused_at = now')
    obs.append(o1)
    l, fn, param = summary('pause_matching_events', o1)
    if l:
        o1.count()
        if l['sources'] != {'_events'}:
            o1.fail(P, 'Environment.pause_matching_events', l['loop'].iter, f'pause must select from the pending list only, selects from {sorted(l["sources"])}',
                    file=Env.mod.path, line=l['loop'].lineno)
        else:
            o1.witness('source')
        texts = [t for _, t in l['actions']]
        need = {
            'added to the paused list': lambda t: any(t == f'self._paused_events.{a}(E_)' for a in ADDERS) or t in ('self._paused_events.insert(0, E_)', 'self._paused_events += [E_]'),
            'removed from the pending list': lambda t: t == 'self._events.remove(E_)',
        }
        for what, pred in need.items():
            o1.count()
            k = [t for t in texts if pred(t)]
            if len(k) != 1:
                o1.fail(P, 'Environment.pause_matching_events', what, f'each paused event must be {what} exactly once; found {len(k)} such action(s) among {texts}',
                        file=Env.mod.path, line=l['loop'].lineno)
            else:
                o1.witness(what)
        o1.count()
        stamps = [(s, t) for s, t in l['actions'] if isinstance(s, ast.Assign) and t.startswith('E_.paused_at =')]
        if len(stamps) != 1 or not N.norm(stamps[0][0].value, single_defs(fn)).is_({'NOW': 1}):
            o1.fail(P, 'Environment.pause_matching_events', 'E_.paused_at = self.now', 'each paused event must be stamped with the current time',
                    file=Env.mod.path, line=l['loop'].lineno)
        else:
            o1.witness('stamp')
        for s, t in l['actions']:
            o1.count()
            if not (any(p(t) for p in need.values()) or t.startswith('E_.paused_at =')):
                o1.fail(P, 'Environment.pause_matching_events', t, 'unexpected effect on a paused event', file=Env.mod.path, line=s.lineno)

    # ---- C07.2 unpause -----------------------------------------------------------------
    o2 = Ob('C07.2', 'K2+K6', 'unpause: select from the paused list only by asset id; each is removed from the paused list, its '
                              'time becomes time + now - paused_at, and only then it is inserted in order into the pending list')
    obs.append(o2)
    l, fn, param = summary('unpause_matching_events', o2)
    if l:
        o2.count()
        if l['sources'] != {'_paused_events'}:
            o2.fail(P, 'Environment.unpause_matching_events', l['loop'].iter, f'unpause must select from the paused list only, selects from {sorted(l["sources"])}',
                    file=Env.mod.path, line=l['loop'].lineno)
        else:
            o2.witness('source')
        texts = [t for _, t in l['actions']]
        rem = [i for i, t in enumerate(texts) if t == 'self._paused_events.remove(E_)']
        ins = [i for i, (s, t) in enumerate(l['actions']) if isinstance(s, ast.Expr) and isinstance(s.value, ast.Call)
               and ast.unparse(s.value.func) in c01.SORTED_INSERT and len(s.value.args) >= 2 and t.replace(' ', '').endswith('(self._events,E_)')]
        upd = [i for i, (s, t) in enumerate(l['actions']) if t.startswith('E_.time')]
        o2.count(3)
        if len(rem) != 1:
            o2.fail(P, 'Environment.unpause_matching_events', 'self._paused_events.remove(E_)', f'each resumed event must leave the paused list exactly once; actions: {texts}',
                    file=Env.mod.path, line=l['loop'].lineno)
        else:
            o2.witness('removed')
        if len(ins) != 1:
            o2.fail(P, 'Environment.unpause_matching_events', 'bisect.insort(self._events, E_)', f'each resumed event must be inserted in order into the pending list exactly once; actions: {texts}',
                    file=Env.mod.path, line=l['loop'].lineno)
        else:
            o2.witness('inserted')
        if len(upd) != 1:
            o2.fail(P, 'Environment.unpause_matching_events', 'E_.time += self.now - E_.paused_at', f'each resumed event must have its time shifted exactly once; actions: {texts}',
                    file=Env.mod.path, line=l['loop'].lineno)
        elif ins and upd[0] > ins[0]:
            o2.fail(P, 'Environment.unpause_matching_events', texts[ins[0]], 'the event is inserted into the sorted pending list before its time is updated',
                    file=Env.mod.path, line=l['actions'][ins[0]][0].lineno)
        else:
            o2.witness('order')
        c01.unpause_time_form(P, o2)
        for i, (s, t) in enumerate(l['actions']):
            o2.count()
            if i not in rem + ins + upd:
                o2.fail(P, 'Environment.unpause_matching_events', t, 'unexpected effect on a resumed event', file=Env.mod.path, line=s.lineno)

    # ---- C07.3 cancel --------------------------------------------------------------------
    o3 = Ob('C07.3', 'K2', 'cancel: select from the pending and the paused list by asset id and raise the cancelled flag')
    obs.append(o3)
    l, fn, param = summary('cancel_matching_events', o3)
    if l:
        o3.count()
        if l['sources'] != {'_events', '_paused_events'}:
            o3.fail(P, 'Environment.cancel_matching_events', l['loop'].iter, f'cancel must cover pending and paused events, selects from {sorted(l["sources"])}',
                    file=Env.mod.path, line=l['loop'].lineno)
        else:
            o3.witness('sources')
        texts = [t for _, t in l['actions']]
        o3.count()
        if texts != ['E_.cancelled = True']:
            o3.fail(P, 'Environment.cancel_matching_events', 'E_.cancelled = True', f'each selected event must be marked cancelled (and nothing else); actions: {texts}',
                    file=Env.mod.path, line=l['loop'].lineno)
        else:
            o3.witness('flag')

    # ---- C07.4 nobody else ---------------------------------------------------------------------
    o4 = Ob('C07.4', 'K1', 'no other code moves events between the lists or writes paused_at / cancelled / an event time')
    obs.append(o4)
    allowed_ops = {('pause_matching_events', 'append'), ('pause_matching_events', 'insert'), ('unpause_matching_events', 'remove')}
    for s in inv.attr_uses(P, '_paused_events'):
        role = s.extra['role']
        o4.count()
        fn_name = s.func.name if s.func is not None else None
        bad = None
        if role[0] == 'store':
            v = s.stmt.value if isinstance(s.stmt, ast.Assign) else None
            if not (s.cls is Env and isinstance(v, ast.List) and not v.elts and any(
                    isinstance(t, ast.Attribute) and t.attr == '_now' and isinstance(t.ctx, ast.Store) for t in ast.walk(s.func))):
                bad = 'the paused list is re-bound outside the reset'
        elif role[0] == 'method':
            if role[1] in ('copy', 'index', 'count'):
                pass
            elif s.cls is not Env or (fn_name, role[1]) not in allowed_ops:
                bad = f'.{role[1]}() on the paused list outside pause/unpause'
            else:
                o4.witness((fn_name, role[1]))
        elif role[0] in ('augstore', 'del', 'subscript-store', 'subscript-del', 'return', 'assign-alias', 'other', 'attr'):
            bad = f'the paused list is changed or escapes ({role[0]})'
        elif role[0] == 'arg' and role[1] not in c01.READ_FUNCS and not inv.readonly_param(P, s.cls, role[1], role[2]):
            bad = f'the paused list escapes to {role[1]}()'
        if bad:
            o4.fail(P, s.ctx, s.stmt, bad, file=s.mod.path, line=s.line)
    for attr, owners in (('paused_at', {('Event', '__init__'), ('Environment', 'pause_matching_events')}),
                         ('time', {('Event', '__init__'), ('Environment', 'unpause_matching_events')})):
        for s in inv.attr_stores(P, attr):
            o4.count()
            k = (s.cls.name if s.cls else None, s.func.name if s.func else None)
            if k not in owners:
                o4.fail(P, s.ctx, s.stmt, f'Event.{attr} is written outside its owners', file=s.mod.path, line=s.line)
            else:
                o4.witness((attr,) + k)

    own_id_only(ctx, o4)

    # ---- C07.5 --------------------------------------------------------------------------------------
    o5 = Ob('C07.5', 'K5', 'Event.execute never runs the action of a cancelled event (C01.6)')
    obs.append(o5)
    sub = c01.check(ctx)
    six = [x for x in sub if x.id == 'C01.6'][0]
    o5.instances = six.instances
    o5.nontrivial = set(six.nontrivial)
    for f in six.findings:
        o5.fail(P, f.where, f.construct, f.message, file=f.file, line=f.line, path=f.path)
    o5.samples = six.samples[:2]
    return obs


CLAIM = {
    'technique': 'static analysis: effect-summary extraction of the three selection loops (source lists, normalised predicate, '
                 'ordered per-event actions), linear normal form of the resume time, who-may-write inventories',
    'level_text': 'The three operations are shown to have exactly the effect summaries the property describes, on every path; '
                  'sequences of operations are not executed or compared with a reference model.',
    'level_note': 'Trusts list.remove/bisect semantics; Event has no __eq__, so remove(x) removes x itself.',
}
