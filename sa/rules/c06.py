"""C06 -- cycle times are honoured exactly, one part at a time, across interruptions."""
import ast
import itertools

from .. import AnalysisError
from ..report import Ob
from ..cfg import calls_at, call_attr, is_self_attr
from ..state import Analysis, State, TOP, sched_calls, sched_event_type, sched_action_name, bind_call, SCHED_PARAMS
from ..norm import Normalizer, cmp_norm, FrameEnv
from .. import inventory as inv
from .. import devices as dv
from . import c01
from .c02 import construct_and_initialize

EXPLANATION = '''
Static analysis of the cycle-timer mechanism of PartHandler / PartProcessor / Sink / Source (and, trivially, Buffer and
PartBatcher which never use it).  The device's own FINISH_PROCESSING event is a ghost variable with values none / live /
paused, driven by the schedule_event, pause/unpause/cancel_matching_events call sites.
Decided: (C06.1) the timer invariant -- handler/processor/sink: a timer exists iff a part is in process (input slot full,
output empty), it is paused iff the machine is shut down, never two timers; source: a timer exists iff the output is
empty -- holds after construction+initialisation and is preserved by every computed entry point on every path, the
FINISH event action being enabled only for a live timer; (C06.2) the only FINISH_PROCESSING site is due at
now + max(0, cycle_time + one-shot offset + time_offset), carries the device id and the _finish_cycle action, resets the
offset on every path, and finishes synchronously exactly when that duration is <= 0; (C06.3) the cycle time is read after
the receive callbacks ran; (C06.4) maintenance pauses, failure cancels, restore unpauses the device's events by its own
id; (C06.5) every device event is scheduled under the device's id; (C06.6) an unpaused event keeps its remaining delay
(time + now - paused_at); (C06.7) nothing else schedules FINISH_PROCESSING or the _finish_cycle action; (C06.8) a part in
process leaves the input slot only through the timer action or a failure, a source's output appears only through it.
NOT decided: the elapsed operational time of a concrete part (arithmetic over a run).
'''
ASSUMPTIONS = ['run-to-completion of entry points', 'user callbacks do not touch the device slots or its events']
MIN_INSTANCES = 300

TIMED = ['PartHandler', 'PartProcessor', 'Sink', 'Source']
UNTIMED = ['Buffer', 'PartBatcher']


def timer_inv(cname, f):
    t = f['#timer']
    down = f.get('_is_shut_down', 'F') == 'T'
    if not dv.slot_invariant(cname, f):
        return False
    if cname in UNTIMED:
        return t == 'F'
    if cname == 'Source':
        return (t == 'T') == (not dv.full(f['_output']))
    inproc = dv.full(f['_part']) and not dv.full(f['_output'])
    if inproc:
        return t == ('P' if down else 'T')
    return t == 'F'


def _inline_id_helpers(P, A, init):
    """`self._id = Asset._next_id()` with `def _next_id(): Asset._id_counter += 1; return Asset._id_counter` (static / class method of Asset
    without parameters, straight-line body ending in its only return) reads as the helper's statements followed by `self._id = <returned value>`"""
    import copy
    out = copy.copy(init)
    body = []
    changed = False
    for st in init.body:
        v = st.value if isinstance(st, ast.Assign) and len(st.targets) == 1 else None
        fd = None
        if isinstance(v, ast.Call) and not v.args and not v.keywords and isinstance(v.func, ast.Attribute) \
                and ast.unparse(v.func.value) in ('Asset', 'self', 'type(self)', 'self.__class__') and v.func.attr in A.methods:
            fd = A.methods[v.func.attr]
            hb = [s_ for s_ in fd.body if not (isinstance(s_, ast.Expr) and isinstance(s_.value, ast.Constant))]
            params = [a.arg for a in fd.args.args]
            deco = [ast.unparse(d) for d in fd.decorator_list]
            straight = hb and isinstance(hb[-1], ast.Return) and hb[-1].value is not None and \
                all(isinstance(s_, (ast.Assign, ast.AugAssign)) for s_ in hb[:-1]) and not any(isinstance(x, ast.Return) for s_ in hb[:-1] for x in ast.walk(s_))
            if not straight or not ((deco == ['staticmethod'] and not params) or (deco == ['classmethod'] and len(params) == 1) or (not deco and params == ['self'])):
                fd = None
        if fd is None:
            body.append(st)
            continue
        recv = ast.unparse(v.func.value)

        class Put(ast.NodeTransformer):
            def visit_Name(self_, x):
                if params and x.id == params[0] and isinstance(x.ctx, ast.Load):
                    return ast.copy_location(ast.parse(recv if deco != ['classmethod'] else ('Asset' if recv == 'Asset' else 'type(self)'), mode='eval').body, x)
                return x
        for s_ in hb[:-1]:
            s2 = ast.fix_missing_locations(Put().visit(copy.deepcopy(s_)))
            for x in ast.walk(s2):
                if hasattr(x, 'lineno'):
                    x.lineno = st.lineno
            body.append(s2)
        fin = copy.copy(st)
        fin.value = Put().visit(copy.deepcopy(hb[-1].value))
        fin.lineno = st.lineno + 0.5
        body.append(ast.fix_missing_locations(fin)); fin.lineno = st.lineno + 0.5
        changed = True
    if not changed:
        return init
    out.body = body
    return out


def unique_ids(ctx, o):
    """asset ids are unique across ALL classes: one counter, owned by class Asset, incremented by one per construction, copied into _id
    (events are paused / cancelled by id, so two devices sharing an id would stop each other's timers)"""
    P = ctx.P
    A = P.cls('Asset')
    init = _inline_id_helpers(P, A, P.method(A, '__init__')[1])
    incs, ids = [], []
    for x in ast.walk(init):
        if isinstance(x, (ast.AugAssign, ast.Assign)):
            tg = x.targets if isinstance(x, ast.Assign) else [x.target]
            for t in tg:
                if isinstance(t, ast.Attribute) and t.attr == '_id_counter':
                    incs.append((x, t))
                if is_self_attr(t, '_id'):
                    ids.append(x)
    o.count()
    ok = len(incs) == 1 and len(ids) == 1
    if ok:
        x, t = incs[0]
        owner = isinstance(t.value, ast.Name) and t.value.id == 'Asset'
        N = Normalizer(P, A)
        from ..norm import single_defs
        defs = single_defs(init)
        newv = N.norm(ast.BinOp(left=ast.Attribute(value=t.value, attr=t.attr, ctx=ast.Load()), op=x.op, right=x.value) if isinstance(x, ast.AugAssign) else x.value, defs)
        step = any(k.endswith('_id_counter') and v == 1 for k, v in newv.terms.items()) and newv.const == 1 and len(newv.terms) == 1
        # the id is the new counter value: read back after the increment, or the local `counter + 1` that was also stored into the counter
        idv = N.norm(ids[0].value, defs) if isinstance(ids[0], ast.Assign) else None
        src = isinstance(ids[0], ast.Assign) and ((ast.unparse(ids[0].value) == 'Asset._id_counter' and ids[0].lineno > x.lineno)
                                                   or (isinstance(ids[0].value, ast.Name) and idv is not None and idv.key() == newv.key()
                                                       and isinstance(x, ast.Assign) and isinstance(x.value, ast.Name) and x.value.id == ids[0].value.id))
        ok = owner and step and src
    if not ok:
        o.fail(P, 'Asset.__init__', 'Asset._id_counter += 1; self._id = Asset._id_counter',
               'asset ids are not drawn from the single counter owned by class Asset (a counter reached through type(self) / cls is created per subclass on first write): '
               'two devices of different classes can share an id, and pausing or cancelling the events of one stops the other', file=A.mod.path, line=init.lineno)
    else:
        o.witness('unique-ids')
    id_writers = inv.covered(P, {'__init__'})        # the constructor and private helpers only constructors call (`Asset._next_id()`)
    for s_ in inv.attr_stores(P, '_id') + inv.attr_stores(P, '_id_counter'):
        o.count()
        if s_.func is None:
            continue          # class attribute `_id_counter = 0`
        if not (s_.cls is A and s_.func.name in id_writers):
            o.fail(P, s_.ctx, s_.stmt, 'an asset id / the id counter is written outside Asset.__init__', file=s_.mod.path, line=s_.line)
    pg = P.lookup_prop(A, 'id', 'get')
    o.count()
    if not pg or ast.unparse(pg[1].body[-1]) != 'return self._id':
        o.fail(P, 'Asset.id', 'return self._id', 'Asset.id does not report the id', file=A.mod.path, line=A.node.lineno)


def check(ctx):
    P = ctx.P
    obs = []
    actions = dv.action_event_types(P)

    # ---- C06.1 timer invariant ------------------------------------------------------------
    o = Ob('C06.1', 'K5', 'cycle-timer invariant, inductive over all entry points: timer exists <=> part in process (source: <=> output empty); '
                          'paused <=> machine down; never two timers')
    obs.append(o)
    tracked = ['_part', '_output', '_is_shut_down', '_block_input', '#timer']
    for c in dv.device_classes(P, TIMED + UNTIMED):
        dom = dv.base_domain(P, c)
        dom['_block_input'] = ['F']
        dom['#timer'] = ['T', 'F', 'P'] if dv.is_processor(P, c) else ['T', 'F']     # only a processor can be shut down

        def entry_filter(e, kind, s0, c=c):
            f = s0.fields
            if 'FINISH_PROCESSING' in actions.get(e, ()):
                if f['#timer'] != 'T':
                    return None            # the action fires only for a live timer, which is thereby consumed
                s0 = s0.with_field('#timer', 'F')
            return s0
        for e, kind, g, s0, res in dv.explore_all(ctx, c, tracked, dom, lambda f, c=c: timer_inv(c.name, f),
                                                  node_hooks=[dv.ghost_hook({'#timer'}, double_flag='DOUBLE-TIMER')],
                                                  call_models={'generate_part': 'S', 'reserve_resources': TOP, 'Batch': 'S'},
                                                  entry_filter=entry_filter):
            for st in res.exits():
                o.count()
                if st.fields['#timer'] != 'F':
                    o.witness((c.name, e))
                if timer_inv(c.name, st.fields) and 'DOUBLE-TIMER' not in st.flags:
                    continue
                f = st.fields
                if 'DOUBLE-TIMER' in st.flags:
                    what = 'a second cycle timer is started while one is pending'
                elif f['#timer'] != 'F' and not (dv.full(f['_part']) and not dv.full(f['_output'])) and c.name != 'Source':
                    what = f'a {"paused" if f["#timer"] == "P" else "live"} cycle timer survives although no part is in process (stale timer)'
                elif f['#timer'] == 'F':
                    what = 'a part is in process (or a source is idle) without a cycle timer'
                else:
                    what = 'the cycle timer is live while the machine is shut down, or paused while it is up'
                ln = dv.last_node(res, g.exit, st, lambda n: n.kind in ('stmt', 'cond', 'return') and n.ast is not None)
                o.fail(P, f'{c.name}.{e}', ln.ast if ln else e, f'{what}: entry {s0.show()} -> exit {st.show()}', node=ln, file=c.mod.path,
                       path=res.path_lines(g.exit, st))
        for st in construct_and_initialize(ctx, c, tracked, extra_hooks=[dv.ghost_hook({'#timer'}, double_flag='DOUBLE-TIMER')]):
            o.count()
            f = dict(st.fields)
            for k in ('_is_shut_down', '_block_input'):
                if f.get(k) == TOP:
                    f[k] = 'F'
            if not timer_inv(c.name, f) or 'DOUBLE-TIMER' in st.flags:
                o.fail(P, f'{c.name}.initialize', 'initialize', f'after construction and initialisation the timer invariant does not hold: {st.show()}',
                       file=c.mod.path, line=c.node.lineno)
            else:
                o.witness((c.name, 'base'))
    o.sample({'invariant': 'handler/processor/sink: #timer in {live, paused} <=> (_part full and _output empty); paused <=> shut down; source: #timer <=> _output empty',
              'entry_points_leaving_a_timer': sorted(f'{a}.{b}' for a, b in o.nontrivial)[:12]})

    # ---- C06.2 the timer site ---------------------------------------------------------------
    o = Ob('C06.2', 'K8+K6', 'the FINISH_PROCESSING site: due at now + max(0, cycle_time + offset + time_offset), own id, action _finish_cycle; '
                             'offset reset on every path; synchronous finish exactly when the duration is <= 0')
    obs.append(o)
    dv.check_defaults(ctx, o, [(k, '__init__', 'cycle_time') for k in ('PartHandler', 'PartProcessor', 'Sink', 'Source')])
    roots = {'PartHandler': ['give_part'], 'PartProcessor': ['give_part'], 'Sink': ['give_part'], 'Source': ['initialize', '_pass_part_downstream']}
    for cname, ents in roots.items():
        if not P.has_cls(cname):
            continue
        c = P.cls(cname)
        N = Normalizer(P, c)
        nsites = 0
        for e in ents:
            g = ctx.graph(c, e)
            for n in g.nodes.values():
                for cl in sched_calls(g, n):
                    if sched_event_type(cl) != 'FINISH_PROCESSING':
                        continue
                    nsites += 1
                    o.count()
                    b = bind_call(cl, SCHED_PARAMS)
                    env = FrameEnv(n.frame)
                    t = N.norm(b['time'], env) if 'time' in b else None
                    dur_atoms = [k for k in (t.terms if t else {}) if k.startswith('max(')]
                    want_atom = 'max(0, self._cycle_time + self._next_cycle_time_offset)'
                    raw = {'self._cycle_time': 1, 'self._next_cycle_time_offset': 1}

                    def guarded_positive():
                        # `if d > 0: schedule(now + d)` with d the unclamped duration: on that edge max(0, d) is d
                        for m in g.nodes.values():
                            if m.kind != 'cond':
                                continue
                            for truth in (True, False):
                                r = cmp_norm(N, m.ast, FrameEnv(m.frame), truth, names=True)
                                if r and r[1] == '<=' and (r[0].is_({want_atom: 1}) or r[0].is_(raw)):
                                    pos_lbl = 'F' if truth else 'T'
                                    if n.id not in g.reach_edges([g.entry], cut_edges={(m.id, pos_lbl)}):
                                        return True
                        return False
                    if t is not None and t.is_(dict(raw, NOW=1)) and guarded_positive():
                        o.witness((cname, e, 'time'))
                    elif t is None or not t.is_({'NOW': 1, want_atom: 1}):
                        o.fail(P, f'{cname}.{e}', cl, f'the cycle timer must be due at now + max(0, cycle_time + one-shot offset); found `{t.key() if t else None}`', node=n)
                    else:
                        o.witness((cname, e, 'time'))
                        o.sample({'class': cname, 'via': e, 'site': f'{P.rel(n.file)}:{n.line}', 'time_normal_form': t.key()})
                    if ast.unparse(b.get('asset_id', ast.Constant(None))) != 'self.id':
                        o.fail(P, f'{cname}.{e}', cl, 'the cycle timer is not scheduled under the device id (it would not be paused/cancelled with the device)', node=n)
                    if sched_action_name(cl) != '_finish_cycle':
                        o.fail(P, f'{cname}.{e}', cl, 'the cycle timer does not run _finish_cycle', node=n)
                    # offset reset on every path that starts a cycle (timed or synchronous); sync finish iff duration <= 0.  Decided on the
                    # whole entry graph, so the computation, the reset and the timer may live in different helpers
                    sync = [x for x in g.nodes.values() if x.kind == 'call_enter' and x.frame.func.name == '_finish_cycle' and x.frame.parent is not None]
                    resets = [m for m in g.nodes.values() if m.kind == 'stmt' and isinstance(m.ast, ast.Assign)
                              and any(is_self_attr(x, '_next_cycle_time_offset') for x in m.ast.targets)
                              and isinstance(m.ast.value, ast.Constant) and m.ast.value.value == 0]
                    o.count()
                    starts = [n] + sync
                    unreset = [x for x in starts if x.id in g.reach([g.entry], avoid={m.id for m in resets}, follow=lambda l: l != 'exc')]
                    if not resets or unreset:
                        o.fail(P, f'{cname}.{e}', 'self._next_cycle_time_offset = 0', 'the one-shot offset is not reset on every path that starts a cycle', node=n)
                    else:
                        # the offset is read (for the duration) before it is reset: no read of it between a reset and the start of the cycle
                        after_reset = g.reach([x for m in resets for l, x in g.succ[m.id] if l != 'exc'], follow=lambda l: l != 'exc')
                        def reads_offset(m):
                            return m.kind in ('stmt', 'cond', 'return') and m.ast is not None and m not in resets and any(
                                isinstance(x, ast.Attribute) and x.attr == '_next_cycle_time_offset' and isinstance(x.ctx, ast.Load) for x in ast.walk(m.ast))
                        late = [m for m in g.nodes.values() if m.id in after_reset and reads_offset(m)
                                and any(x.id in g.reach([m.id], follow=lambda l: l != 'exc') for x in starts)]
                        if late:
                            o.fail(P, f'{cname}.{e}', 'self._next_cycle_time_offset = 0', 'the one-shot offset is reset before it is read', node=late[0])
                        else:
                            o.witness((cname, e, 'reset'))
                    conds = [m for m in g.nodes.values() if m.kind == 'cond']
                    o.count()
                    okc = False
                    for m in conds:
                        for truth in (True, False):
                            r = cmp_norm(N, m.ast, FrameEnv(m.frame), truth, names=True)
                            if r and r[1] == '<=' and (r[0].is_({want_atom: 1}) or r[0].is_(raw)):       # (d <= 0 <=> max(0, d) <= 0)
                                zero_lbl, pos_lbl = ('T', 'F') if truth else ('F', 'T')
                                zr = g.reach([x for l, x in g.succ[m.id] if l == zero_lbl], follow=lambda l: l != 'exc')
                                pr = g.reach([x for l, x in g.succ[m.id] if l == pos_lbl], follow=lambda l: l != 'exc')
                                if sync and any(x.id in zr for x in sync) and n.id not in zr and n.id in pr and not any(x.id in pr for x in sync):
                                    okc = True
                    if not okc:
                        o.fail(P, f'{cname}.{e}', 'if next_cycle_time <= 0: self._finish_cycle()', 'the cycle must finish synchronously exactly when its duration is <= 0 and be timed otherwise', node=n)
                    else:
                        o.witness((cname, e, 'zero'))
        o.count()
        if nsites == 0:
            o.fail(P, cname, 'schedule_event(..., EventType.FINISH_PROCESSING)', f'{cname} never starts a cycle timer', file=c.mod.path, line=c.node.lineno)
    # cycle_time setter / offset accumulate
    PH = P.cls('PartHandler')
    N = Normalizer(P, PH)
    o.count()
    if N.norm(ast.parse('self.cycle_time', mode='eval').body).key() != 'self._cycle_time':
        o.fail(P, 'PartHandler.cycle_time', 'return self._cycle_time', 'cycle_time does not report the stored cycle time', file=PH.mod.path, line=PH.node.lineno)
    fn = P.method(PH, 'offset_next_cycle_time')[1]
    o.count()
    body = [s for s in fn.body if not (isinstance(s, ast.Expr) and isinstance(s.value, ast.Constant))]
    pn = fn.args.args[1].arg
    acc = False
    if len(body) == 1:
        s_ = body[0]
        if isinstance(s_, ast.AugAssign) and is_self_attr(s_.target, '_next_cycle_time_offset') and isinstance(s_.op, ast.Add) and ast.unparse(s_.value) == pn:
            acc = True
        if isinstance(s_, ast.Assign) and is_self_attr(s_.targets[0], '_next_cycle_time_offset') and N.norm(s_.value).is_({'self._next_cycle_time_offset': 1, pn: 1}):
            acc = True
    if not acc:
        o.fail(P, 'PartHandler.offset_next_cycle_time', 'self._next_cycle_time_offset += offset', 'one-shot offsets must accumulate', file=PH.mod.path, line=fn.lineno)
    for s in inv.attr_stores(P, '_next_cycle_time_offset'):
        o.count()
        if not (s.cls is PH and s.func.name in inv.covered(P, {'__init__', 'offset_next_cycle_time', '_schedule_finish_cycle'})):
            o.fail(P, s.ctx, s.stmt, 'the one-shot cycle offset is written outside its owners', file=s.mod.path, line=s.line)
    for s in inv.attr_stores(P, '_cycle_time'):
        o.count()
        placeholder = s.cls is PH and s.func.name == '__init__' and isinstance(s.stmt, ast.Assign) and isinstance(s.stmt.value, ast.Constant) and s.stmt.value.value is None
        if not ((s.cls is PH and s.func.name == 'cycle_time') or placeholder):       # (`= None` in the constructor only declares the field)
            o.fail(P, s.ctx, s.stmt, 'the cycle time is written outside its setter', file=s.mod.path, line=s.line)

    # ---- C06.3 callbacks before the cycle time is read -------------------------------------------
    o = Ob('C06.3', 'K2', 'on acceptance the receive callbacks run before the cycle time is read (a callback can set the cycle time of the part that triggered it)')
    obs.append(o)
    for cname in ('PartHandler', 'PartProcessor', 'Sink'):
        if not P.has_cls(cname):
            continue
        c = P.cls(cname)
        g = ctx.graph(c, 'give_part')
        loops = [n for n in g.nodes.values() if n.kind == 'for' and '_received_part_callbacks' in ast.unparse(n.ast.iter)]
        reads = [n for n in g.nodes.values() if n.kind in ('stmt', 'cond') and ('self.cycle_time' in n.src() or 'self._cycle_time' in n.src())]
        o.count()
        if len(loops) != 1 or not reads:
            o.fail(P, f'{cname}.give_part', 'for c in self._received_part_callbacks: c(self, self._part)',
                   f'expected the receive-callback loop and a read of the cycle time on the accept path (found {len(loops)} loop(s), {len(reads)} read(s))', file=c.mod.path, line=c.node.lineno)
            continue
        lp = loops[0]
        for r in reads:
            o.count()
            if not g.dominated_by(r.id, {lp.id}):
                o.fail(P, f'{cname}.give_part', None, 'the cycle time is read before the receive callbacks have run', node=r)
            else:
                o.witness((cname, r.line))
        body_ok = any(isinstance(x, ast.Call) and isinstance(x.func, ast.Name) and x.func.id == (lp.ast.target.id if isinstance(lp.ast.target, ast.Name) else None)
                      and [ast.unparse(a) for a in x.args] == ['self', 'self._part'] for s_ in lp.ast.body for x in ast.walk(s_))
        o.count()
        if not body_ok:
            o.fail(P, f'{cname}.give_part', None, 'receive callbacks must be called as callback(device, part)', node=lp)
        o.sample({'class': cname, 'callback_loop': f'{P.rel(lp.file)}:{lp.line}', 'cycle_time_reads': [f'{P.rel(r.file)}:{r.line}' for r in reads]})

    # ---- C06.4 pause / cancel / unpause with the device ------------------------------------------
    o = Ob('C06.4', 'K2', 'maintenance shutdown pauses, failure cancels, restore unpauses the events of the device id')
    obs.append(o)
    if P.has_cls('PartProcessor'):
        c = P.cls('PartProcessor')

        def hook(an, n, before, after):
            st = after
            for cl in calls_at(an.g, n):
                nm = call_attr(cl)
                if nm in ('pause_matching_events', 'cancel_matching_events', 'unpause_matching_events'):
                    b = bind_call(cl, ['asset_id'])
                    good = 'asset_id' in b and ast.unparse(b['asset_id']) == 'self.id'
                    st = st.with_flag(nm.split('_')[0] + ('' if good else '-wrong-id'))
            return st
        cases = [('shutdown', 'F', {'pause'}), ('_fail', 'F', {'cancel'}), ('_fail', 'T', {'cancel'}), ('restore_functionality', 'T', {'unpause'}),
                 ('shutdown', 'T', set()), ('restore_functionality', 'F', set())]
        for e, sd, want in cases:
            g = ctx.graph(c, e)
            an = Analysis(P, g, ['_part', '_output', '_is_shut_down', '_block_input'])
            an.node_hooks.append(hook)
            for pv in 'NS':
                s0 = State({'_part': pv, '_output': 'N', '_is_shut_down': sd, '_block_input': 'F'})
                res = ctx.explore(an, [s0])
                for st in res.exits():
                    o.count()
                    got = {f for f in st.flags if f.split('-')[0] in ('pause', 'cancel', 'unpause')}
                    o.witness((e, sd))
                    if got != want:
                        o.fail(P, f'PartProcessor.{e}', f'self._env.{"/".join(sorted(want)) or "no"}_matching_events(asset_id = self.id)',
                               f'{e} entered with the machine {"down" if sd == "T" else "up"} must {"only " + ", ".join(sorted(want)) if want else "leave alone"} '
                               f'the events of the device id; it does: {sorted(got) or "nothing"}', file=c.mod.path,
                               line=P.method(c, e)[1].lineno, path=res.path_lines(g.exit, st))
        o.sample({'cases': [f'{e} (down={sd}) -> {sorted(w) or "nothing"}' for e, sd, w in cases]})

    # ---- C06.5 every device event carries the device id ----------------------------------------------
    o = Ob('C06.5', 'K8', 'every schedule_event in an Asset subclass passes self.id; ResourceManager and Environment.run pass -1; ids are unique (one counter owned by Asset)')
    obs.append(o)
    unique_ids(ctx, o)
    Asset = P.cls('Asset')
    nasset = 0
    for s in inv.method_calls(P, 'schedule_event'):
        o.count()
        b = bind_call(s.node, SCHED_PARAMS)
        aid = ast.unparse(b['asset_id']) if 'asset_id' in b else None
        if s.cls is not None and Asset in s.cls.mro:
            nasset += 1
            if aid != 'self.id':
                o.fail(P, s.ctx, s.node, 'a device event is not scheduled under the device id, so a shutdown of the device would not pause/cancel it', file=s.mod.path, line=s.line)
            else:
                o.witness(s.ctx + ':' + str(s.line))
        elif aid != '-1':
            o.fail(P, s.ctx, s.node, 'an event that belongs to no device must be scheduled under id -1', file=s.mod.path, line=s.line)
    o.stats = {'sites_in_asset_subclasses': nasset}
    o.require(nasset >= 6, f'only {nasset} schedule_event sites found in Asset subclasses (expected >= 6)')
    idp = P.lookup_prop(Asset, 'id', 'get')
    o.count()
    if not idp or ast.unparse(idp[1].body[-1]) != 'return self._id':
        o.fail(P, 'Asset.id', 'return self._id', 'Asset.id does not report the asset id', file=Asset.mod.path, line=Asset.node.lineno)

    # ---- C06.6 -------------------------------------------------------------------------------------------
    o = Ob('C06.6', 'K6', 'an unpaused event is due at time + now - paused_at: the pause length is added, never lost (C07.2)')
    obs.append(o)
    c01.unpause_time_form(P, o)

    # ---- C06.7 nobody else arms or fires the timer ----------------------------------------------------------
    o = Ob('C06.7', 'K1', 'FINISH_PROCESSING is scheduled at one site only, with the _finish_cycle action; _finish_cycle is scheduled with no other type')
    obs.append(o)
    sites = [s for s in inv.method_calls(P, 'schedule_event') if sched_event_type(s.node) == 'FINISH_PROCESSING' or sched_action_name(s.node) == '_finish_cycle']
    for s in sites:
        o.count()
        if not (s.cls is P.cls('PartHandler') and sched_event_type(s.node) == 'FINISH_PROCESSING' and sched_action_name(s.node) == '_finish_cycle'):
            o.fail(P, s.ctx, s.node, 'a cycle-finish event is scheduled outside PartHandler or with a mismatching type/action', file=s.mod.path, line=s.line)
        else:
            o.witness(s.ctx)
    o.count()
    if len(sites) != 1:
        o.fail(P, 'PartHandler', 'schedule_event(..., self._finish_cycle, EventType.FINISH_PROCESSING)', f'expected exactly one cycle-timer site, found {len(sites)}',
               file=PH.mod.path, line=PH.node.lineno)

    # ---- C06.8 no part finished early ---------------------------------------------------------------------------
    o = Ob('C06.8', 'K5', 'a part in process leaves the input slot only through the timer action (or a failure); a source output appears only through it')
    obs.append(o)
    for c in dv.device_classes(P, TIMED):
        dom = dv.base_domain(P, c)
        dom['_block_input'] = ['F']
        for e, kind, g, s0, res in dv.explore_all(ctx, c, ['_part', '_output', '_is_shut_down', '_block_input'], dom,
                                                  lambda f, c=c: dv.slot_invariant(c.name, f),
                                                  call_models={'generate_part': 'S', 'reserve_resources': TOP}):
            if 'FINISH_PROCESSING' in actions.get(e, ()) or 'FAIL' in actions.get(e, ()):
                continue
            for st in res.exits():
                o.count()
                if c.name == 'Source':
                    if not dv.full(s0.fields['_output']):
                        o.witness((c.name, e))
                        if dv.full(st.fields['_output']):
                            ln = dv.last_node(res, g.exit, st, lambda n: n.kind == 'stmt' and '_output' in n.src())
                            o.fail(P, f'{c.name}.{e}', ln.ast if ln else e, 'a source produces a part without its cycle timer having fired', node=ln, file=c.mod.path,
                                   path=res.path_lines(g.exit, st))
                elif dv.full(s0.fields['_part']):
                    o.witness((c.name, e))
                    if not dv.full(st.fields['_part']):
                        ln = dv.last_node(res, g.exit, st, lambda n: n.kind == 'stmt' and '_part' in n.src())
                        o.fail(P, f'{c.name}.{e}', ln.ast if ln else e, 'a part in process leaves the input slot without its cycle timer having fired', node=ln,
                               file=c.mod.path, path=res.path_lines(g.exit, st))
    obs.append(ctx.shared('c01', 'C01.5', 'C06.10', 'the cycle timer of every accepted part is an event: every request is queued, for the instant, the device and the action it was '
                          'made for (a timer that is dropped as the twin of a cancelled one never fires and the part is never released)'))
    obs.append(ctx.shared('c07', 'C07.1', 'C06.9', 'the remaining cycle time survives a shutdown because the pause length now - paused_at is added on resume; that needs every '
                          'paused timer to be stamped with the time of *this* pause'))
    obs.append(ctx.shared('c07', 'C07.2', 'C06.12', 'the part in process of a restored machine is finished after exactly its remaining cycle time: the resume walks a copy of '
                          'the paused list, so *every* paused timer of the machine (not every second one) returns to the queue, shifted by the length of the pause'))
    obs.append(dv.falsy_default_obligation(ctx, 'C06.11', ['PartHandler', 'PartProcessor', 'Source', 'Sink', 'PartBatcher'], 'the cycle time of a device is the number it was given (0 is a legal cycle time)'))
    return obs


CLAIM = {
    'technique': 'static analysis: inductive typestate invariant over a ghost for the device cycle timer (none/live/paused) across all entry points; '
                 'call-site table with contextual linear normal forms; dominance checks',
    'level_text': 'Exactly one timer per part in process, armed from the right expression under the device id, paused/cancelled/resumed with the '
                  'machine and never stale -- for all paths of all entry points and abstract states; elapsed times of concrete runs are not computed.',
    'level_note': 'Run-to-completion; the queue operations have the summaries decided by C07.',
}
