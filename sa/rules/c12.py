"""C12 -- maintainer: capacity, one order per target, request order, exact durations."""
import ast

from .. import AnalysisError
from ..report import Ob
from ..cfg import calls_at, call_attr, is_self_attr
from ..state import Analysis, State, TOP, sched_calls, sched_action_name, sched_event_type, bind_call, SCHED_PARAMS
from ..norm import Normalizer, cmp_norm, FrameEnv, single_defs
from .. import inventory as inv
from .. import devices as dv

EXPLANATION = '''
Static analysis of simprocesd/model/factory_floor/maintainer.py.
Decided: (C12.1) create_work_order returns False exactly on the true edge of the duplicate test and otherwise records the
order (enter_queue), appends it at the tail of the queue with the capacity reported by the target, triggers a scan and
returns True; (C12.2) the duplicate test scans the queue and the active list with target == target and tag == tag;
(C12.3) the scan over the queue starts at index 0 and every path through its body either starts the order at the current
index -- only when needed - capacity + utilization <= 0 and no active order has the same target; then: removed from the
queue, appended to the active list, utilization += needed, START_WORK scheduled at now for that same order -- or advances
the index; (C12.4) starting an order reads the duration from the target, records start_work_order, charges the target's
cost once, calls start_work once and schedules FINISH_WORK at now + duration for the same order; (C12.5) finishing calls
end_work once, utilization -= needed, removes the order from the active list, records finish_work_order and re-scans;
(C12.6) utilization and both lists have no other writer; available_capacity = capacity - utilization.
NOT decided: that over a stream of requests the capacity in use never exceeds the total (a sum over overlapping orders),
exact durations of a run.
'''
ASSUMPTIONS = ['targets report consistent capacities for the same order', 'hooks of targets do not touch the maintainer lists directly']
MIN_INSTANCES = 25


def check(ctx):
    P = ctx.P
    M = P.cls('Maintainer')
    N = Normalizer(P, M)
    obs = []

    # ---- C12.1 ---------------------------------------------------------------------------------
    o = Ob('C12.1', 'K2', 'create_work_order: False <=> duplicate; otherwise enter_queue recorded, order appended at the tail with the reported capacity, scan triggered, True')
    obs.append(o)
    RH = dv.record_helper(P, M)
    if RH is None:
        raise AnalysisError('Maintainer: the helper that records work-order datapoints was not found')
    g = ctx.graph(M, 'create_work_order', boolean=True, opaque=('_is_work_order_requested', 'try_working_requests', RH[0]))
    fn = P.method(M, 'create_work_order')[1]
    dup = [n for n in g.nodes.values() if n.kind == 'cond' and isinstance(n.ast, ast.Call) and call_attr(n.ast) == '_is_work_order_requested']
    o.count()
    params = [a.arg for a in fn.args.args][1:]
    if len(dup) != 1 or [ast.unparse(a) for a in dup[0].ast.args] != params[:2]:
        o.fail(P, 'Maintainer.create_work_order', 'if self._is_work_order_requested(target, tag): return False', 'the duplicate test on (target, tag) is missing or tests something else',
               file=M.mod.path, line=fn.lineno)
    else:
        d = dup[0]
        o.witness('dup-test')
        tr = g.reach([m for l, m in g.succ[d.id] if l == 'T'], follow=lambda l: l != 'exc')
        fr = g.reach([m for l, m in g.succ[d.id] if l == 'F'], follow=lambda l: l != 'exc')
        o.count(2)
        if g.exitT in tr or any(g.nodes[i].kind == 'stmt' and calls_at(g, g.nodes[i]) for i in tr):
            o.fail(P, 'Maintainer.create_work_order', None, 'a duplicate request is not simply rejected (returns True or has effects)', node=d)
        if g.exitF in fr:
            o.fail(P, 'Maintainer.create_work_order', None, 'a new request can be rejected although it is not a duplicate', node=d)

        def hook(an, n, before, after):
            st = after
            for cl in calls_at(an.g, n):
                nm = call_attr(cl)
                rc = dv.record_call(cl, RH)
                if rc is not None:
                    st = st.with_flag('rec:' + rc[0] + ':' + rc[1][0] if rc[1] else 'rec:?')
                if nm == 'append' and is_self_attr(cl.func.value, '_request_queue'):
                    st = st.with_flag('queued:' + ast.unparse(cl.args[0]))
                if nm in ('insert', 'appendleft', 'extend') and is_self_attr(cl.func.value, '_request_queue'):
                    st = st.with_flag('queued-not-at-tail')
                if nm == 'try_working_requests':
                    st = st.with_flag('scan-after-queue' if any(f.startswith('queued:') for f in st.flags) else 'scan-before-queue')
            return st
        an = Analysis(P, g, [])
        an.node_hooks.append(hook)
        res = ctx.explore(an, [State({})])
        defs = single_defs(fn)
        for st in res.at(g.exitT):
            o.count()
            q = [f for f in st.flags if f.startswith('queued:')]
            bad = None
            if len(q) != 1 or 'queued-not-at-tail' in st.flags:
                bad = 'an accepted order must be appended once at the tail of the queue'
            else:
                var = q[0].split(':', 1)[1]
                d_ = defs.get(var)
                capv = None
                if isinstance(d_, ast.Call) and ast.unparse(d_.func) == '_WorkOrder' and len(d_.args) == 4:
                    a0, a1, a2, a3 = [ast.unparse(x) for x in d_.args]
                    capd = defs.get(a2)
                    capv = ast.unparse(capd) if capd is not None else a2
                    if (a0, a1, a3) != (params[0], params[1], params[2]) or capv != f'{params[0]}.get_work_order_capacity({params[1]})':
                        bad = 'the queued order must be built from (target, tag, capacity reported by the target for this tag, info)'
                else:
                    bad = 'the queued order is not a work order built from the request'
                if not bad and f'rec:enter_queue:{var}' not in st.flags:
                    bad = "the accepted order is not recorded with an 'enter_queue' datapoint"
                if not bad and 'scan-after-queue' not in st.flags:
                    bad = 'the queue is not scanned after the order was added'
            if bad:
                o.fail(P, 'Maintainer.create_work_order', 'self._request_queue.append(request)', bad, file=M.mod.path, line=fn.lineno, path=res.path_lines(g.exitT, st))
            else:
                o.witness('accept-path')
        o.sample({'duplicate_test': d.src(), 'true_exits': len(res.at(g.exitT)), 'false_exits': len(res.at(g.exitF))})

    # ---- C12.2 -----------------------------------------------------------------------------------
    o = Ob('C12.2', 'K6', 'the duplicate test scans the queue and the active list for an order with the same target and the same tag')
    obs.append(o)
    fn = P.method(M, '_is_work_order_requested')[1]
    tp, gp = [a.arg for a in fn.args.args][1:3]
    seen_lists = set()
    for lp in [n for n in ast.walk(fn) if isinstance(n, ast.For)]:
        o.count()
        lst = ast.unparse(lp.iter)
        v = lp.target.id if isinstance(lp.target, ast.Name) else None
        okl = False
        if len(lp.body) == 1 and isinstance(lp.body[0], ast.If) and not lp.body[0].orelse:
            t = lp.body[0].test
            rets = lp.body[0].body
            if isinstance(t, ast.BoolOp) and isinstance(t.op, ast.And) and len(t.values) == 2 and len(rets) == 1 and isinstance(rets[0], ast.Return) \
                    and isinstance(rets[0].value, ast.Constant) and rets[0].value.value is True:
                cs = set()
                for c_ in t.values:
                    if isinstance(c_, ast.Compare) and len(c_.ops) == 1 and isinstance(c_.ops[0], ast.Eq):
                        cs.add(frozenset([ast.unparse(c_.left), ast.unparse(c_.comparators[0])]))
                okl = cs == {frozenset([f'{v}.target', tp]), frozenset([f'{v}.tag', gp])}
        if okl and lst in ('self._request_queue', 'self._active_requests'):
            seen_lists.add(lst)
            o.witness(lst)
        else:
            o.fail(P, 'Maintainer._is_work_order_requested', lp.body[0].test if lp.body and isinstance(lp.body[0], ast.If) else lp,
                   'a scan of the duplicate test does not compare target and tag for equality', file=M.mod.path, line=lp.lineno)
    o.count()
    if seen_lists != {'self._request_queue', 'self._active_requests'}:
        o.fail(P, 'Maintainer._is_work_order_requested', 'for r in self._request_queue / self._active_requests', f'the duplicate test must cover queued and active orders; covers {sorted(seen_lists)}',
               file=M.mod.path, line=fn.lineno)
    last = [s for s in fn.body if not (isinstance(s, ast.Expr) and isinstance(s.value, ast.Constant))][-1]
    o.count()
    if not (isinstance(last, ast.Return) and isinstance(last.value, ast.Constant) and last.value.value is False):
        o.fail(P, 'Maintainer._is_work_order_requested', 'return False', 'the duplicate test does not answer False when nothing matches', file=M.mod.path, line=fn.lineno)

    # ---- C12.3 the scan ----------------------------------------------------------------------------------
    o = Ob('C12.3', 'K14+K6', 'try_working_requests: scan from 0; start only if needed - capacity + utilization <= 0 and no active order on the same target; '
                              'start = removed from queue, appended to active, utilization += needed, START_WORK at now for that order; else index + 1')
    obs.append(o)
    g = ctx.graph(M, 'try_working_requests')
    fn = P.method(M, 'try_working_requests')[1]
    problems, head = dv.scan_shape(g, '_request_queue')
    o.count(max(1, len(problems)))
    for node, msg in problems:
        o.fail(P, 'Maintainer.try_working_requests', node.ast if node is not None and node.ast is not None else 'while i < len(self._request_queue)', msg,
               node=node, file=M.mod.path, line=fn.lineno)
    if head is not None:
        iv = head.ast.left.id if isinstance(head.ast.left, ast.Name) else head.ast.comparators[0].id
        defs = single_defs(fn)
        reqvars = [k for k, v in defs.items() if ast.unparse(v) == f'self._request_queue[{iv}]']
        rq = reqvars[0] if reqvars else f'self._request_queue[{iv}]'
        othervars = {}
        for k, v in defs.items():
            if isinstance(v, ast.ListComp) and len(v.generators) == 1 and ast.unparse(v.generators[0].iter) == 'self._active_requests' and len(v.generators[0].ifs) == 1:
                x = v.generators[0].target.id
                t = v.generators[0].ifs[0]
                if isinstance(t, ast.Compare) and isinstance(t.ops[0], ast.Eq) and {ast.unparse(t.left), ast.unparse(t.comparators[0])} == {f'{x}.target', f'{rq}.target'} \
                        and ast.unparse(v.elt) == x:
                    othervars[k] = True

        env = {k: v for k, v in defs.items() if k not in reqvars and k not in othervars}

        def classify(node, lbl):
            if node.kind == 'cond':
                r = cmp_norm(N, node.ast, env, True)
                if r and r[1] == '<=' and r[0].is_({f'{rq}.needed_capacity': 1, 'self._capacity': -1, 'self._utilization': 1}):
                    return ('fits', lbl)
                s = ast.unparse(node.ast).replace(' ', '')
                for ov in othervars:
                    if s in (f'len({ov})==0', f'not{ov}', f'len({ov})<1'):
                        return ('free', lbl)
                    if s in (f'len({ov})>0', f'{ov}', f'len({ov})!=0'):
                        return ('free', 'F' if lbl == 'T' else 'T')
                return ('othercond', lbl)
            if node.kind == 'stmt':
                s = node.src().replace(' ', '')
                if s == f'self._request_queue.pop({iv})':
                    return ('rm',)
                if s == f'self._active_requests.append({rq})':
                    return ('activate',)
                if isinstance(node.ast, ast.AugAssign) and is_self_attr(node.ast.target, '_utilization'):
                    good = isinstance(node.ast.op, ast.Add) and ast.unparse(node.ast.value) == f'{rq}.needed_capacity'
                    return ('util', good)
                if isinstance(node.ast, ast.Assign) and any(is_self_attr(t, '_utilization') for t in node.ast.targets):
                    return ('util', N.norm(node.ast.value).is_({'self._utilization': 1, f'{rq}.needed_capacity': 1}))
                for cl in sched_calls(g, node):
                    b = bind_call(cl, SCHED_PARAMS)
                    act = b.get('action')
                    good = sched_event_type(cl) == 'START_WORK' and 'time' in b and N.norm(b['time']).is_({'NOW': 1}) and ast.unparse(b.get('asset_id', ast.Constant(0))) == 'self.id' \
                        and isinstance(act, ast.Call) and call_attr(act) == 'partial' and ast.unparse(act.args[0]) == 'self._start_work_order' \
                        and ([ast.unparse(k.value) for k in act.keywords if k.arg == 'request'] == [rq] or [ast.unparse(a) for a in act.args[1:]] == [rq])
                    return ('start', good)
                if isinstance(node.ast, ast.AugAssign) and isinstance(node.ast.target, ast.Name) and node.ast.target.id == iv:
                    return ('inc',)
            return None
        paths = dv.loop_body_paths(g, head)
        for path in paths:
            o.count()
            ev = [e for e in (classify(n, l) for n, l in path) if e]
            kinds = [e[0] for e in ev]
            started = 'rm' in kinds or 'start' in kinds or 'activate' in kinds or 'util' in kinds
            bad = None
            if any(k == 'othercond' for k in kinds):
                bad = 'the start decision depends on an unrecognised condition'
            elif started:
                o.witness('start-path')
                if ('fits', 'T') not in ev or ('free', 'T') not in ev:
                    bad = 'an order is started without both tests having succeeded: enough free capacity (needed - capacity + utilization <= 0) and no active order on the same target'
                elif sorted(k for k in kinds if k in ('rm', 'activate', 'util', 'start')) != ['activate', 'rm', 'start', 'util'] or 'inc' in kinds:
                    bad = f'starting an order must: remove it from the queue, append it to the active list, add its capacity to the utilization and schedule START_WORK, once each (found {kinds})'
                elif not all(e[1] for e in ev if e[0] in ('util', 'start')):
                    bad = 'the utilization must grow by the needed capacity of the started order and START_WORK must be scheduled at the current instant, under the maintainer id, for that same order'
            else:
                o.witness('skip-path')
                if kinds.count('inc') != 1:
                    bad = 'an order that is not started must be skipped by advancing the index once'
                if ('fits', 'T') in ev and ('free', 'T') in ev:
                    bad = 'an order that fits and whose target is free is not started'
            if bad:
                last = [n for n, _ in path if n.kind in ('stmt', 'cond')]
                o.fail(P, 'Maintainer.try_working_requests', last[-1].ast if last else 'scan body', bad, node=last[-1] if last else None, file=M.mod.path,
                       path=[f'{n.line}: {n.kind} {n.src()[:80]} [{l or ""}]' for n, l in path if n.kind in ('stmt', 'cond')])
        o.require(paths, 'the scan loop of try_working_requests has no body path')
        o.sample({'loop': head.src(), 'paths': len(paths), 'fit_test_normal_form': f'{rq}.needed_capacity - self._capacity + self._utilization <= 0',
                  'target_free_test': sorted(othervars)})

    # ---- C12.4 start -----------------------------------------------------------------------------------------
    o = Ob('C12.4', 'K2+K8', '_start_work_order: duration read from the target; start_work_order recorded; cost charged once; start_work once; FINISH_WORK at now + duration for the same order')
    obs.append(o)
    seq_check(ctx, M, '_start_work_order', o, N,
              need={'rec:start_work_order': 1, 'hook:start_work': 1, 'cost': 1, 'sched:FINISH_WORK': 1},
              forbid=('hook:end_work',))
    # ---- C12.5 finish ----------------------------------------------------------------------------------------
    o = Ob('C12.5', 'K3+K6', '_finish_work_order: end_work once; utilization -= needed; removed from active; finish_work_order recorded; queue re-scanned')
    obs.append(o)
    seq_check(ctx, M, '_finish_work_order', o, N,
              need={'rec:finish_work_order': 1, 'hook:end_work': 1, 'util-': 1, 'deactivate': 1, 'rescan': 1},
              forbid=('hook:start_work', 'cost'))

    # ---- C12.6 writers ---------------------------------------------------------------------------------------------
    o = Ob('C12.6', 'K1', 'utilization and both lists are written only by the scan and the finish handler; available_capacity = capacity - utilization')
    obs.append(o)
    for attr, owners in (('_utilization', {'__init__', 'try_working_requests', '_finish_work_order'}), ('_capacity', {'__init__'})):
        for s in inv.attr_stores(P, attr):
            if s.cls is not None and s.cls.name in ('Buffer',):
                continue
            o.count()
            if s.cls is M and s.func.name in owners:
                o.witness((attr, s.func.name))
            elif s.cls is M or (s.cls is not None and M in s.cls.mro):
                o.fail(P, s.ctx, s.stmt, f'Maintainer.{attr} is written outside {sorted(owners)}', file=s.mod.path, line=s.line)
    for attr, allowed in (('_request_queue', {('create_work_order', 'append'), ('try_working_requests', 'pop')}),
                          ('_active_requests', {('try_working_requests', 'append'), ('_finish_work_order', 'remove')})):
        for s in inv.attr_uses(P, attr):
            role = s.extra['role']
            o.count()
            if role[0] == 'method' and role[1] not in ('copy', 'index', 'count'):
                if s.cls is not M or (s.func.name, role[1]) not in allowed:
                    o.fail(P, s.ctx, s.stmt, f'.{role[1]}() on Maintainer.{attr} outside its owners (orders must keep request order)', file=s.mod.path, line=s.line)
                else:
                    o.witness((attr, s.func.name, role[1]))
            elif role[0] == 'store' and not (s.func.name == '__init__'):
                o.fail(P, s.ctx, s.stmt, f'Maintainer.{attr} is re-bound', file=s.mod.path, line=s.line)
    for prop, want in (('available_capacity', {'self._capacity': 1, 'self._utilization': -1}), ('total_capacity', {'self._capacity': 1})):
        o.count()
        if not N.norm(ast.parse('self.' + prop, mode='eval').body).is_(want):
            o.fail(P, f'Maintainer.{prop}', prop, f'{prop} does not report the stored quantities', file=M.mod.path, line=M.node.lineno)
        else:
            o.witness(prop)
    return obs


def seq_check(ctx, M, meth, o, N, need, forbid):
    P = ctx.P
    RH = dv.record_helper(P, M)
    g = ctx.graph(M, meth, opaque=('try_working_requests', RH[0], 'add_cost'))
    fn = P.method(M, meth)[1]
    rq = fn.args.args[1].arg
    defs = single_defs(fn)

    def hook(an, n, before, after):
        st = after

        def bump(k):
            nonlocal st
            c = sum(1 for f in st.flags if f.startswith(k + '#'))
            st = st.with_flag(f'{k}#{c + 1}')
        a = n.ast
        for cl in calls_at(an.g, n):
            nm = call_attr(cl)
            rc = dv.record_call(cl, RH)
            if rc is not None:
                bump('rec:' + rc[0] if rc[1] and rc[1][0] == rq else 'rec-wrong-order')
            if nm in ('start_work', 'end_work') and isinstance(cl.func, ast.Attribute):
                good = ast.unparse(cl.func.value) == f'{rq}.target' and [ast.unparse(x) for x in cl.args] == [f'{rq}.tag']
                bump('hook:' + nm if good else 'hook-wrong-args')
            if nm == 'add_cost' and is_self_attr(cl.func):
                v = cl.args[1] if len(cl.args) > 1 else None
                if isinstance(v, ast.Name) and v.id in defs:
                    v = defs[v.id]
                good = v is not None and ast.unparse(v) == f'{rq}.target.get_work_order_cost({rq}.tag)'
                bump('cost' if good else 'cost-wrong')
            if nm == 'add_value' and is_self_attr(cl.func):
                bump('cost-wrong')
            if nm == 'remove' and is_self_attr(cl.func.value, '_active_requests'):
                bump('deactivate' if [ast.unparse(x) for x in cl.args] == [rq] else 'deactivate-wrong')
            if nm == 'try_working_requests':
                done = any(f.startswith('deactivate#') for f in st.flags) and any(f.startswith('util-#') for f in st.flags)
                bump('rescan' if done else 'rescan-too-early')
            if nm == 'schedule_event':
                b = bind_call(cl, SCHED_PARAMS)
                act = b.get('action')
                t = b.get('time')
                dur = None
                if t is not None:
                    lin = N.norm(t, defs)
                    dur = lin.is_({'NOW': 1, f'{rq}.target.get_work_order_duration({rq}.tag)': 1})
                good = sched_event_type(cl) == 'FINISH_WORK' and dur and ast.unparse(b.get('asset_id', ast.Constant(0))) == 'self.id' \
                    and isinstance(act, ast.Call) and call_attr(act) == 'partial' and ast.unparse(act.args[0]) == 'self._finish_work_order' \
                    and ([ast.unparse(k.value) for k in act.keywords if k.arg == 'request'] == [rq] or [ast.unparse(x) for x in act.args[1:]] == [rq])
                bump('sched:FINISH_WORK' if good else 'sched-wrong')
        if n.kind == 'stmt' and isinstance(a, ast.AugAssign) and is_self_attr(a.target, '_utilization'):
            bump('util-' if isinstance(a.op, ast.Sub) and ast.unparse(a.value) == f'{rq}.needed_capacity' else 'util-wrong')
        if n.kind == 'stmt' and isinstance(a, ast.Assign) and any(is_self_attr(t, '_utilization') for t in a.targets):
            bump('util-' if N.norm(a.value).is_({'self._utilization': 1, f'{rq}.needed_capacity': -1}) else 'util-wrong')
        return st
    an = Analysis(P, g, [])
    an.node_hooks.append(hook)
    res = ctx.explore(an, [State({})])
    o.require(res.exits(), f'Maintainer.{meth} has no normal exit')
    for st in res.exits():
        o.count()
        counts = {}
        for f in st.flags:
            k, _, c = f.rpartition('#')
            counts[k] = max(counts.get(k, 0), int(c))
        bad = []
        for k, c in need.items():
            if counts.get(k, 0) != c:
                bad.append(f'{k} happens {counts.get(k, 0)} time(s), expected {c}')
        for k in counts:
            if k.endswith('wrong') or k.endswith('wrong-order') or k.endswith('wrong-args') or k.endswith('too-early') or k in forbid:
                bad.append(f'unexpected: {k}')
        if bad:
            o.fail(P, f'Maintainer.{meth}', meth, f'the handler does not do each step exactly once for the order it was given: ' + '; '.join(sorted(bad)),
                   file=M.mod.path, line=fn.lineno, path=res.path_lines(g.exit, st))
        else:
            o.witness(meth)
            o.sample({'handler': meth, 'steps': sorted(counts)})


CLAIM = {
    'technique': 'static analysis: boolean-exit supergraph of create_work_order, path enumeration of the queue scan with normal-form guards, '
                 'once-only step counting by typestate in the start/finish handlers, who-may-write inventories',
    'level_text': 'Acceptance, queue order, the capacity/target guard of the scan and the once-only hooks of one order are decided on every path; '
                  'capacity-in-use over overlapping orders of a run is not summed.',
    'level_note': 'Targets report consistent capacities; hooks do not touch the maintainer lists directly.',
}
