"""C12 -- maintainer: capacity, one order per target, request order, exact durations."""
import ast

from .. import AnalysisError
from ..report import Ob
from ..cfg import calls_at, call_attr, is_self_attr
from ..state import Analysis, State, TOP, sched_calls, sched_action_name, sched_event_type, bind_call, SCHED_PARAMS
from ..norm import Normalizer, cmp_norm, cmp_polarity, FrameEnv, single_defs, subst, ctext
from ..lists import ExistsLoops, eq_fact
from .. import inventory as inv
from .. import devices as dv

EXPLANATION = '''
Static analysis of simprocesd/model/factory_floor/maintainer.py.
Decided: (C12.1) create_work_order returns False exactly on the true edge of the duplicate test and otherwise records the
order (enter_queue), appends it at the tail of the queue with the capacity reported by the target, triggers a scan and
returns True; (C12.2) the duplicate test scans the queue and the active list with target == target and tag == tag;
(C12.3) the scan over the queue starts at index 0 and every path through its body either starts the order at the current
index -- only when needed - capacity + utilization <= 0 and no active order has the same target; then: removed from the
queue, appended to the active list, utilization += needed, START_WORK scheduled at now for that same order -- or advances
the index; (C12.4) starting an order reads the duration from the target, records start_work_order, charges the target's
cost once, calls start_work once and schedules FINISH_WORK at now + duration for the same order; (C12.5) finishing calls
end_work once, utilization -= needed, removes the order from the active list, records finish_work_order and re-scans;
(C12.6) utilization and both lists have no other writer; available_capacity = capacity - utilization.
NOT decided: that over a stream of requests the capacity in use never exceeds the total (a sum over overlapping orders),
exact durations of a run.
'''
ASSUMPTIONS = ['targets report consistent capacities for the same order', 'hooks of targets do not touch the maintainer lists directly']
MIN_INSTANCES = 25


def check(ctx):
    P = ctx.P
    M = P.cls('Maintainer')
    N = Normalizer(P, M)
    obs = []

    # ---- C12.1 / C12.2 ------------------------------------------------------------------------
    # One exploration of create_work_order with the duplicate test inlined (wherever it is written: a helper, in place, any()/chain),
    # the two lists described by ghosts "holds an order with the same target and tag" (exists-loop model), four cases.
    RH = dv.record_helper(P, M)
    if RH is None:
        raise AnalysisError('Maintainer: the helper that records work-order datapoints was not found')
    fn = P.method(M, 'create_work_order')[1]
    params = [a.arg for a in fn.args.args][1:]
    helper = P.lookup(M, '_is_work_order_requested')
    search_fns = [fn] + ([helper[2]] if helper and helper[1] == 'method' else [])
    member_tests = [x for f_ in search_fns for x in ast.walk(f_) if isinstance(x, ast.Compare) and len(x.ops) == 1 and isinstance(x.ops[0], (ast.In, ast.NotIn))
                    and ast.unparse(x.comparators[0]) in ('self._request_queue', 'self._active_requests')]
    if member_tests and len(search_fns) == 2:
        _c12_12_by_helper(ctx, P, M, N, obs)
    elif member_tests:
        raise AnalysisError('Maintainer.create_work_order: duplicate test phrased as list membership in place (not modelled)')
    else:
        o = Ob('C12.1', 'K2', 'create_work_order: False <=> duplicate, and then nothing else happens; otherwise enter_queue recorded, order appended at the tail with the reported capacity, '
                              'scan triggered after the append, True')
        o2 = Ob('C12.2', 'K17', 'the duplicate test answers "duplicate" iff an order with the same target AND the same tag is queued or in progress (exists-loop model, 4 cases)')
        obs += [o, o2]
        g = ctx.graph(M, 'create_work_order', boolean=True, opaque=('try_working_requests', RH[0]))
        EL = ExistsLoops({'self._request_queue': '#dupQ', 'self._active_requests': '#dupA'}, [('target', eq_fact('target', params[0])), ('tag', eq_fact('tag', params[1]))])

        def hook(an, n, before, after):
            st = after
            for cl in calls_at(an.g, n):
                nm = call_attr(cl)
                rc = dv.record_call(cl, RH)
                if rc is not None:
                    from ..norm import inline_class_factories as _icf
                    rtxt = ast.unparse(_icf(P, subst(ast.parse(rc[1][0], mode='eval').body, FrameEnv(n.frame)))) if rc[1] else '?'
                    st = st.with_flag('rec:' + rc[0] + ':' + rtxt)
                if nm == 'append' and is_self_attr(cl.func.value, '_request_queue'):
                    # what is queued, spelled from the entry point's own parameters (through helper parameters, locals and a factory classmethod)
                    from ..norm import inline_class_factories
                    qe = inline_class_factories(P, subst(cl.args[0], FrameEnv(n.frame)))
                    st = st.with_flag('queued:' + ast.unparse(qe))
                if nm in ('insert', 'appendleft', 'extend') and is_self_attr(cl.func.value, '_request_queue'):
                    st = st.with_flag('queued-not-at-tail')
                if nm == 'try_working_requests':
                    st = st.with_flag('scan-after-queue' if any(f.startswith('queued:') for f in st.flags) else 'scan-before-queue')
                if nm in ('get_work_order_capacity', 'get_work_order_duration', 'get_work_order_cost', 'start_work', 'end_work', 'schedule_event'):
                    st = st.with_flag('hook:' + nm)
            return st
        an = Analysis(P, g, EL.fields())
        EL.install(an)
        an.node_hooks.append(hook)
        defs = single_defs(fn)
        import itertools
        for q, a_ in itertools.product('TF', 'TF'):
            res = ctx.explore(an, [State(EL.entry(**{'#dupQ': q, '#dupA': a_}))])
            yes, no = res.at(g.exitT), res.at(g.exitF)
            o.count(); o2.count()
            dup_ = q == 'T' or a_ == 'T'
            case = f'an order with the same target and tag is {"" if q == "T" else "not "}queued and {"" if a_ == "T" else "not "}in progress'
            if not yes and not no:
                o2.fail(P, 'Maintainer.create_work_order', fn, f'{case}: create_work_order has no normal exit', file=M.mod.path, line=fn.lineno)
                continue
            if dup_:
                if yes:
                    o2.fail(P, 'Maintainer.create_work_order', 'for r in self._request_queue / self._active_requests: if r.target == target and r.tag == tag: return False',
                            f'{case}: the request can be accepted (an order is a duplicate iff an order with the same target AND the same tag is queued or in progress)',
                            file=M.mod.path, line=fn.lineno, path=res.path_lines(g.exitT, yes[0]))
                else:
                    o2.witness((q, a_))
                eff = [s_ for s_ in no if any(f.startswith(('rec:', 'queued', 'scan-', 'hook:')) for f in s_.flags)]
                if eff:
                    o.fail(P, 'Maintainer.create_work_order', None, f'{case}: the duplicate request is not simply rejected, it also does {sorted(f for f in eff[0].flags if f.startswith(("rec:", "queued", "scan-", "hook:")))}',
                           file=M.mod.path, line=fn.lineno, path=res.path_lines(g.exitF, eff[0]))
                else:
                    o.witness(('rejected', q, a_))
                continue
            if no:
                o2.fail(P, 'Maintainer.create_work_order', 'for r in self._request_queue / self._active_requests: if r.target == target and r.tag == tag: return False',
                        f'{case}: the request can be rejected although it is not a duplicate', file=M.mod.path, line=fn.lineno, path=res.path_lines(g.exitF, no[0]))
            else:
                o2.witness((q, a_))
            for st in yes:
                o.count()
                qd = [f for f in st.flags if f.startswith('queued:')]
                bad = None
                if len(qd) != 1 or 'queued-not-at-tail' in st.flags:
                    bad = 'an accepted order must be appended once at the tail of the queue'
                else:
                    var = qd[0].split(':', 1)[1]
                    d_ = ast.parse(var, mode='eval').body
                    wo_args = None
                    if isinstance(d_, ast.Call) and ast.unparse(d_.func) == '_WorkOrder' and P.has_cls('_WorkOrder'):
                        wfn = P.method(P.cls('_WorkOrder'), '__init__')[1]
                        wparams = [a__.arg for a__ in wfn.args.args][1:]
                        bnd = dict(zip(wparams, d_.args))
                        bnd.update({k.arg: k.value for k in d_.keywords if k.arg})
                        if len(wparams) == 4 and set(bnd) == set(wparams):
                            wo_args = [ast.unparse(bnd[p_]) for p_ in wparams]
                    if wo_args is not None:
                        a0, a1, a2, a3 = wo_args
                        capd = defs.get(a2)
                        capv = ast.unparse(capd) if capd is not None else a2
                        if (a0, a1, a3) != (params[0], params[1], params[2]) or capv != f'{params[0]}.get_work_order_capacity({params[1]})':
                            bad = 'the queued order must be built from (target, tag, capacity reported by the target for this tag, info)'
                    else:
                        bad = 'the queued order is not a work order built from the request'
                    if not bad and not any(f.startswith('rec:enter_queue:') and f.endswith(':' + var) for f in st.flags):
                        bad = "the accepted order is not recorded with an 'enter_queue' datapoint"
                    if not bad and 'scan-after-queue' not in st.flags:
                        bad = 'the queue is not scanned after the order was added'
                if bad:
                    o.fail(P, 'Maintainer.create_work_order', 'self._request_queue.append(request)', bad, file=M.mod.path, line=fn.lineno, path=res.path_lines(g.exitT, st))
                else:
                    o.witness('accept-path')
        o.require('accept-path' in o.nontrivial, 'no accepting path of create_work_order was explored')
        o.sample({'graph_nodes': len(g.nodes), 'duplicate_test_inlined_from': [f_.name for f_ in search_fns]})
        o2.sample({'cases': 'duplicate queued x duplicate in progress (4 combinations)',
                   'model': 'search loops explored with abstract elements: match (target and tag equal) / other'})

    # ---- C12.3 the scan ----------------------------------------------------------------------------------
    o = Ob('C12.3', 'K14+K6', 'try_working_requests: scan from 0; start only if needed - capacity + utilization <= 0 and no active order on the same target; '
                              'start = removed from queue, appended to active, utilization += needed, START_WORK at now for that order; else index + 1')
    obs.append(o)
    g = ctx.graph(M, 'try_working_requests')
    fn = P.method(M, 'try_working_requests')[1]
    problems, head = dv.scan_shape(g, '_request_queue', snapshot=True)
    o.count(max(1, len(problems)))
    for node, msg in problems:
        o.fail(P, 'Maintainer.try_working_requests', node.ast if node is not None and node.ast is not None else 'while i < len(self._request_queue)', msg,
               node=node, file=M.mod.path, line=fn.lineno)
    if head is not None:
        if head.kind == 'for':            # snapshot scan: the loop variable is the order
            iv = None
            rqc = kp = head._scan_elem
            o.count()
            if P.has_cls('_WorkOrder') and '__eq__' in P.cls('_WorkOrder').methods:
                o.fail(P, '_WorkOrder.__eq__', '__eq__', 'orders compare by value: removing the visited order with list.remove can remove an equal earlier one', file=M.mod.path, line=fn.lineno)
        else:
            iv = kp = head.ast.left.id if isinstance(head.ast.left, ast.Name) else head.ast.comparators[0].id
            rqc = f'self._request_queue[{iv}]'
        ELs = ExistsLoops({'self._active_requests': '#busy'}, [('same-target', eq_fact('target', f'{rqc}.target'))])

        def fits_refine(an_, test, truth, st, frame):
            pol = cmp_polarity(N, test, FrameEnv(frame), {f'{rqc}.needed_capacity': 1, 'self._capacity': -1, 'self._utilization': 1}, '<=')
            if pol is None:
                return NotImplemented
            want = 'T' if (truth == (pol == 1)) else 'F'
            cur = st.fields.get('#fits')
            if cur in ('T', 'F'):
                return st if cur == want else None
            return st.with_field('#fits', want)

        def it_hook(an_, n, before, after):
            st = after
            env = FrameEnv(n.frame)

            def bump(k):
                nonlocal st
                st = st.with_flag(k + '-twice' if k in st.flags else k)
            a = n.ast
            for cl in calls_at(g, n):
                nm = call_attr(cl)
                recv = ctext(cl.func.value, env) if isinstance(cl.func, ast.Attribute) else ''
                if recv == 'self._request_queue' and nm in ('pop', 'remove'):
                    arg = ctext(cl.args[0], env, keep=(kp,)) if cl.args else ''
                    bump('rm' if (nm == 'pop' and arg in (iv, f'self._request_queue.index({rqc})')) or (nm == 'remove' and arg == rqc) else 'rm-wrong')
                elif recv == 'self._request_queue' and nm not in ('copy', 'index', 'count'):
                    bump('queue-' + nm)
                if recv == 'self._active_requests' and nm in ('append', 'insert', 'remove', 'pop', 'extend'):
                    bump('activate' if nm == 'append' and cl.args and ctext(cl.args[0], env, keep=(kp,)) == rqc else 'activate-wrong')
                if nm == 'schedule_event':
                    b_ = bind_call(cl, SCHED_PARAMS)
                    act = b_.get('action')
                    if isinstance(act, ast.Name):
                        r_ = env.resolve(act.id)
                        act = r_[0] if r_ else act
                    tgt = None
                    if isinstance(act, ast.Call) and call_attr(act) == 'partial' and act.args and ctext(act.args[0], env) == 'self._start_work_order':
                        tgt = [ctext(k.value, env, keep=(kp,)) for k in act.keywords if k.arg == 'request'] or [ctext(x, env, keep=(kp,)) for x in act.args[1:]]
                    good = sched_event_type(cl) == 'START_WORK' and 'time' in b_ and N.norm(b_['time'], env).is_({'NOW': 1}) and \
                        ctext(b_.get('asset_id', ast.Constant(0)), env) == 'self.id' and tgt == [rqc]
                    bump('start' if good else 'start-wrong')
            if n.kind == 'stmt' and isinstance(a, ast.Delete) and any(ctext(t, env, keep=(kp,)) in (f'self._request_queue[{iv}]', f'self._request_queue[self._request_queue.index({rqc})]') for t in a.targets):
                bump('rm')
            if n.kind == 'stmt' and isinstance(a, (ast.Assign, ast.AugAssign)):
                tg = a.targets if isinstance(a, ast.Assign) else [a.target]
                if any(is_self_attr(t, '_utilization') for t in tg):
                    newv = N.norm(ast.BinOp(left=a.target, op=a.op, right=a.value) if isinstance(a, ast.AugAssign) else a.value, env)
                    bump('util' if newv.is_({'self._utilization': 1, f'{rqc}.needed_capacity': 1}) else 'util-wrong')
                if iv and any(isinstance(t, ast.Name) and t.id == iv for t in tg):
                    newv = N.norm(ast.BinOp(left=a.target, op=a.op, right=a.value) if isinstance(a, ast.AugAssign) else a.value, {})
                    bump('inc' if newv.is_({iv: 1}, 1) else 'inc-wrong')
            return st
        ani = Analysis(P, g, ELs.fields() + ['#fits'])
        ELs.install(ani)
        ani.refine_hooks.insert(0, fits_refine)
        ani.node_hooks.append(it_hook)
        starts = [m for l, m in g.succ[head.id] if l == getattr(head, '_in_label', 'T')]
        stops = {head.id} | {p for _, p in g.pred[head.id] if g.nodes[p].kind == 'join' and g.nodes[p].note == 'while-head'}
        import itertools
        n_out = 0
        for fits, busy in itertools.product('TF', 'TF'):
            f0 = ELs.entry(**{'#busy': busy})
            f0['#fits'] = fits
            res = ani.run([State(f0)], start=starts, stop=stops)
            ctx.units['abstract_states'] += res.n_states()
            outs = [(sid, st) for sid in stops for st in res.at(sid) if st.flags or True]
            outs = [(sid, st) for sid, st in outs if res.seen[sid][st.key()][1] is not None]
            o.require(outs, 'an iteration of the scan never returns to the loop test')
            want = {'rm', 'activate', 'util', 'start'} if (fits == 'T' and busy == 'F') else ({'inc'} if iv else set())
            case = f'the order at the current index {"fits" if fits == "T" else "does not fit"} the remaining capacity and its target is {"already being worked on" if busy == "T" else "free"}'
            for sid, st in outs:
                o.count()
                n_out += 1
                fl = {f for f in st.flags if not f.startswith(('seen-match', 'loop'))}
                if fl == want:
                    o.witness((fits, busy))
                else:
                    o.fail(P, 'Maintainer.try_working_requests', 'if self._utilization <= self._capacity - req.needed_capacity and len(other_work_orders) == 0: start ... else: i += 1',
                           f'{case}: this iteration of the scan does {sorted(fl) or "nothing"}; expected {sorted(want)} '
                           '(start = removed from the queue, appended to the active list, utilization += needed capacity, START_WORK scheduled now for that order; otherwise index + 1)',
                           file=M.mod.path, line=fn.lineno, path=res.path_lines(sid, st))
        o.sample({'loop': head.src(), 'iteration_outcomes': n_out, 'fit_test_normal_form': f'{rqc}.needed_capacity - self._capacity + self._utilization <= 0',
                  'target_free_test': 'no element of self._active_requests with the same target (exists-loop model)'})

    # ---- C12.4 start -----------------------------------------------------------------------------------------
    o = Ob('C12.4', 'K2+K8', '_start_work_order: duration read from the target; start_work_order recorded; cost charged once; start_work once; FINISH_WORK at now + duration for the same order')
    obs.append(o)
    seq_check(ctx, M, '_start_work_order', o, N,
              need={'rec:start_work_order': 1, 'hook:start_work': 1, 'cost': 1, 'sched:FINISH_WORK': 1},
              forbid=('hook:end_work',))
    # every call of try_working_requests scans the queue: the only way past the scan is an empty queue
    g_scan = ctx.graph(M, 'try_working_requests', opaque=OPQ if 'OPQ' in globals() else ())
    heads_ = [n for n in g_scan.nodes.values() if n.kind == 'cond' and isinstance(n.ast, ast.Compare) and 'len(self._request_queue)' in dv.canon_text(n.ast, n.frame)] + \
             [n for n in g_scan.nodes.values() if n.kind == 'for' and dv.canon_text(n.ast.iter, n.frame).replace('list(', '').rstrip(')') in ('self._request_queue', 'self._request_queue.copy(', 'self._request_queue[:]')]
    o.count()
    if heads_:
        empt = {(n.id, l) for n in g_scan.nodes.values() if n.kind == 'cond' for l in 'TF'
                if dv.canon_text(n.ast, n.frame) in ('self._request_queue', 'len(self._request_queue)', 'len(self._request_queue)>0', 'len(self._request_queue)==0', 'len(self._request_queue)!=0', 'notself._request_queue')}
        if g_scan.exit in g_scan.reach_edges([g_scan.entry], cut_edges=empt | {(h.id, l) for h in heads_ for l in ('T', 'F')}):
            fn_s = P.method(M, 'try_working_requests')[1]
            o.fail(P, 'Maintainer.try_working_requests', 'while i < len(self._request_queue)', 'try_working_requests can return without looking at the queue (a skipped scan leaves orders '
                   'that fit, and whose target is free, waiting while time advances)', file=M.mod.path, line=fn_s.lineno)
        else:
            o.witness('always-scans')

    # ---- C12.5 finish ----------------------------------------------------------------------------------------
    o = Ob('C12.5', 'K3+K6', '_finish_work_order: end_work once; utilization -= needed; removed from active; finish_work_order recorded; queue re-scanned')
    obs.append(o)
    seq_check(ctx, M, '_finish_work_order', o, N,
              need={'rec:finish_work_order': 1, 'hook:end_work': 1, 'util-': 1, 'deactivate': 1, 'rescan': 1},
              forbid=('hook:start_work', 'cost'))

    # ---- C12.6 writers ---------------------------------------------------------------------------------------------
    o = Ob('C12.6', 'K1', 'utilization and both lists are written only by the scan and the finish handler; available_capacity = capacity - utilization')
    obs.append(o)
    dv.check_defaults(ctx, o, [('Maintainer', '__init__', 'capacity')])
    for attr, owners in (('_utilization', {'__init__', 'try_working_requests', '_finish_work_order'}), ('_capacity', {'__init__'})):
        for s in inv.attr_stores(P, attr):
            if s.cls is not None and s.cls.name in ('Buffer',):
                continue
            o.count()
            if s.cls is M and s.func.name in inv.covered(P, owners):
                o.witness((attr, s.func.name))
            elif s.cls is M or (s.cls is not None and M in s.cls.mro):
                o.fail(P, s.ctx, s.stmt, f'Maintainer.{attr} is written outside {sorted(owners)}', file=s.mod.path, line=s.line)
    # (which element try_working_requests may take out of the queue is decided by the scan shape of C12.3)
    for attr, allowed in (('_request_queue', {('create_work_order', 'append'), ('try_working_requests', 'pop'), ('try_working_requests', 'remove')}),
                          ('_active_requests', {('try_working_requests', 'append'), ('_finish_work_order', 'remove')})):
        for s in inv.attr_uses(P, attr):
            role = s.extra['role']
            o.count()
            if role[0] == 'method' and role[1] not in ('copy', 'index', 'count'):
                if s.cls is not M or not any(s.func.name in inv.covered(P, {own}) and role[1] == op_ for own, op_ in allowed):
                    o.fail(P, s.ctx, s.stmt, f'.{role[1]}() on Maintainer.{attr} outside its owners (orders must keep request order)', file=s.mod.path, line=s.line)
                else:
                    o.witness((attr, s.func.name, role[1]))
            elif role[0] == 'store' and not (s.func.name == '__init__'):
                o.fail(P, s.ctx, s.stmt, f'Maintainer.{attr} is re-bound', file=s.mod.path, line=s.line)
    # the capacity is exactly the constructor argument (a `capacity or default` idiom would turn an explicit capacity of 0 into "unlimited")
    minit = P.method(M, '__init__')[1]
    cap_param = next((a_.arg for a_ in minit.args.args if a_.arg == 'capacity'), None)
    o.count()
    caps = [x for x in ast.walk(minit) if isinstance(x, ast.Assign) and any(is_self_attr(t, '_capacity') for t in x.targets)]
    def _is_the_argument(v):
        if cap_param is None:
            return False
        if ast.unparse(v) == cap_param:
            return True
        # `<unlimited> if capacity is None else capacity` (either orientation): every capacity that is a number is kept as it is
        if isinstance(v, ast.IfExp) and isinstance(v.test, ast.Compare) and len(v.test.ops) == 1 and isinstance(v.test.left, ast.Name) and v.test.left.id == cap_param \
                and isinstance(v.test.comparators[0], ast.Constant) and v.test.comparators[0].value is None:
            keep = v.orelse if isinstance(v.test.ops[0], (ast.Is, ast.Eq)) else v.body if isinstance(v.test.ops[0], (ast.IsNot, ast.NotEq)) else None
            return keep is not None and ast.unparse(keep) == cap_param
        return False
    if cap_param is None or len(caps) != 1 or not _is_the_argument(caps[0].value):
        o.fail(P, 'Maintainer.__init__', caps[0] if caps else 'self._capacity = capacity', 'the maintainer capacity is not exactly the constructor argument '
               '(for instance `capacity or inf` makes a maintainer configured with capacity 0 unlimited)', file=M.mod.path, line=minit.lineno)
    else:
        o.witness('capacity-arg')
    for prop, want in (('available_capacity', {'self._capacity': 1, 'self._utilization': -1}), ('total_capacity', {'self._capacity': 1})):
        o.count()
        if not N.norm(ast.parse('self.' + prop, mode='eval').body).is_(want):
            o.fail(P, f'Maintainer.{prop}', prop, f'{prop} does not report the stored quantities', file=M.mod.path, line=M.node.lineno)
        else:
            o.witness(prop)
    # ---- C12.7 contradiction: the target's name is optional ------------------------------------------------------------------------
    o = Ob('C12.7', 'K10', 'Maintainable is an interface without a name and the maintainer reads a target\'s name with a default (getattr): no other place of the class '
                           'may dereference it directly -- the scan does so only after the order left the queue and its capacity was taken, so a nameless target '
                           'would leave an order in progress for ever, with no start event')
    obs.append(o)
    beliefs, viol = dv.optional_attr_contradictions(P, M)
    o.count(max(1, len(beliefs)))
    for fn_, x in viol:
        o.count()
        o.fail(P, f'Maintainer.{fn_.name}', x, f'`{ast.unparse(x)}` is read directly although {"/".join(sorted({b[2].name for b in beliefs}))} reads the same attribute with a default '
               '(the class itself expects targets without it); an AttributeError here comes after the queue, the active list and the utilization were changed',
               file=M.mod.path, line=x.lineno)
    if beliefs and not viol:
        o.witness('name read only through the defaulting accessor')
    elif not beliefs:
        # no defaulting read at all: then the name is simply required everywhere, which is consistent (nothing to contradict)
        o.witness('no optional-attribute belief stated')
    o.sample({'beliefs': [f'{b[2].name}: {ast.unparse(b[3])}' for b in beliefs], 'direct_reads': [f'{f_.name}: {ast.unparse(x)}' for f_, x in viol]})
    obs.append(dv.falsy_default_obligation(ctx, 'C12.8', ['Maintainer', '_WorkOrder'], 'capacities are the numbers given (a maintainer with capacity 0 starts nothing that needs capacity)'))
    return obs


def seq_check(ctx, M, meth, o, N, need, forbid):
    P = ctx.P
    RH = dv.record_helper(P, M)
    g = ctx.graph(M, meth, opaque=('try_working_requests', RH[0], 'add_cost'))
    fn = P.method(M, meth)[1]
    rq = fn.args.args[1].arg
    defs = single_defs(fn)

    def hook(an, n, before, after):
        st = after

        def bump(k):
            nonlocal st
            c = sum(1 for f in st.flags if f.startswith(k + '#'))
            st = st.with_flag(f'{k}#{c + 1}')
        a = n.ast
        for cl in calls_at(an.g, n):
            nm = call_attr(cl)
            rc = dv.record_call(cl, RH)
            if rc is not None:
                bump('rec:' + rc[0] if rc[1] and ctext(ast.parse(rc[1][0], mode='eval').body, FrameEnv(n.frame)) == rq else 'rec-wrong-order')
            env = FrameEnv(n.frame)
            if nm in ('start_work', 'end_work') and isinstance(cl.func, ast.Attribute):
                good = ctext(cl.func.value, env) == f'{rq}.target' and [ctext(x, env) for x in cl.args] == [f'{rq}.tag'] and not cl.keywords
                bump('hook:' + nm if good else 'hook-wrong-args')
                # the order is in progress until its end hook has run: a request made from inside the hook still finds it (identical
                # (target, tag) refused, the target still busy)
                if nm == 'end_work' and (any(f.startswith('deactivate#') for f in st.flags) or any(f.startswith('util-#') for f in st.flags)):
                    bump('end-hook-after-release-wrong')
            if nm == 'add_cost' and is_self_attr(cl.func):
                v = cl.args[1] if len(cl.args) > 1 else next((k.value for k in cl.keywords if k.arg == 'cost'), None)
                good = v is not None and ctext(v, env) == f'{rq}.target.get_work_order_cost({rq}.tag)'
                bump('cost' if good else 'cost-wrong')
            if nm == 'add_value' and is_self_attr(cl.func):
                bump('cost-wrong')
            if nm == 'remove' and isinstance(cl.func, ast.Attribute) and ctext(cl.func.value, env) == 'self._active_requests':
                bump('deactivate' if [ctext(x, env) for x in cl.args] == [rq] else 'deactivate-wrong')
            if nm == 'try_working_requests':
                done = any(f.startswith('deactivate#') for f in st.flags) and any(f.startswith('util-#') for f in st.flags)
                bump('rescan' if done else 'rescan-too-early')
            if nm == 'schedule_event':
                b = bind_call(cl, SCHED_PARAMS)
                act = b.get('action')
                if isinstance(act, ast.Name):
                    r_ = env.resolve(act.id)
                    act = r_[0] if r_ else act
                t = b.get('time')
                dur = None
                if t is not None:
                    lin = N.norm(subst(t, env), {})
                    dur = lin.is_({'NOW': 1, f'{rq}.target.get_work_order_duration({rq}.tag)': 1})
                tgt = None
                if isinstance(act, ast.Call) and call_attr(act) == 'partial' and act.args and ctext(act.args[0], env) == 'self._finish_work_order':
                    tgt = [ctext(k.value, env) for k in act.keywords if k.arg == 'request'] or [ctext(x, env) for x in act.args[1:]]
                good = sched_event_type(cl) == 'FINISH_WORK' and dur and ctext(b.get('asset_id', ast.Constant(0)), env) == 'self.id' and tgt == [rq]
                bump('sched:FINISH_WORK' if good else 'sched-wrong')
        if n.kind == 'stmt' and isinstance(a, (ast.Assign, ast.AugAssign)):
            tg = a.targets if isinstance(a, ast.Assign) else [a.target]
            if any(is_self_attr(t, '_utilization') for t in tg):
                newv = N.norm(subst(ast.BinOp(left=a.target, op=a.op, right=a.value) if isinstance(a, ast.AugAssign) else a.value, FrameEnv(n.frame)), {})
                bump('util-' if newv.is_({'self._utilization': 1, f'{rq}.needed_capacity': -1}) else 'util-wrong')
        return st
    an = Analysis(P, g, [])
    an.node_hooks.append(hook)
    res = ctx.explore(an, [State({})])
    o.require(res.exits(), f'Maintainer.{meth} has no normal exit')
    for st in res.exits():
        o.count()
        counts = {}
        for f in st.flags:
            k, _, c = f.rpartition('#')
            counts[k] = max(counts.get(k, 0), int(c))
        bad = []
        for k, c in need.items():
            if counts.get(k, 0) != c:
                bad.append(f'{k} happens {counts.get(k, 0)} time(s), expected {c}')
        for k in counts:
            if k.endswith('wrong') or k.endswith('wrong-order') or k.endswith('wrong-args') or k.endswith('too-early') or k in forbid:
                bad.append(f'unexpected: {k}')
        if bad:
            o.fail(P, f'Maintainer.{meth}', meth, f'the handler does not do each step exactly once for the order it was given: ' + '; '.join(sorted(bad)),
                   file=M.mod.path, line=fn.lineno, path=res.path_lines(g.exit, st))
        else:
            o.witness(meth)
            o.sample({'handler': meth, 'steps': sorted(counts)})



def _c12_12_by_helper(ctx, P, M, N, obs):
    """C12.1 / C12.2 when the duplicate test lives in the helper _is_work_order_requested and is phrased as a membership test (`order in list`)"""
    # ---- C12.1 ---------------------------------------------------------------------------------
    o = Ob('C12.1', 'K2', 'create_work_order: False <=> duplicate; otherwise enter_queue recorded, order appended at the tail with the reported capacity, scan triggered, True')
    obs.append(o)
    RH = dv.record_helper(P, M)
    if RH is None:
        raise AnalysisError('Maintainer: the helper that records work-order datapoints was not found')
    g = ctx.graph(M, 'create_work_order', boolean=True, opaque=('_is_work_order_requested', 'try_working_requests', RH[0]))
    fn = P.method(M, 'create_work_order')[1]
    dup = [(n, cl) for n in g.nodes.values() for cl in calls_at(g, n) if call_attr(cl) == '_is_work_order_requested']
    o.count()
    params = [a.arg for a in fn.args.args][1:]
    def _dup_args(c_, frame):
        b_ = dv.bind_method_call(P, M, c_) or {}
        return [dv.canon_text(v, frame) for v in b_.values()]
    if len(dup) != 1 or _dup_args(dup[0][1], dup[0][0].frame) != params[:2]:
        o.fail(P, 'Maintainer.create_work_order', 'if self._is_work_order_requested(target, tag): return False', 'the duplicate test on (target, tag) is missing or tests something else',
               file=M.mod.path, line=fn.lineno)
    else:
        d = dup[0][0]
        o.witness('dup-test')
        # the answer of the duplicate test is a ghost: for both values the operation is explored to its true / false exits (the test may be
        # used directly as a condition, negated, or kept in a local)
        def effect_hook(an_, n, before, after):
            st = after
            if n is d:
                st = st.with_flag('tested')
            elif n.kind == 'stmt' and 'tested' in st.flags and any(call_attr(c_) != '_is_work_order_requested' for c_ in calls_at(g, n)):
                st = st.with_flag('effect')       # anything done after the test has answered "duplicate"
            return st
        and_ = Analysis(P, g, ['#dup'], call_models={'_is_work_order_requested': lambda call, st, frame: st.fields.get('#dup', TOP)})
        and_.node_hooks.append(effect_hook)
        o.count(2)
        for dv_ in 'TF':
            resd = ctx.explore(and_, [State({'#dup': dv_})])
            yes, no = resd.at(g.exitT), resd.at(g.exitF)
            if dv_ == 'T' and (yes or any('effect' in s_.flags for s_ in no)):
                o.fail(P, 'Maintainer.create_work_order', None, 'a duplicate request is not simply rejected (returns True or has effects)', node=d)
            if dv_ == 'F' and no:
                o.fail(P, 'Maintainer.create_work_order', None, 'a new request can be rejected although it is not a duplicate', node=d)

        def hook(an, n, before, after):
            st = after
            for cl in calls_at(an.g, n):
                nm = call_attr(cl)
                rc = dv.record_call(cl, RH)
                if rc is not None:
                    st = st.with_flag('rec:' + rc[0] + ':' + rc[1][0] if rc[1] else 'rec:?')
                if nm == 'append' and is_self_attr(cl.func.value, '_request_queue'):
                    st = st.with_flag('queued:' + ast.unparse(cl.args[0]))
                if nm in ('insert', 'appendleft', 'extend') and is_self_attr(cl.func.value, '_request_queue'):
                    st = st.with_flag('queued-not-at-tail')
                if nm == 'try_working_requests':
                    st = st.with_flag('scan-after-queue' if any(f.startswith('queued:') for f in st.flags) else 'scan-before-queue')
            return st
        an = Analysis(P, g, ['#dup'], call_models={'_is_work_order_requested': lambda call, st, frame: st.fields.get('#dup', TOP)})
        an.node_hooks.append(hook)
        res = ctx.explore(an, [State({'#dup': 'F'})])
        defs = single_defs(fn)
        for st in res.at(g.exitT):
            o.count()
            q = [f for f in st.flags if f.startswith('queued:')]
            bad = None
            if len(q) != 1 or 'queued-not-at-tail' in st.flags:
                bad = 'an accepted order must be appended once at the tail of the queue'
            else:
                var = q[0].split(':', 1)[1]
                d_ = defs.get(var)
                capv = None
                wo_args = None
                if isinstance(d_, ast.Call) and ast.unparse(d_.func) == '_WorkOrder' and P.has_cls('_WorkOrder'):
                    wfn = P.method(P.cls('_WorkOrder'), '__init__')[1]
                    wparams = [a_.arg for a_ in wfn.args.args][1:]
                    bnd = dict(zip(wparams, d_.args))
                    bnd.update({k.arg: k.value for k in d_.keywords if k.arg})
                    if len(wparams) == 4 and set(bnd) == set(wparams):
                        wo_args = [ast.unparse(bnd[p_]) for p_ in wparams]
                if wo_args is not None:
                    a0, a1, a2, a3 = wo_args
                    capd = defs.get(a2)
                    capv = ast.unparse(capd) if capd is not None else a2
                    if (a0, a1, a3) != (params[0], params[1], params[2]) or capv != f'{params[0]}.get_work_order_capacity({params[1]})':
                        bad = 'the queued order must be built from (target, tag, capacity reported by the target for this tag, info)'
                else:
                    bad = 'the queued order is not a work order built from the request'
                if not bad and f'rec:enter_queue:{var}' not in st.flags:
                    bad = "the accepted order is not recorded with an 'enter_queue' datapoint"
                if not bad and 'scan-after-queue' not in st.flags:
                    bad = 'the queue is not scanned after the order was added'
            if bad:
                o.fail(P, 'Maintainer.create_work_order', 'self._request_queue.append(request)', bad, file=M.mod.path, line=fn.lineno, path=res.path_lines(g.exitT, st))
            else:
                o.witness('accept-path')
        o.sample({'duplicate_test': d.src(), 'true_exits': len(res.at(g.exitT)), 'false_exits': len(res.at(g.exitF))})

    # ---- C12.2 -----------------------------------------------------------------------------------
    o = Ob('C12.2', 'K6', 'the duplicate test scans the queue and the active list for an order with the same target and the same tag')
    obs.append(o)
    fn = P.method(M, '_is_work_order_requested')[1]
    dparams = [a.arg for a in fn.args.args][1:]
    member_tests = [x for x in ast.walk(fn) if isinstance(x, ast.Compare) and len(x.ops) == 1 and isinstance(x.ops[0], (ast.In, ast.NotIn))
                    and ast.unparse(x.comparators[0]) in ('self._request_queue', 'self._active_requests')]
    if len(dparams) < 2 or member_tests:
        # the duplicate test is phrased as membership (`order in list`): the relation is the equality of the order class
        o.count()
        WO = P.cls('_WorkOrder') if P.has_cls('_WorkOrder') else None
        rel = None
        if WO is not None:
            if '__eq__' in WO.methods:
                rel = 'a user-defined __eq__ (not analysed)'
            elif any(ast.unparse(d).split('(')[0] in ('dataclass', 'dataclasses.dataclass') for d in WO.node.decorator_list):
                flds = [st.target.id for st in WO.node.body if isinstance(st, ast.AnnAssign) and isinstance(st.target, ast.Name)
                        and not (isinstance(st.value, ast.Call) and any(k.arg == 'compare' and isinstance(k.value, ast.Constant) and k.value.value is False for k in st.value.keywords))]
                rel = 'equality of the fields ' + str(flds)
                if sorted(flds) == ['tag', 'target']:
                    rel = None
            else:
                rel = 'object identity (the class defines no __eq__), so a freshly built order is never found'
        covered_lists = {ast.unparse(x.comparators[0]) for x in member_tests}
        if rel is not None or covered_lists != {'self._request_queue', 'self._active_requests'}:
            o.fail(P, 'Maintainer._is_work_order_requested', member_tests[0] if member_tests else fn,
                   f'the duplicate test is a membership test whose relation is {rel or "over " + str(sorted(covered_lists))}; an order is a duplicate iff an order with the same target AND the same tag '
                   '(nothing more, nothing less) is queued or in progress', file=M.mod.path, line=fn.lineno)
        else:
            o.witness('membership')
        dup_by_membership = True
    else:
        dup_by_membership = False
    tp, gp = (dparams + [None, None])[:2]
    gd = ctx.graph(M, '_is_work_order_requested', boolean=True)
    EL = ExistsLoops({'self._request_queue': '#dupQ', 'self._active_requests': '#dupA'}, [('target', eq_fact('target', tp)), ('tag', eq_fact('tag', gp))])
    and_ = Analysis(P, gd, EL.fields())
    EL.install(and_)
    import itertools
    for q, a_ in ([] if dup_by_membership else itertools.product('TF', 'TF')):
        res = ctx.explore(and_, [State(EL.entry(**{'#dupQ': q, '#dupA': a_}))])
        yes, no = res.at(gd.exitT), res.at(gd.exitF)
        o.count()
        want = q == 'T' or a_ == 'T'
        case = f'an order with the same target and tag is {"" if q == "T" else "not "}queued and {"" if a_ == "T" else "not "}in progress'
        bad = None
        if not yes and not no:
            bad = 'the duplicate test has no normal exit'
        elif want and no:
            bad = 'the duplicate test can answer False'
            ex, st_ = gd.exitF, no[0]
        elif not want and yes:
            bad = 'the duplicate test can answer True'
            ex, st_ = gd.exitT, yes[0]
        if bad:
            o.fail(P, 'Maintainer._is_work_order_requested', 'for r in self._request_queue / self._active_requests: if r.target == target and r.tag == tag: return True',
                   f'{case}: {bad} (an order is a duplicate iff an order with the same target AND the same tag is queued or in progress)', file=M.mod.path, line=fn.lineno,
                   path=res.path_lines(ex, st_) if not bad.endswith('exit') else None)
        else:
            o.witness((q, a_))
    o.sample({'cases': 'duplicate queued x duplicate in progress (4 combinations)', 'graph_nodes': len(gd.nodes),
              'model': 'search loops explored with abstract elements: match (target and tag equal) / other'})


CLAIM = {
    'technique': 'static analysis: boolean-exit supergraph of create_work_order, path enumeration of the queue scan with normal-form guards, '
                 'once-only step counting by typestate in the start/finish handlers, who-may-write inventories',
    'level_text': 'Acceptance, queue order, the capacity/target guard of the scan and the once-only hooks of one order are decided on every path; '
                  'capacity-in-use over overlapping orders of a run is not summed.',
    'level_note': 'Targets report consistent capacities; hooks do not touch the maintainer lists directly.',
}
