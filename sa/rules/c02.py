"""C02 -- parts are conserved: never duplicated, dropped or invented."""
import ast
import itertools

from .. import AnalysisError
from ..report import Ob
from ..cfg import calls_at, call_attr, is_self_attr, recv_text
from ..state import Analysis, State, TOP, is_token
from ..norm import Normalizer, cmp_norm, single_defs
from .. import inventory as inv
from .. import devices as dv

EXPLANATION = '''
Static analysis of every part-handling device class (PartFlowController, DecisionGate, GroupInput, GroupOutput,
GroupPath, PartHandler, PartProcessor, Buffer, PartBatcher, Sink, Source) with path-sensitive typestate exploration of
per-entry-point supergraphs in which self./super()/static calls are inlined for the concrete class.
Decided: (C02.1) every give_part implementation returns True exactly when the receiver stored the part in its own slot
or a delegated give_part on another object answered True, never both, and False only when neither happened;
(C02.2) the store into the input slot is reached only with both slots empty, input not blocked and the machine up;
(C02.3) every true exit of every _can_accept_part override has established the base conjuncts; (C02.4) token
conservation: at every exit of every computed entry point each part present at entry is in exactly one place (input
slot, output slot, handed to a receiver that said yes, reported lost, consumed by the sink); (C02.5) the slot invariants
are inductive over all entry points and hold after construction + initialisation; (C02.6) a failure reports exactly the
part it drops and leaves the finished part alone; (C02.7) a source hands over only under the budget guard, counts
exactly the parts that left, and clamps budget adjustments; (C02.8) only the device hierarchy writes slot fields.
NOT decided: conservation over a whole run of a concrete model (this is the induction step and base case, under the
run-to-completion assumption and for user callbacks that do not move parts); contents of batches mutated by user code.
'''
ASSUMPTIONS = ['entry points run to completion (single-threaded); re-entrant calls are limited to the protocol methods audited by C03.9',
               'user callbacks (receive/finish/shutdown callbacks, deciders) do not move parts between slots',
               'Part objects are truthy (Part/Batch define neither __bool__ nor __len__)']
MIN_INSTANCES = 400

DELEG = {'give_part', '_pass_part_downstream'}


def ensure_deleg(ctx):
    """extend DELEG (in place: other rule modules imported the set's users) with the methods of the package that are nothing but a hand-over
    loop: a part parameter, no store to the device, and True is returned only through the true edge of a delegated hand-over of that part
    -- whatever such a method is called and in whichever class it lives (`GroupPath._pass_part_downstream`, a pulled-up
    `PartFlowController._offer_part_downstream`)"""
    P = ctx.P
    if P.__dict__.get('_sa_deleg_done'):
        return
    P.__dict__['_sa_deleg_done'] = True
    changed = True
    rounds = 0
    while changed and rounds < 3:
        changed = False
        rounds += 1
        byname = {}
        for cs in P.by_name.values():
            for c in cs:
                for nm, f in c.methods.items():
                    byname.setdefault(nm, []).append((c, f))
        for nm, lst in byname.items():
            if nm in DELEG or nm.startswith('__'):
                continue
            ok = True
            for c, f in lst:
                ps = [a.arg for a in f.args.args]
                if len(ps) < 2 or ps[0] != 'self':
                    ok = False
                    break
                if any(isinstance(x, (ast.Attribute, ast.Subscript)) and isinstance(x.ctx, (ast.Store, ast.Del)) for x in ast.walk(f)):
                    ok = False
                    break
                if not any(isinstance(x, ast.Call) and isinstance(x.func, ast.Attribute) and x.func.attr in DELEG for x in ast.walk(f)):
                    ok = False
                    break
                try:
                    g = ctx.graph(c, nm, boolean=True)
                except Exception:      # noqa: BLE001
                    ok = False
                    break
                conds = [n for n in g.nodes.values() if n.kind == 'cond' and n.frame is g.top and foreign_deleg_call(g, n, n.ast) and n.ast.args
                         and ast.unparse(n.ast.args[0]) == ps[1]]
                if not conds or g.exitT in g.reach_edges([g.entry], cut_edges={(n.id, 'T') for n in conds}):
                    ok = False
                    break
            if ok:
                DELEG.add(nm)
                changed = True


def foreign_deleg_call(g, n, test):
    """`x.give_part(p)` / `x._pass_part_downstream(p)` on another object, not inlined"""
    return (isinstance(test, ast.Call) and isinstance(test.func, ast.Attribute) and test.func.attr in DELEG
            and (n.frame.id, id(test)) not in g.inlined and not is_self_attr(test.func) and recv_text(test) != 'self')


def give_contract(ctx, collect_c08=None):
    """C02.1 (+ the routing counters for C08.1).  returns Ob"""
    P = ctx.P
    o = Ob('C02.1', 'K9+K5', 'hand-over contract of every give_part implementation: True <=> exactly one of '
                             '{stored in own slot, a delegated give_part answered True}; False => neither')
    targets = []
    for c in dv.device_classes(P):
        if (c.name, 'give_part') in dv.EXEMPT_ENTRIES:
            continue
        if P.has_method(c, 'give_part'):
            targets.append((c, 'give_part'))
    if P.has_cls('GroupPath') and P.has_method('GroupPath', '_pass_part_downstream'):
        targets.append((P.cls('GroupPath'), '_pass_part_downstream'))
    o.require(len(targets) >= 10, f'only {len(targets)} give_part implementations found (expected >= 10)')

    class A(Analysis):
        pass

    def node_hook(an, n, before, after):
        a = n.ast
        st = after
        if n.kind == 'stmt' and isinstance(a, ast.Assign) and any(is_self_attr(t, '_part') for t in a.targets) \
                and not isinstance(a.value, ast.Constant):
            st = st.with_flag('own2' if 'own' in st.flags else 'own')
        for c in calls_at(an.g, n):
            f = c.func
            if not isinstance(f, ast.Attribute):
                continue
            s = ast.unparse(f)
            if f.attr == 'add_routing_history' and not s.startswith('super()'):
                st = st.with_field('#hist', str(int(st.fields['#hist']) + 1))
            if f.attr == 'remove_from_routing_history' and not s.startswith('super()'):
                st = st.with_field('#hist', str(int(st.fields['#hist']) - 1))
            if s.endswith('_group_pathing.append'):
                st = st.with_field('#gp', str(int(st.fields['#gp']) + 1))
            if s.endswith('_group_pathing.pop'):
                st = st.with_field('#gp', str(int(st.fields['#gp']) - 1))
        if n.kind == 'stmt' and isinstance(a, ast.Assign) and len(a.targets) == 1 and isinstance(a.targets[0], ast.Name) \
                and foreign_deleg_call(an.g, n, a.value):
            st = st.with_flag(f'delegvar:{n.frame.id}:{a.targets[0].id}')
        return st

    def edge_hook(an, n, label, st):
        if n.kind != 'cond' or label != 'T':
            return st
        t = n.ast
        if foreign_deleg_call(an.g, n, t):
            return st.with_flag('deleg2' if 'deleg' in st.flags else 'deleg')
        if isinstance(t, ast.Name) and f'delegvar:{n.frame.id}:{t.id}' in st.flags:
            return st.with_flag('deleg')
        return st

    for c, meth in targets:
        g = ctx.graph(c, meth, boolean=True)
        an = Analysis(P, g, ['_part', '_output', '_is_shut_down', '_block_input', '#hist', '#gp'],
                      call_models={'reserve_resources': TOP})
        an.node_hooks.append(node_hook)
        an.edge_hooks.append(edge_hook)
        dom = dv.base_domain(P, c)
        if c.name in dv.PASS_THROUGH:
            dom['_part'] = ['N']
            dom['_output'] = ['N']
        nstates = 0
        for f0 in dv.product_states(dom):
            f0 = dict(f0, **{'#hist': '0', '#gp': '0'})
            for pv in 'NS':
                s0 = State(f0)
                s0.locals[(g.top.id, 'part')] = pv
                res = ctx.explore(an, [s0])
                for ex, truth in ((g.exitT, True), (g.exitF, False)):
                    for st in res.at(ex):
                        o.count()
                        nstates += 1
                        own = 'own' in st.flags
                        dg = 'deleg' in st.flags
                        twice = 'own2' in st.flags or 'deleg2' in st.flags
                        if truth:
                            o.witness((c.name, meth, 'own' if own else 'delegated'))
                            ok = (own != dg) and not twice
                        else:
                            ok = not own and not dg
                        if not ok:
                            what = ('claims the part although nobody took it' if truth and not own and not dg else
                                    'takes the part twice (own slot and a downstream device)' if truth else
                                    'refuses the part although it was ' + ('stored in its slot' if own else 'taken by a downstream device'))
                            last = [n for n in res.path(ex, st) if n.kind in ('return', 'cond')]
                            o.fail(P, f'{c.name}.{meth}', last[-1].ast if last else meth,
                                   f'{meth} returning {truth} {what} (entry {s0.show()} part={pv})',
                                   node=last[-1] if last else None, file=c.mod.path, path=res.path_lines(ex, st))
                        if collect_c08 is not None:
                            collect_c08(c, meth, truth, s0, st, res, ex)
        o.sample({'class': c.name, 'method': meth, 'graph_nodes': len(g.nodes), 'exit_states': nstates})
    return o


def check(ctx):
    P = ctx.P
    obs = []
    obs.append(give_contract(ctx))

    handler_classes = [c for c in dv.device_classes(P, dv.SLOT_DEVICES)]

    # ---- C02.2 acceptance needs empty slots ----------------------------------------
    o = Ob('C02.2', 'K5', 'the store into the input slot is reached only with both slots empty, input not blocked, machine up')
    obs.append(o)
    for c in handler_classes:
        if (c.name, 'give_part') in dv.EXEMPT_ENTRIES:
            continue
        g = ctx.graph(c, 'give_part')
        stores = [n for n in g.nodes.values() if n.kind == 'stmt' and isinstance(n.ast, ast.Assign)
                  and any(is_self_attr(t, '_part') for t in n.ast.targets)
                  and not (isinstance(n.ast.value, ast.Constant) and n.ast.value.value is None)]
        if not stores:
            o.fail(P, f'{c.name}.give_part', 'self._part = part', 'give_part never stores the part in the input slot', file=c.mod.path, line=c.node.lineno)
            continue
        an = Analysis(P, g, ['_part', '_output', '_is_shut_down', '_block_input'], call_models={'reserve_resources': TOP})
        for f0 in dv.product_states(dv.base_domain(P, c)):
            s0 = State(f0)
            s0.locals[(g.top.id, 'part')] = 'S'
            res = ctx.explore(an, [s0])
            for sn in stores:
                for st in res.at(sn.id):
                    o.count()
                    f = st.fields
                    o.witness((c.name, sn.line))
                    if not (f['_part'] == 'N' and f['_output'] == 'N' and f['_block_input'] == 'F' and f['_is_shut_down'] == 'F'):
                        o.fail(P, f'{c.name}.give_part', None,
                               f'a part is accepted while the device is {"busy" if f["_part"] != "N" or f["_output"] != "N" else "blocked" if f["_block_input"] != "F" else "shut down"} (state {st.show()})',
                               node=sn, path=res.path_lines(sn.id, st))
        o.sample({'class': c.name, 'store_sites': [f'{P.rel(n.file)}:{n.line}' for n in stores]})

    # ---- C02.3 overrides of the acceptance test only strengthen -------------------
    o = Ob('C02.3', 'K9', 'every true exit of every _can_accept_part has established: part given, operational, not blocked '
                          '(and for slot devices both slots empty)')
    obs.append(o)
    for c in dv.device_classes(P):
        if not P.has_method(c, '_can_accept_part') or (c.name, 'give_part') in dv.EXEMPT_ENTRIES:
            continue
        g = ctx.graph(c, '_can_accept_part', boolean=True)
        an = Analysis(P, g, ['_part', '_output', '_is_shut_down', '_block_input'], call_models={'reserve_resources': TOP})
        slot = c.name in dv.SLOT_DEVICES
        dom = dv.base_domain(P, c)
        if not slot:
            dom['_part'] = ['N']
            dom['_output'] = ['N']
        ntrue = 0
        for f0 in dv.product_states(dom):
            for pv in 'NS':
                s0 = State(f0)
                s0.locals[(g.top.id, 'part')] = pv
                res = ctx.explore(an, [s0])
                for st in res.at(g.exitT):
                    o.count()
                    ntrue += 1
                    f = st.fields
                    ok = pv == 'S' and f['_is_shut_down'] == 'F' and f['_block_input'] == 'F' and \
                        (not slot or (f['_part'] == 'N' and f['_output'] == 'N'))
                    if not ok:
                        last = [n for n in res.path(g.exitT, st) if n.kind in ('return', 'cond')]
                        o.fail(P, f'{c.name}._can_accept_part', last[-1].ast if last else '_can_accept_part',
                               f'the acceptance test answers True in state {st.show()} with part={pv}',
                               node=last[-1] if last else None, file=c.mod.path, path=res.path_lines(g.exitT, st))
        if ntrue:
            o.witness(c.name)
        else:
            o.fail(P, f'{c.name}._can_accept_part', '_can_accept_part', 'the acceptance test can never answer True', file=c.mod.path, line=c.node.lineno)
        o.sample({'class': c.name, 'true_exits': ntrue})

    # ---- C02.4 token conservation -----------------------------------------------------
    o = Ob('C02.4', 'K5', 'token conservation: at every exit of every entry point each part present at entry is in exactly one '
                          'of {input slot, output slot, handed to a receiver that answered True, reported lost, consumed by the sink}')
    obs.append(o)

    def tok_edge(an, n, label, st):
        if n.kind == 'cond' and label == 'T' and foreign_deleg_call(an.g, n, n.ast) and n.ast.args:
            tok = an.ev(n.ast.args[0], st, n.frame)
            if is_token(tok):
                st = st.with_flag(('handed2:' if 'handed:' + tok in st.flags else 'handed:') + tok)
        return st

    def tok_node(an, n, before, after):
        st = after
        fr = n.frame
        if n.kind == 'call_enter' and fr.func.name == '_shutdown':
            isf = st.locals.get((fr.id, 'is_failure'))
            lp = st.locals.get((fr.id, 'lost_part'))
            if isf == 'T' and lp is not None and is_token(lp):
                st = st.with_flag('lost:' + lp)
        a = n.ast
        if n.kind == 'stmt' and isinstance(a, ast.Assign) and any(is_self_attr(t, '_output') for t in a.targets) \
                and isinstance(a.value, ast.Constant) and a.value.value is None and P.has_cls('Sink') and P.cls('Sink') in fr.concrete.mro \
                and fr.defcls.name == 'Sink':
            tok = before.fields.get('_output')
            if tok is not None and is_token(tok):
                st = st.with_flag('consumed:' + tok)
        return st

    for c in handler_classes:
        if c.name in ('Buffer',):
            continue           # list-valued storage: expressed as the pairing C05.2/C05.3 on the FIFO head
        for e, kind in sorted(dv.entries_of(P, c).items()):
            if c.name == 'PartBatcher' and e in ('_pass_part_downstream', 'give_part', '_finish_cycle', 'restore_functionality'):
                continue       # unpacking needs the container model: C17.3 / C02.9
            g = ctx.graph(c, e)
            an = Analysis(P, g, ['_part', '_output', '_is_shut_down', '_block_input'],
                          call_models={'generate_part': 'new', 'reserve_resources': TOP})
            an.node_hooks.append(tok_node)
            an.edge_hooks.append(tok_edge)
            fn = dv.entry_fn(P, c, e)
            has_part = 'part' in [a.arg for a in fn.args.args]
            dom = dv.base_domain(P, c, part_tokens=True)
            for f0 in dv.product_states(dom, lambda f: dv.slot_invariant(c.name, f)):
                for split in dv.param_splits(P, c, e, g):
                    s0 = State(f0)
                    s0.locals.update(split)
                    if has_part:
                        s0.locals[(g.top.id, 'part')] = 'arg'
                    res = ctx.explore(an, [s0])
                    for st in res.exits():
                        o.count()
                        for tok in ('p0', 'o0'):
                            if tok not in (f0['_part'], f0['_output']):
                                continue
                            places = [k for k in ('_part', '_output') if st.fields[k] == tok]
                            places += [fl for fl in st.flags if fl.endswith(':' + tok)]
                            if len(places) == 1:
                                if places[0] not in ('_part', '_output') or (places[0] == '_output' and tok == 'p0'):
                                    o.witness((c.name, e, places[0].split(':')[0]))
                                continue
                            where = 'nowhere (dropped without being reported)' if not places else 'in two places: ' + ', '.join(places)
                            last = [n for n in res.path(g.exit, st) if n.kind == 'stmt' and isinstance(n.ast, ast.Assign)
                                    and any(is_self_attr(t) and t.attr in ('_part', '_output') for t in n.ast.targets)]
                            o.fail(P, f'{c.name}.{e}', last[-1].ast if last else e,
                                   f'the part held in {"the input slot" if tok == "p0" else "the output slot"} at entry is {where} at exit (entry {s0.show()} -> exit {st.show()})',
                                   node=last[-1] if last else None, file=c.mod.path, path=res.path_lines(g.exit, st))
                        # an argument part is either refused (still the caller's) or stored exactly once
                        if has_part:
                            n_arg = [k for k in ('_part', '_output') if st.fields[k] == 'arg']
                            if len(n_arg) > 1:
                                o.fail(P, f'{c.name}.{e}', e, 'the offered part ends up in both slots', file=c.mod.path, line=fn.lineno,
                                       path=res.path_lines(g.exit, st))
        o.sample({'class': c.name, 'entry_points': sorted(dv.entries_of(P, c))})

    # ---- C02.5 slot invariants are inductive --------------------------------------------
    o = Ob('C02.5', 'K5', 'slot invariants hold after construction+initialisation and are preserved by every entry point '
                          '(handler/processor: not both slots full; sink: output empty; source: input empty; '
                          'batcher: input full => output full; buffer: both empty at rest)')
    obs.append(o)
    for c in handler_classes:
        for e, kind in sorted(dv.entries_of(P, c).items()):
            g = ctx.graph(c, e)
            an = Analysis(P, g, ['_part', '_output', '_is_shut_down', '_block_input'],
                          call_models={'generate_part': 'S', 'reserve_resources': TOP, 'Batch': 'S'})
            fn = dv.entry_fn(P, c, e)
            has_part = 'part' in [a.arg for a in fn.args.args]
            for f0 in dv.product_states(dv.base_domain(P, c), lambda f: dv.slot_invariant(c.name, f)):
                for split in dv.param_splits(P, c, e, g):
                    s0 = State(f0)
                    s0.locals.update(split)
                    if has_part and (g.top.id, 'part') not in s0.locals:
                        s0.locals[(g.top.id, 'part')] = 'S'
                    if e == '_finish_cycle' and c.name != 'Source' and not (dv.full(f0['_part']) and f0['_is_shut_down'] == 'F' and not dv.full(f0['_output'])):
                        continue      # the cycle timer fires only for a part in process on a machine that is up (C06.1)
                    res = ctx.explore(an, [s0])
                    for st in res.exits():
                        o.count()
                        if not dv.slot_invariant(c.name, st.fields):
                            last = [n for n in res.path(g.exit, st) if n.kind == 'stmt' and isinstance(n.ast, ast.Assign)
                                    and any(is_self_attr(t) and t.attr in ('_part', '_output') for t in n.ast.targets)]
                            o.fail(P, f'{c.name}.{e}', last[-1].ast if last else e,
                                   f'slot invariant of {c.name} broken: entry {s0.show()} -> exit {st.show()}',
                                   node=last[-1] if last else None, file=c.mod.path, path=res.path_lines(g.exit, st))
                        else:
                            if st.fields != s0.fields:
                                o.witness((c.name, e))
        # base case: constructor then initialize
        base_states = construct_and_initialize(ctx, c, ['_part', '_output', '_is_shut_down', '_block_input'])
        for st in base_states:
            o.count()
            if not dv.slot_invariant(c.name, st.fields) or st.fields['_block_input'] != 'F':
                o.fail(P, f'{c.name}.initialize', 'initialize', f'state after construction and initialisation violates the slot invariant: {st.show()}',
                       file=c.mod.path, line=c.node.lineno)
            else:
                o.witness((c.name, 'base'))
        o.sample({'class': c.name, 'base_states': [s.show() for s in base_states][:3]})
    # the exemption of Source.give_part rests on Source.set_upstream raising
    if P.has_cls('Source'):
        c = P.cls('Source')
        g = ctx.graph(c, 'set_upstream')
        an = Analysis(P, g, [])
        o.count()
        escapes = False
        fn = dv.entry_fn(P, c, 'set_upstream')
        pname = [a.arg for a in fn.args.args][1]
        # a non-empty list argument: `x != []` is true and `x != None` is true
        def refine_nonempty(an_, test, truth, st, frame):
            if isinstance(test, ast.Compare) and len(test.ops) == 1 and isinstance(test.left, ast.Name) and test.left.id == pname:
                r = test.comparators[0]
                isempty = (isinstance(r, ast.List) and not r.elts) or (isinstance(r, ast.Constant) and r.value is None)
                if isempty and isinstance(test.ops[0], (ast.NotEq, ast.IsNot)):
                    return st if truth else None
                if isempty and isinstance(test.ops[0], (ast.Eq, ast.Is)):
                    return None if truth else st
            return NotImplemented
        an.refine_hooks.append(refine_nonempty)
        res = ctx.explore(an, [State({})])
        if res.exits():
            o.fail(P, 'Source.set_upstream', 'raise ValueError', 'Source.set_upstream can return normally for a non-empty upstream list, '
                   'so a device could offer parts to a source (Source.give_part is exempted from the analysis on this ground)',
                   file=c.mod.path, line=fn.lineno)
        else:
            o.witness('source-has-no-upstream')

    # ---- C02.6 failure drops only the input part and reports it ---------------------------
    o = Ob('C02.6', 'K2', 'failure: the part read from the input slot before clearing reaches the device_failure record and the '
                          'shutdown callbacks (is_failure true); the finished part in the output slot is untouched')
    obs.append(o)
    if P.has_cls('PartProcessor'):
        c = P.cls('PartProcessor')
        g = ctx.graph(c, '_fail')
        an = Analysis(P, g, ['_part', '_output', '_is_shut_down', '_block_input'])

        def fail_hook(an_, n, before, after):
            st = after
            for cl in calls_at(an_.g, n):
                if call_attr(cl) == 'add_datapoint' and cl.args and isinstance(cl.args[0], ast.Constant) and cl.args[0].value == 'device_failure':
                    if dv.record_carries(an_, cl, before, n.frame, 'p0'):
                        st = st.with_flag('logged')
                if isinstance(cl.func, ast.Name) and n.kind == 'stmt' and (n.frame.id, cl.func.id) in before.locals and len(cl.args) >= 3:
                    # a callback invocation c(self, is_failure, lost_part)
                    a1 = an_.ev(cl.args[1], before, n.frame)
                    a2 = an_.ev(cl.args[2], before, n.frame)
                    if a2 == 'p0' and a1 == 'T':
                        st = st.with_flag('cb-reached')
            if n.kind == 'for' and any(isinstance(x, ast.Call) and isinstance(x.func, ast.Name) and x.func.id == (n.ast.target.id if isinstance(n.ast.target, ast.Name) else None)
                                       and len(x.args) >= 3 and an_.ev(x.args[2], after, n.frame) == 'p0' and an_.ev(x.args[1], after, n.frame) == 'T'
                                       for s_ in n.ast.body for x in ast.walk(s_)) and '_shutdown_callbacks' in ast.unparse(n.ast.iter):
                st = st.with_flag('cb-loop')
            return st
        an.expr_hooks.append(dv.id_of_token)
        an.node_hooks.append(fail_hook)
        for sd in 'TF':
            for ov in ('N', 'o0'):
                s0 = State({'_part': 'p0', '_output': ov, '_is_shut_down': sd, '_block_input': 'F'})
                if ov != 'N':
                    continue      # slot invariant: not both full
                res = ctx.explore(an, [s0])
                for st in res.exits():
                    o.count()
                    o.witness(('fail', sd))
                    if 'logged' not in st.flags:
                        o.fail(P, 'PartProcessor._fail', "add_datapoint('device_failure', ...)", 'the device_failure record does not carry the lost part', file=c.mod.path,
                               line=P.method(c, '_fail')[1].lineno, path=res.path_lines(g.exit, st))
                    if 'cb-loop' not in st.flags:
                        o.fail(P, 'PartProcessor._fail', 'for c in self._shutdown_callbacks: c(self, is_failure, lost_part)',
                               f'the lost part does not reach the shutdown callbacks (machine {"already shut down" if sd == "T" else "up"} at the failure)',
                               file=c.mod.path, line=P.method(c, '_fail')[1].lineno, path=res.path_lines(g.exit, st))
                    if st.fields['_part'] != 'N':
                        o.fail(P, 'PartProcessor._fail', 'self._part = None', 'the part in process survives the failure', file=c.mod.path, line=P.method(c, '_fail')[1].lineno)
            for pv in ('N', 'p0'):
                s0 = State({'_part': 'N', '_output': 'o0', '_is_shut_down': sd, '_block_input': 'F'})
                res = ctx.explore(an, [s0])
                for st in res.exits():
                    o.count()
                    if st.fields['_output'] != 'o0':
                        o.fail(P, 'PartProcessor._fail', 'self._output', 'a failure touches the finished part in the output slot', file=c.mod.path,
                               line=P.method(c, '_fail')[1].lineno, path=res.path_lines(g.exit, st))
                    else:
                        o.witness(('output-kept', sd))
        o.sample({'entry': 'PartProcessor._fail', 'graph_nodes': len(g.nodes)})

    # ---- C02.7 source budget --------------------------------------------------------------
    o = Ob('C02.7', 'K2+K6', 'Source: hand-over only on the false edge of `remaining parts < 1`; produced counter +1 exactly on the '
                             'paths where the output left; budget adjustment clamped at the produced count')
    obs.append(o)
    dv.check_defaults(ctx, o, [('Source', '__init__', 'starting_parts')])
    if P.has_cls('Source'):
        source_budget(ctx, o)

    # ---- C02.8 who may write the slots ------------------------------------------------------
    o = Ob('C02.8', 'K1', 'the slot fields (_part, _output, _buffer, _in_progress_batch) are written only by methods of the '
                          'PartHandler hierarchy, on self')
    obs.append(o)
    PH = P.cls('PartHandler')
    for attr in ('_part', '_output', '_buffer', '_in_progress_batch'):
        sites = inv.attr_stores(P, attr)
        for s in sites:
            o.count()
            recv = ast.unparse(s.node.value)
            if s.cls is None or PH not in s.cls.mro or recv != 'self':
                o.fail(P, s.ctx, s.stmt, f'slot field {attr} written outside the PartHandler hierarchy or on another object', file=s.mod.path, line=s.line)
            else:
                o.witness((attr, s.ctx))
        o.sample({'field': attr, 'writers': sorted({s.ctx for s in sites})})
    # ---- C02.11 the batch under construction is never overwritten ------------------------------------------
    o = Ob('C02.11', 'K5', 'PartBatcher: the batch under construction is replaced only when there is none, and given up only by becoming the output '
                           '(a fresh batch stored over one that holds parts drops those parts silently)')
    obs.append(o)
    if P.has_cls('PartBatcher'):
        c = P.cls('PartBatcher')

        def ipb_hook(an_, n, before, after):
            a = n.ast
            st = after
            if n.kind == 'stmt' and isinstance(a, ast.Assign) and any(is_self_attr(t, '_in_progress_batch') for t in a.targets) and n.frame.func.name != '__init__':
                old = before.fields.get('_in_progress_batch', TOP)
                new = after.fields.get('_in_progress_batch', TOP)
                if new != 'N' and old != 'N':
                    st = st.with_flag('OVERWRITE')
                elif new == 'N' and old == 'b0' and before.fields.get('_output') != 'b0':
                    st = st.with_flag('GIVEN-UP')
                else:
                    st = st.with_flag('ok-store')
            return st
        dom = dv.base_domain(P, c)
        dom['_in_progress_batch'] = ['N', 'b0']
        dom['_block_input'] = ['F']
        n_st = 0
        for e, kind, g, s0, res in dv.explore_all(ctx, c, ['_part', '_output', '_is_shut_down', '_block_input', '_in_progress_batch'], dom, None, node_hooks=[ipb_hook]):
            for st in res.exits():
                o.count()
                if 'ok-store' in st.flags:
                    n_st += 1
                    o.witness((e, s0.fields['_in_progress_batch']))
                for fl, msg in (('OVERWRITE', 'a new batch is stored over the batch under construction: the parts collected so far are dropped without being reported'),
                                ('GIVEN-UP', 'the batch under construction is discarded without having become the output: its parts are dropped without being reported')):
                    if fl in st.flags:
                        ln = dv.last_node(res, g.exit, st, lambda n: n.kind == 'stmt' and isinstance(n.ast, ast.Assign) and any(is_self_attr(t, '_in_progress_batch') for t in n.ast.targets))
                        o.fail(P, f'PartBatcher.{e}', ln.ast if ln else '_in_progress_batch', msg + f' (entry {s0.show()})', node=ln, file=c.mod.path, path=res.path_lines(g.exit, st))
        o.require(n_st >= 1, 'no store into the batch under construction was reached')

    obs.append(ctx.shared('c03', 'C03.9', 'C02.10', 'conservation is shown per entry point under run-to-completion; that needs the handlers other devices call back into '
                          'during a hand-over to move no part (a synchronous hand-over from a notification re-enters the sender while its slot is still full: parts are duplicated or dropped)'))
    obs.append(ctx.shared('c05', 'C05.3', 'C02.13', 'the buffer stores parts in a list, outside the slot model of C02.4: a stored part is neither lost nor delivered twice only if '
                          'the item offered downstream is the head and the item removed after a True answer is that same head'))
    obs.append(ctx.shared('c17', 'C17.11', 'C02.14', 'a part inside a batch is in exactly one place only if the list of the batch is not extended through another name: a query that '
                          'binds the live list and appends what else the device holds puts those parts into the batch as well -- they then leave twice'))
    obs.append(dv.falsy_default_obligation(ctx, 'C02.12', ['Source', 'PartGenerator', 'Part', 'Batch'], 'the part budget of a source is the number it was given'))
    return obs


def construct_and_initialize(ctx, c, tracked, extra_hooks=(), call_models=None):
    """abstract states after `__init__` followed by `initialize` for concrete class c"""
    P = ctx.P
    cm = {'generate_part': 'S', 'PartGenerator': 'S'}
    cm.update(call_models or {})
    g1 = ctx.graph(c, '__init__')
    an1 = Analysis(P, g1, tracked, call_models=cm)
    for h in extra_hooks:
        an1.node_hooks.append(h)
    s0 = State({k: (TOP if not k.startswith('#') else 'F') for k in tracked})
    r1 = ctx.explore(an1, [s0])
    mids = r1.exits()
    if not mids:
        raise AnalysisError(f'{c.name}.__init__ has no normal exit in the abstract exploration')
    g2 = ctx.graph(c, 'initialize')
    an2 = Analysis(P, g2, tracked, call_models=cm)
    for h in extra_hooks:
        an2.node_hooks.append(h)
    outs = {}
    ifn = P.lookup(c, 'initialize')[2]
    env_param = [a.arg for a in ifn.args.args][1] if len(ifn.args.args) > 1 else None
    for m in mids:
        s = State(m.fields, (), m.flags)
        if env_param:
            s.locals[(g2.top.id, env_param)] = 'S'      # initialize(env) is called with the system's environment
        for st in ctx.explore(an2, [s]).exits():
            outs[st.key()] = st
    return list(outs.values())


def source_budget(ctx, o):
    P = ctx.P
    c = P.cls('Source')
    N = Normalizer(P, c)
    g = ctx.graph(c, '_pass_part_downstream')
    fn = P.method(c, '_pass_part_downstream')[1]
    hand = [n for n in g.nodes.values() if n.kind == 'cond' and foreign_deleg_call(g, n, n.ast)]
    o.count()
    if not hand:
        o.fail(P, 'Source._pass_part_downstream', 'dwn.give_part(self._output)', 'the source never offers its part downstream', file=c.mod.path, line=fn.lineno)
        return
    # guard: remaining < 1   (accessor inlined: max(0, max - produced) - 1 < 0), any equivalent spelling on integers
    def is_budget_guard(n, truth):
        r = cmp_norm(N, n.ast, single_defs(n.frame.func), truth)
        if not r:
            return False
        lin, op = r
        rem_atoms = [k for k in lin.terms if 'self._max_produced_parts' in k and 'self._produced_parts' in k]
        direct = lin.terms.get('self._max_produced_parts') == 1 and lin.terms.get('self._produced_parts') == -1 and len(lin.terms) == 2
        one_atom = len(lin.terms) == 1 and rem_atoms and lin.terms[rem_atoms[0]] == 1
        if not (direct or one_atom):
            return False
        return (op == '<' and lin.const == -1) or (op == '<=' and lin.const == 0)
    guards = [(n, t) for n in g.nodes.values() if n.kind == 'cond' for t in (True, False) if is_budget_guard(n, t)]
    o.count()
    ok = False
    for n, truth in guards:
        exhausted_lbl = 'T' if truth else 'F'
        go_lbl = 'F' if truth else 'T'
        r = g.reach([m for l, m in g.succ[n.id] if l == exhausted_lbl], follow=lambda l: l != 'exc')
        if any(h.id in r for h in hand):
            continue
        if any(h.id in g.reach_edges([g.entry], cut_edges={(n.id, go_lbl)}) for h in hand):
            continue
        ok = True
        o.witness('budget-guard')
        o.sample({'guard': n.src(), 'file': P.rel(n.file), 'line': n.line, 'normal_form': 'remaining_parts - 1 < 0 => no hand-over'})
    if not ok:
        o.fail(P, 'Source._pass_part_downstream', None, 'the hand-over is not protected by the budget test `remaining parts < 1`', node=hand[0],
               detail={'candidate_guards': [n.src() for n, _ in guards]})
    # counter pairing
    def node_hook(an, n, before, after):
        a = n.ast
        if n.kind == 'stmt' and isinstance(a, ast.AugAssign) and is_self_attr(a.target, '_produced_parts'):
            inc = isinstance(a.op, ast.Add) and isinstance(a.value, ast.Constant) and a.value.value == 1
            return after.with_flag(('counted2' if 'counted' in after.flags else 'counted') if inc else 'counted-wrong')
        if n.kind == 'stmt' and isinstance(a, ast.Assign) and any(is_self_attr(t, '_produced_parts') for t in a.targets):
            v = N.norm(a.value)
            inc = v.is_({'self._produced_parts': 1}, 1)
            return after.with_flag(('counted2' if 'counted' in after.flags else 'counted') if inc else 'counted-wrong')
        return after

    def edge_hook(an, n, label, st):
        if n.kind == 'cond' and label == 'T' and foreign_deleg_call(an.g, n, n.ast):
            return st.with_flag('handed2' if 'handed' in st.flags else 'handed')
        return st
    an = Analysis(P, g, ['_part', '_output', '_block_input', '_is_shut_down'], call_models={'generate_part': 'new'})
    an.node_hooks.append(node_hook)
    an.edge_hooks.append(edge_hook)
    for ov in ('N', 'o0'):
        s0 = State({'_part': 'N', '_output': ov, '_block_input': 'F', '_is_shut_down': 'F'})
        res = ctx.explore(an, [s0])
        for st in res.exits():
            o.count()
            h, k = 'handed' in st.flags, 'counted' in st.flags
            if 'counted2' in st.flags or 'handed2' in st.flags or 'counted-wrong' in st.flags or h != k:
                o.fail(P, 'Source._pass_part_downstream', 'self._produced_parts += 1',
                       f'the produced-parts counter is not increased by one exactly when the part left (handed over: {h}, counted: {k})',
                       file=c.mod.path, line=fn.lineno, path=res.path_lines(g.exit, st))
            elif h:
                o.witness('counted-on-handover')
    # clamp
    from ..norm import splice_self_statement_calls
    fn2 = splice_self_statement_calls(P, c, P.method(c, 'adjust_part_count')[1])
    o.count()
    stores = [s for s in ast.walk(fn2) if isinstance(s, ast.Assign) and any(is_self_attr(t, '_max_produced_parts') for t in s.targets)]
    val = [a.arg for a in fn2.args.args][1]
    good = False
    if len(stores) == 1:
        defs2 = single_defs(fn2)       # also resolves the explicit clamp `v = a; if v < b: v = b` to max(a, b)
        v = stores[0].value
        if isinstance(v, ast.Name) and v.id in defs2:
            v = defs2[v.id]
        if isinstance(v, ast.Call) and isinstance(v.func, ast.Name) and v.func.id == 'max' and len(v.args) == 2:
            forms = sorted(N.norm(a, defs2).key() for a in v.args)
            good = forms == sorted(['self._produced_parts', N.norm(ast.parse(f'self._max_produced_parts + {val}', mode='eval').body).key()])
    if not good:
        o.fail(P, 'Source.adjust_part_count', stores[0] if stores else 'self._max_produced_parts = max(...)',
               'the adjusted budget must be max(budget + value, parts already produced)', file=c.mod.path, line=fn2.lineno)
    else:
        o.witness('clamp')
    # writers of the budget and the counter
    for attr, owners in (('_max_produced_parts', {'__init__', 'adjust_part_count'}), ('_produced_parts', {'__init__', '_pass_part_downstream'})):
        for s in inv.attr_stores(P, attr):
            o.count()
            if s.cls is not c or s.func.name not in inv.covered(P, owners):
                o.fail(P, s.ctx, s.stmt, f'Source.{attr} is written outside {sorted(owners)}', file=s.mod.path, line=s.line)
    # produced_parts / remaining_parts report the counters
    o.count()
    rp = P.lookup_prop(c, 'remaining_parts', 'get')
    if not rp or N.norm(ast.Attribute(ast.Name('self', ast.Load()), 'remaining_parts', ast.Load())).key() != 'max(0, self._max_produced_parts - self._produced_parts)':
        o.fail(P, 'Source.remaining_parts', 'max(self._max_produced_parts - self._produced_parts, 0)', 'remaining_parts is not budget minus produced, floored at 0',
               file=c.mod.path, line=c.node.lineno)


CLAIM = {
    'technique': 'static analysis: path-sensitive typestate (token) exploration of inlined per-entry-point supergraphs for every '
                 'concrete device class; sibling agreement of give_part implementations; who-may-write inventories; normal forms',
    'level_text': 'The hand-over contract, acceptance precondition, token conservation and slot invariants are shown for all paths of all '
                  'computed entry points of all device classes over all abstract entry states (induction step and base case of conservation); '
                  'the run-level count identity is not executed.',
    'level_note': 'Run-to-completion of entry points; user callbacks do not move parts; list storage of Buffer handled by C05.',
}
