"""C17 -- batching keeps order and exact batch sizes."""
import ast
import itertools

from .. import AnalysisError
from ..report import Ob
from ..cfg import calls_at, call_attr, is_self_attr, recv_text
from ..state import Analysis, State, TOP
from ..norm import Normalizer, cmp_norm, cmp_polarity, FrameEnv
from .. import inventory as inv
from .. import devices as dv
from .c02 import foreign_deleg_call, construct_and_initialize

EXPLANATION = '''
Static analysis of PartBatcher (part_batcher.py) with a small container model -- the input is a single part or a batch whose
length is abstracted to 0/1/many, the batch under construction exists or not -- plus Batch (batch.py) and the part counters.
Decided: (C17.1) input batches are unpacked from the front (parts.pop(0)) and output batches are built at the back
(parts.append); (C17.2) a ghost follows the batch under construction: every parts.append on it must be followed by the test
equivalent to output_batch_size - len(batch.parts) <= 0 (normal form, either polarity, receivers classified by the value they
hold rather than by spelling), the true edge must make that batch the output and empty the construction slot, the false edge
must keep it; no other path may emit or drop it; in single mode the part itself becomes the output;
(C17.3) pop(0) is never reached on an empty input batch; an input batch is discarded only when it is empty; (C17.4) the
batcher invariant "something left to unpack => an output is waiting" is inductive over all entry points, i.e. unpacking
continues after the output left and new input is accepted only when nothing is left to unpack and nothing waits;
(C17.5) the batcher does not weaken the acceptance test (C02.3); (C17.6) buffer and sink count every part of a batch
(C05.6); (C17.7) Batch forwards routing-history additions/removals and initialisation to all contained parts and to itself;
(C17.8) every part taken from the input is placed in the output or in the batch under construction before the next one is
taken (no unpacked part dropped or duplicated).
NOT decided: sequence equality over a stream of parts (the order argument is the front/back discipline plus C17.8).
'''
ASSUMPTIONS = ['user code does not mutate a batch while the batcher holds it']
MIN_INSTANCES = 150

TR = ['_part', '_output', '_is_shut_down', '_block_input', '_in_progress_batch', '_output_batch_size', '#pk', '#bl', '#hand', '#fl']
LEN = {'0': [0], '1': [1], 'M': [2, 3]}


IN_PARTS, OUT_PARTS = 'self._part.parts', 'self._in_progress_batch.parts'
FULL_TERMS = {'len(self._in_progress_batch.parts)': -1, 'self._output_batch_size': 1}       # size - len <= 0


def batcher_hooks(P, N, sites=None):
    """hooks of the container model.  Receivers are classified by VALUE, not by spelling: a local that holds the input object
    (token p0 / arg) is read as `self._part`, one that holds the batch under construction (token B) as `self._in_progress_batch`."""
    import operator
    OPS = {'<': operator.lt, '<=': operator.le, '==': operator.eq, '!=': operator.ne}
    sites = {} if sites is None else sites

    def canon(an, e, st, frame):
        class T(ast.NodeTransformer):
            def visit_Name(self, x):
                v = st.locals.get((frame.id, x.id))
                if v == 'B':
                    return ast.copy_location(ast.parse('self._in_progress_batch', mode='eval').body, x)
                if v in ('p0', 'arg') and (st.fields.get('_part') == v or (v == 'arg' and not dv.full(st.fields.get('_part')))):
                    return ast.copy_location(ast.parse('self._part', mode='eval').body, x)
                return x
        if not any(isinstance(x, ast.Name) and st.locals.get((frame.id, x.id)) in ('B', 'p0', 'arg') for x in ast.walk(e)):
            return e
        import copy
        return ast.fix_missing_locations(T().visit(copy.deepcopy(e)))

    def refine(an, test, truth, st, frame):
        t = canon(an, test, st, frame)
        if isinstance(t, ast.Call) and ast.unparse(t.func) == 'isinstance' and len(t.args) == 2 and is_self_attr(t.args[0], '_part') and ast.unparse(t.args[1]) == 'Batch':
            cur = st.fields['#pk']
            want = 'batch' if truth else 'single'
            if cur in ('batch', 'single') and cur != want:
                return None
            return st.with_field('#pk', want) if cur != want else st
        if isinstance(t, ast.Compare) and len(t.ops) == 1 and 'parts' in ast.unparse(t):
            r = cmp_norm(N, t, FrameEnv(frame), truth)
            if r is not None and set(r[0].terms) == {f'len({IN_PARTS})'}:
                b = st.fields['#bl']
                k = r[0].terms[f'len({IN_PARTS})']
                if b in LEN:
                    poss = [v for v in LEN[b] if OPS[r[1]](k * v + r[0].const, 0)]
                    return st if poss else None
            pol = cmp_polarity(N, t, FrameEnv(frame), FULL_TERMS, '<=') or cmp_polarity(N, t, FrameEnv(frame), FULL_TERMS, '==')
            if pol:
                full = (pol == 1) == truth
                cur = st.fields['#fl']
                if cur == '?':
                    return st.with_field('#fl', 'T' if full else 'F')
                if cur == '-':
                    # nothing appended since the batch last rested: at rest it holds fewer than n parts (C17.4 invariant)
                    return None if full else st
                return st if (cur == 'T') == full else None
            if OUT_PARTS in ast.unparse(t) or IN_PARTS in ast.unparse(t):
                return st.with_flag('UNKNOWN-LENGTH-TEST')
        return NotImplemented

    def expr(an, e, st, frame):
        if isinstance(e, ast.Call) and call_attr(e) in ('pop', 'popleft') and isinstance(e.func, ast.Attribute) and ast.unparse(canon(an, e.func.value, st, frame)) == IN_PARTS:
            return 'u'
        return NotImplemented

    def settle(st):
        if st.fields['#fl'] == 'T' and st.fields['_output'] == 'B' and st.fields['_in_progress_batch'] == 'N':
            return st.with_field('#fl', '-').with_flag('closed-when-full')
        return st

    def node(an, n, before, after):
        st = after
        outs = None
        a = n.ast
        if n.kind not in ('stmt', 'return'):
            return st
        for cl in calls_at(an.g, n):
            if not (isinstance(cl.func, ast.Attribute) and isinstance(cl.func.value, ast.Attribute) and cl.func.value.attr == 'parts'):
                continue
            rv = ast.unparse(canon(an, cl.func.value, before, n.frame))
            nm = call_attr(cl)
            key = (cl.lineno, cl.col_offset)
            front = (nm == 'pop' and len(cl.args) == 1 and isinstance(cl.args[0], ast.Constant) and cl.args[0].value == 0) or (nm == 'popleft' and not cl.args)
            okc = (rv == IN_PARTS and front) or (rv == OUT_PARTS and nm == 'append' and len(cl.args) == 1)
            sites.setdefault(key, set()).add(bool(okc))
            if nm in ('pop', 'popleft', 'remove') and rv == IN_PARTS:
                b = st.fields['#bl']
                if st.fields['#hand'] == 'u':
                    st = st.with_flag('DROPPED')
                st = st.with_field('#hand', 'u')
                if b == '0' or st.fields['#pk'] != 'batch':
                    st = st.with_flag('POP-FROM-EMPTY')
                elif b == '1':
                    st = st.with_field('#bl', '0')
                else:
                    outs = [st.with_field('#bl', '1'), st.with_field('#bl', 'M')]
            if nm in ('append', 'insert', 'appendleft', 'extend') and rv == OUT_PARTS:
                v = an.ev(cl.args[-1], before, n.frame) if cl.args else TOP
                def place(s_):
                    if s_.fields['#fl'] in ('?', 'T'):
                        s_ = s_.with_flag('APPEND-UNTESTED')
                    s_ = s_.with_field('#fl', '?')
                    if v == 'u':
                        if s_.fields['#hand'] != 'u':
                            return s_.with_flag('DUPLICATED')
                        return s_.with_field('#hand', 'N')
                    if v in ('p0', 'arg'):
                        return s_.with_flag('batched:' + v)
                    return s_.with_flag('PLACED-UNKNOWN')
                outs = [place(s_) for s_ in (outs or [st])]
                st = outs[0]
        if n.kind == 'stmt' and isinstance(a, ast.Assign) and any(is_self_attr(t, '_output') for t in a.targets):
            v = an.ev(a.value, before, n.frame)
            if v == 'u':
                if st.fields['#hand'] != 'u':
                    st = st.with_flag('DUPLICATED')
                st = st.with_field('#hand', 'N')
                outs = [st] if outs is None else outs
            if v == 'B' and before.fields['#fl'] != 'T':
                st = st.with_flag('CLOSED-NOT-FULL')
                outs = None
        if n.kind == 'stmt' and isinstance(a, ast.Assign) and any(is_self_attr(t, '_in_progress_batch') for t in a.targets) \
                and before.fields['_in_progress_batch'] == 'B' and after.fields['_in_progress_batch'] != 'B' and before.fields['#fl'] != 'T':
            st = st.with_flag('CONSTRUCTION-DISCARDED')
        if n.kind == 'stmt' and isinstance(a, ast.Assign) and any(is_self_attr(t, '_part') for t in a.targets) \
                and isinstance(a.value, ast.Constant) and a.value.value is None and before.fields['_part'] not in ('N', TOP):
            if before.fields['#pk'] == 'batch' and before.fields['#bl'] != '0':
                st = st.with_flag('BATCH-DISCARDED-NONEMPTY')
            if before.fields['#pk'] == 'batch':
                st = st.with_flag('container-dropped:' + before.fields['_part'])
            outs = None
        if outs and len(outs) > 1:
            return [settle(s_) for s_ in outs]
        return settle(st)
    return refine, expr, node


LIST_MUTATORS = {'append', 'insert', 'extend', 'remove', 'pop', 'clear', 'sort', 'reverse', 'popleft', 'appendleft', 'extendleft', 'rotate'}
MUTATING_CALLEES = {'random.shuffle', 'shuffle', 'bisect.insort', 'bisect.insort_left', 'bisect.insort_right', 'insort', 'heapq.heappush', 'heapq.heappop',
                    'heapq.heapify', 'heappush', 'heappop', 'heapify'}


def parts_aliasing(ctx):
    """C17.11: who can change the list of parts of a batch, and through which name"""
    P = ctx.P
    o = Ob('C17.11', 'K1+K7', "a batch's list of parts is changed only by the batcher's own unpack/pack statements (`<slot>.parts.pop(0)` / `.parts.append(x)`) and by Batch "
                              'itself: no helper, query or statistic hands the list itself out under another name and then extends, shortens or re-orders it in place '
                              '(`held = f(batch); held += more` appends to the batch: the same part is then held twice and leaves twice)')
    owners = {c.name for c in (P.cls('Batch'), P.cls('PartBatcher')) if c is not None}
    for nm in ('PartGenerator',):
        if P.has_cls(nm):
            owners.add(nm)
    funcs = [(m, c, f) for m, c, f in inv.functions(P)]
    par_of = {id(m): m.parents for m in P.mods.values()}
    raw_funcs, raw_props = set(), set()          # names of functions / properties that can return the list itself

    def is_prop(c, f):
        return c is not None and any(ast.unparse(d) in ('property', 'functools.cached_property', 'cached_property') for d in f.decorator_list)

    def classify(m, c, f, e, direct, seen):
        """e evaluates to (possibly) the list itself; yields ('mutate', node, how, direct) / ('return', node) for what happens to it"""
        par = par_of[id(m)]
        p = par.get(e)
        while isinstance(p, (ast.IfExp, ast.BoolOp)) and (not isinstance(p, ast.IfExp) or e is not p.test):
            e, p = p, par.get(p)
        if isinstance(p, ast.Return):
            yield ('return', p)
        elif isinstance(p, ast.Attribute) and p.value is e:
            pp = par.get(p)
            if isinstance(pp, ast.Call) and pp.func is p and p.attr in LIST_MUTATORS:
                yield ('mutate', pp, f'.{p.attr}()', direct)
        elif isinstance(p, ast.Subscript) and p.value is e and isinstance(p.ctx, (ast.Store, ast.Del)):
            yield ('mutate', p, 'item assignment / deletion', direct)
        elif isinstance(p, ast.AugAssign) and p.target is e:
            yield ('mutate', p, 'augmented assignment', direct)
        elif isinstance(p, ast.Call) and e in p.args and ast.unparse(p.func) in MUTATING_CALLEES:
            yield ('mutate', p, f'{ast.unparse(p.func)}()', direct)
        elif isinstance(p, ast.Assign) and p.value is e and len(p.targets) == 1 and isinstance(p.targets[0], ast.Name) and f is not None:
            v = p.targets[0].id
            if (id(f), v) in seen:
                return
            seen.add((id(f), v))
            # every later use of the name is a use of the list (flow-insensitive: a name that is also bound to something else is still reported --
            # `held = part.parts` is not a spelling this package needs)
            for u in ast.walk(f):
                if isinstance(u, ast.Name) and u.id == v and u is not p.targets[0]:
                    if isinstance(u.ctx, ast.Load):
                        yield from classify(m, c, f, u, False, seen)
                    elif isinstance(par.get(u), ast.AugAssign) and par.get(u).target is u:
                        yield ('mutate', par.get(u), f'`{v} {ast.unparse(par.get(u))[len(v) + 1:].split("=")[0]}= ...` on a name bound to the list', False)

    def sources(m, f):
        """expressions in f that evaluate to the list itself"""
        for x in ast.walk(f):
            if isinstance(x, ast.Attribute) and x.attr == 'parts' and isinstance(x.ctx, ast.Load):
                yield x, True
            elif isinstance(x, ast.Attribute) and x.attr in raw_props and isinstance(x.ctx, ast.Load):
                yield x, False
            elif isinstance(x, ast.Call) and ((isinstance(x.func, ast.Attribute) and x.func.attr in raw_funcs) or (isinstance(x.func, ast.Name) and x.func.id in raw_funcs)):
                yield x, False
    changed = True
    rounds = 0
    while changed and rounds < 6:
        changed = False
        rounds += 1
        for m, c, f in funcs:
            if c is not None and c.name == 'Batch' and f.name == 'parts':
                continue                 # a property that stands for the field itself (canonical private field)
            for e, direct in list(sources(m, f)):
                for ev in classify(m, c, f, e, direct, set()):
                    if ev[0] == 'return':
                        tgt = raw_props if is_prop(c, f) else raw_funcs
                        if f.name not in tgt and f.name != 'parts':
                            tgt.add(f.name)
                            changed = True
    n_mut = 0
    for m, c, f in funcs:
        for e, direct in list(sources(m, f)):
            for ev in classify(m, c, f, e, direct, set()):
                if ev[0] != 'mutate':
                    continue
                o.count()
                n_mut += 1
                _, node, how, is_direct = ev
                where = f'{c.name}.{f.name}' if c is not None else f.name
                if is_direct and c is not None and c.name in owners:
                    o.witness(('owner', c.name, how))
                    continue
                st = inv._enclosing_stmt(m, node)
                if is_direct:
                    o.fail(P, where, st, f"a batch's list of parts is changed ({how}) outside Batch and the batcher: a part can be dropped from or added to a batch that some "
                           'device holds', file=m.path, line=getattr(node, 'lineno', None))
                else:
                    o.fail(P, where, st, f"the list of parts of a batch is changed in place through another name ({how}): the value came from `.parts` itself "
                           f"({', '.join(sorted(raw_funcs | raw_props)) or 'a local alias'} hand the list out, not a copy), so the batch held by a device grows, shrinks or is "
                           're-ordered by what looks like a query', file=m.path, line=getattr(node, 'lineno', None))
    o.stats = {'functions_returning_the_list_itself': sorted(raw_funcs), 'properties_returning_the_list_itself': sorted(raw_props), 'mutation_sites': n_mut}
    o.require(n_mut >= 2, 'the unpack (`parts.pop`) and pack (`parts.append`) statements of the batcher were not found')
    return o


def check(ctx):
    P = ctx.P
    if not P.has_cls('PartBatcher'):
        raise AnalysisError('class PartBatcher not found')
    c = P.cls('PartBatcher')
    N = Normalizer(P, c)
    obs = []

    # ---- C17.3 / C17.4 / C17.8 on one exploration -------------------------------------------------------
    o2 = Ob('C17.2', 'K6+K5', 'the batch under construction becomes the output exactly on the true edge of len(batch.parts) - n >= 0, and the construction slot is emptied; '
                              'in single mode the part itself becomes the output; a batch is never appended to without the test that follows')
    obs.append(o2)
    sites = {}
    o3 = Ob('C17.3', 'K5', 'pop(0) is never reached on an empty input batch; an input batch is discarded only when empty')
    o4 = Ob('C17.4', 'K5', 'batcher invariant, inductive over all entry points: something left to unpack => an output is waiting; a held batch is never empty at rest')
    o8 = Ob('C17.8', 'K2', 'every part taken from the input is placed in the output or the batch under construction before the next is taken; the single input part is conserved')
    refine, expr, node = batcher_hooks(P, N, sites)

    def inv_(f):
        p, o_ = f['_part'], f['_output']
        if dv.full(p) and not dv.full(o_):
            return False
        if dv.full(p) and f['#pk'] == 'batch' and f['#bl'] == '0':
            return False
        if not dv.full(p) and (f['#pk'], f['#bl']) != ('-', '-'):
            return False
        if dv.full(p) and f['#pk'] == 'single' and f['#bl'] != '-':
            return False
        if dv.full(p) and f['#pk'] == 'batch' and f['#bl'] == '-':
            return False
        if dv.full(p) and f['#pk'] == '-':
            return False
        if f['_in_progress_batch'] == 'B' and f['_output_batch_size'] == 'N':
            return False
        return f['#hand'] == 'N' and f['#fl'] == '-'
    dom = {'_part': ['N', 'p0'], '_output': ['N', 'o0'], '_is_shut_down': ['F'], '_block_input': ['F'], '_in_progress_batch': ['N', 'B'],
           '_output_batch_size': ['N', 'S'], '#pk': ['-', 'single', 'batch'], '#bl': ['-', '0', '1', 'M'], '#hand': ['N'], '#fl': ['-']}
    ents = dv.entries_of(P, c)
    for e in sorted(ents):
        g = ctx.graph(c, e)
        an = Analysis(P, g, TR, call_models={'Batch': 'B'})
        an.refine_hooks.append(refine)
        an.expr_hooks.append(expr)
        an.node_hooks.append(node)
        fn = dv.entry_fn(P, c, e)
        has_part = 'part' in [a.arg for a in fn.args.args]
        for f0 in dv.product_states(dom, inv_):
            variants = [dict(f0)]
            if has_part and not dv.full(f0['_part']):
                # the offered part: a single part, or a batch of length 0 / 1 / many
                variants = [dict(f0, **{'#pk': k, '#bl': l}) for k, l in (('single', '-'), ('batch', '0'), ('batch', '1'), ('batch', 'M'))]
            for fv in variants:
                s0 = State(fv)
                if has_part:
                    s0.locals[(g.top.id, 'part')] = 'arg'
                res = ctx.explore(an, [s0])
                for st in res.exits():
                    o2.count(); o3.count(); o4.count(); o8.count()
                    f = dict(st.fields)
                    if not dv.full(f['_part']):
                        f['#pk'], f['#bl'] = '-', '-'
                    bad2 = [fl for fl in ('CLOSED-NOT-FULL', 'CONSTRUCTION-DISCARDED', 'APPEND-UNTESTED', 'UNKNOWN-LENGTH-TEST') if fl in st.flags]
                    if f['#fl'] == 'T':
                        bad2.append('FULL-NOT-CLOSED')
                    if f['#fl'] == '?':
                        bad2.append('APPEND-UNTESTED')
                    if bad2:
                        why = {'CLOSED-NOT-FULL': 'a batch can be emitted before it holds output_batch_size parts',
                               'CONSTRUCTION-DISCARDED': 'the batch under construction is dropped from its slot before it is full',
                               'APPEND-UNTESTED': 'a part is added to the batch under construction and its size is not compared with output_batch_size afterwards (the batch can grow beyond n)',
                               'UNKNOWN-LENGTH-TEST': 'a batch length is tested in a form that is not len(batch.parts) >= output_batch_size',
                               'FULL-NOT-CLOSED': 'the batch under construction is full and does not become the output with the construction slot emptied'}
                        ln = dv.last_node(res, g.exit, st, lambda n: n.kind in ('stmt', 'cond') and ('_in_progress_batch' in n.src() or '.parts' in n.src() or '_output' in n.src()))
                        o2.fail(P, f'PartBatcher.{e}', ln.ast if ln else e, '; '.join(why[b_] for b_ in sorted(set(bad2))) + f': entry {s0.show()} -> exit {st.show()}',
                                node=ln, file=c.mod.path, path=res.path_lines(g.exit, st))
                    if 'closed-when-full' in st.flags:
                        o2.witness('full')
                    if f['#fl'] == 'F':
                        o2.witness('not-full')
                        f['#fl'] = '-'
                    if fv['_output_batch_size'] == 'N' and fv['_output'] == 'N' and st.fields['_output'] in ('u', 'p0', 'arg'):
                        o2.witness('single-mode')
                    if 'POP-FROM-EMPTY' in st.flags or 'BATCH-DISCARDED-NONEMPTY' in st.flags:
                        ln = dv.last_node(res, g.exit, st, lambda n: n.kind == 'stmt' and ('.pop(' in n.src() or 'self._part = None' in n.src()))
                        o3.fail(P, f'PartBatcher.{e}', ln.ast if ln else e, 'a part is taken from an input batch that may be empty' if 'POP-FROM-EMPTY' in st.flags
                                else 'an input batch that still contains parts is discarded', node=ln, file=c.mod.path, path=res.path_lines(g.exit, st))
                    if any(fl.startswith('container-dropped') for fl in st.flags):
                        o3.witness((e, 'batch-consumed'))
                    if 'DROPPED' in st.flags or 'DUPLICATED' in st.flags or 'PLACED-UNKNOWN' in st.flags or f['#hand'] != 'N':
                        ln = dv.last_node(res, g.exit, st, lambda n: n.kind == 'stmt' and ('.pop(' in n.src() or '.append(' in n.src() or '_output =' in n.src()))
                        o8.fail(P, f'PartBatcher.{e}', ln.ast if ln else e, 'a part taken from the input is ' + ('placed twice' if 'DUPLICATED' in st.flags else 'dropped: it reaches neither the output nor the batch under construction'),
                                node=ln, file=c.mod.path, path=res.path_lines(g.exit, st))
                    # conservation of a single input part / of the offered single part
                    for tok in ('p0', 'arg'):
                        src_kind = fv['#pk'] if (tok == 'p0' and dv.full(fv['_part'])) or (tok == 'arg' and has_part) else None
                        if tok == 'p0' and not dv.full(fv['_part']):
                            continue
                        if tok == 'arg' and not has_part:
                            continue
                        places = [k for k in ('_part', '_output') if st.fields[k] == tok] + [fl for fl in st.flags if fl.endswith(':' + tok)]
                        if src_kind == 'single':
                            okp = len(places) == 1 or (tok == 'arg' and len(places) == 0 and e == 'give_part')
                            if tok == 'arg' and len(places) == 0 and e == 'give_part':
                                okp = True      # refused: still the caller's
                            if len(places) == 1 and places[0] != '_part':
                                o8.witness((e, tok, places[0].split(':')[0]))
                            if not okp:
                                o8.fail(P, f'PartBatcher.{e}', e, f'the single input part is in {places or "no place"} after the operation', file=c.mod.path, line=fn.lineno,
                                        path=res.path_lines(g.exit, st))
                        if src_kind == 'batch':
                            fwd = [pl for pl in places if pl == '_output' or pl.startswith('batched:')]
                            if fwd:
                                o8.fail(P, f'PartBatcher.{e}', e, f'an input batch (length class {fv["#bl"]}) is itself forwarded as if it were a part (it ends up in {fwd}): '
                                        'the output would contain a batch where a part is expected and the part count would be wrong', file=c.mod.path, line=fn.lineno,
                                        path=res.path_lines(g.exit, st))
                            else:
                                o8.witness((e, tok, 'batch-not-forwarded'))
                    if not inv_(f):
                        ln = dv.last_node(res, g.exit, st, lambda n: n.kind in ('stmt', 'cond', 'return') and n.ast is not None)
                        what = ('parts are left to unpack but no output is waiting and nothing will resume the unpacking' if dv.full(f['_part']) and not dv.full(f['_output'])
                                else 'an empty input batch stays in the input slot' if f['#bl'] == '0' else 'inconsistent batcher state')
                        o4.fail(P, f'PartBatcher.{e}', ln.ast if ln else e, f'{what}: entry {s0.show()} -> exit {st.show()}', node=ln, file=c.mod.path, path=res.path_lines(g.exit, st))
                    elif dv.full(f['_part']):
                        o4.witness((e, 'left-to-unpack'))
    for st in construct_and_initialize(ctx, c, ['_part', '_output', '_in_progress_batch']):
        o4.count()
        if st.fields['_part'] != 'N' or st.fields['_output'] != 'N' or st.fields['_in_progress_batch'] != 'N':
            o4.fail(P, 'PartBatcher.initialize', 'initialize', f'a fresh batcher is not empty: {st.show()}', file=c.mod.path, line=c.node.lineno)
    o3.sample({'container_model': '#pk in {single, batch}, #bl in {0, 1, many}; pop(0): 1->0, many->{1, many}'})
    o4.sample({'invariant': '_part full => _output full; held batch non-empty; nothing in hand at rest'})
    o8.sample({'ghost': '#hand: set by parts.pop(0), cleared by _output = part / parts.append(part)'})
    obs += [o3, o4]
    # ---- C17.2 -------------------------------------------------------------------------------------
    init = P.method(c, '__init__')[1]
    o2.count()
    def _positive_size(test):
        # some operand of the asserted formula says  size > 0  (any spelling: 0 < size, size >= 1, not size <= 0)
        from ..norm import cmp_norm as _cn
        Nb = Normalizer(P, c)
        for x in ast.walk(test):
            if isinstance(x, ast.Compare) and len(x.ops) == 1:
                for truth in (True, False):
                    r = _cn(Nb, x, {}, truth)
                    if r is None:
                        continue
                    lin, op = r
                    # size > 0  <=>  -size < 0 ;  size >= 1  <=>  1 - size <= 0
                    if (op == '<' and lin.is_({'output_batch_size': -1})) or (op == '<=' and lin.is_({'output_batch_size': -1}, 1)):
                        negated_somewhere = truth is False
                        return not negated_somewhere or any(isinstance(u, ast.UnaryOp) and isinstance(u.op, ast.Not) for u in ast.walk(test))
        return False
    if not any(isinstance(x, ast.Assert) and _positive_size(x.test) for x in ast.walk(init)):
        o2.fail(P, 'PartBatcher.__init__', 'assert output_batch_size == None or output_batch_size > 0', 'a non-positive batch size is not rejected', file=c.mod.path, line=init.lineno)
    for s in inv.attr_stores(P, '_output_batch_size'):
        o2.count()
        if not (s.cls is c and s.func.name == '__init__'):
            o2.fail(P, s.ctx, s.stmt, 'the output batch size changes after construction', file=s.mod.path, line=s.line)
    o2.require({'full', 'not-full', 'single-mode'} <= set(o2.nontrivial), f'the closing of a full batch, the keeping of an incomplete one and single mode were not all explored: {sorted(map(str, o2.nontrivial))}')
    o2.sample({'ghost': '#fl: "?" after parts.append on the batch under construction, T/F on the edges of the test equivalent to  output_batch_size - len(batch.parts) <= 0, '
                        '"-" once the full batch is the output and the construction slot is empty'})

    # ---- C17.1 -----------------------------------------------------------------------------------
    o = Ob('C17.1', 'K7', 'input batches are unpacked from the front (parts.pop(0)); output batches are built at the back (parts.append)')
    obs.insert(0, o)
    for m_, c_, f in inv.functions(P):
        if c_ is not c:
            continue
        for x in ast.walk(f):
            if isinstance(x, ast.Call) and isinstance(x.func, ast.Attribute) and isinstance(x.func.value, ast.Attribute) and x.func.value.attr == 'parts':
                o.count()
                owner = ast.unparse(x.func.value.value)
                nm = x.func.attr
                okc = (owner == 'self._part' and nm == 'pop' and len(x.args) == 1 and isinstance(x.args[0], ast.Constant) and x.args[0].value == 0) or \
                      (owner == 'self._part' and nm == 'popleft' and not x.args) or (owner == 'self._in_progress_batch' and nm == 'append' and len(x.args) == 1)
                # receivers spelled through locals are classified by the value they hold on every explored path through the site
                seen = sites.get((x.lineno, x.col_offset))
                if okc or (seen and seen == {True}):
                    o.witness((f.name, nm))
                else:
                    o.fail(P, f'PartBatcher.{f.name}', x, 'the order of parts is not preserved: input batches must be unpacked with parts.pop(0) and output batches built with parts.append(part)'
                           + ('' if seen else ' (the receiver is neither the input nor the batch under construction on any explored path)'),
                           file=c.mod.path, line=x.lineno)
    o.require(len(o.nontrivial) >= 2, 'the unpack (pop(0)) and build (append) sites of PartBatcher were not both found')


    # ---- C17.5 / C17.6 ---------------------------------------------------------------------------------------
    o = Ob('C17.5', 'K9', 'the batcher accepts only through the unweakened base acceptance test (both slots empty, not blocked)')
    obs.append(o)
    g = ctx.graph(c, '_can_accept_part', boolean=True)
    an = Analysis(P, g, ['_part', '_output', '_is_shut_down', '_block_input'])
    for f0 in dv.product_states(dv.base_domain(P, c)):
        s0 = State(f0)
        s0.locals[(g.top.id, 'part')] = 'S'
        res = ctx.explore(an, [s0])
        for st in res.at(g.exitT):
            o.count()
            o.witness('true-exit')
            if not (st.fields['_part'] == 'N' and st.fields['_output'] == 'N' and st.fields['_block_input'] == 'F'):
                o.fail(P, 'PartBatcher._can_accept_part', '_can_accept_part', f'the batcher accepts input in state {st.show()}', file=c.mod.path, line=c.node.lineno,
                       path=res.path_lines(g.exitT, st))
        for st in res.at(g.exitF):
            o.count()
    o6 = Ob('C17.6', 'K9', 'buffers and sinks count every part of a batch (C05.6)')
    obs.append(o6)
    from .c05 import part_counting
    part_counting(ctx, o6)

    # ---- C17.7 -----------------------------------------------------------------------------------------------------
    o = Ob('C17.7', 'K3', 'Batch forwards add_routing_history / remove_from_routing_history / initialize to itself (super) and to every contained part with the same argument')
    obs.append(o)
    if P.has_cls('Batch'):
        b = P.cls('Batch')
        for meth in ('add_routing_history', 'remove_from_routing_history', 'initialize'):
            o.count()
            if meth not in b.methods:
                o.fail(P, f'Batch.{meth}', meth, f'Batch does not override {meth}: the parts it contains are not updated', file=b.mod.path, line=b.node.lineno)
                continue
            fn = b.methods[meth]
            arg = fn.args.args[1].arg
            sup = [x for x in ast.walk(fn) if isinstance(x, ast.Call) and ast.unparse(x.func) == f'super().{meth}' and [ast.unparse(a) for a in x.args] == [arg]]
            loops = [l for l in ast.walk(fn) if isinstance(l, ast.For) and ast.unparse(l.iter) == 'self.parts' and isinstance(l.target, ast.Name)
                     and len(l.body) == 1 and ast.unparse(l.body[0]) == f'{l.target.id}.{meth}({arg})']
            if len(sup) != 1 or len(loops) != 1:
                o.fail(P, f'Batch.{meth}', f'super().{meth}({arg}); for p in self.parts: p.{meth}({arg})', f'{meth} is not applied once to the batch itself and once to every contained part',
                       file=b.mod.path, line=fn.lineno)
            else:
                o.witness(meth)
        # every other method through which a part's history is edited must be overridden by Batch as well (a helper that edits
        # the list itself and that Batch inherits updates the batch object only), and no other class may edit the list directly
        from ..inventory import attr_uses, method_calls
        MUT = {'append', 'pop', 'insert', 'remove', 'extend', 'clear', 'reverse', 'sort'}
        base_classes = [k for k in b.mro if k is not b]
        def forwarded(cls, name, seen):
            # a Batch reaches this method of a base class only through code that also updates the contained parts: Batch overrides
            # it, or every call of it is `self.<name>(...)` inside base-class methods for which the same holds
            if any(name in k.methods for k in b.mro[:b.mro.index(cls)]):
                return True
            if (cls, name) in seen:
                return True
            for call in method_calls(P, name):
                if call.extra['recv'] == 'super()' and call.cls is b:
                    continue
                if call.extra['recv'] != 'self' or call.cls not in base_classes or call.func is None:
                    return False
                if not forwarded(call.cls, call.func.name, seen + ((cls, name),)):
                    return False
            return True

        for site in attr_uses(P, '_routing_history'):
            role = site.extra['role']
            if not (role[0] in ('store', 'del', 'augstore', 'subscript-store', 'subscript-del') or (role[0] == 'method' and role[1] in MUT)):
                continue
            if site.func is None or site.func.name == '__init__':
                continue
            recv = ast.unparse(site.node.value)
            o.count()
            if site.cls in base_classes and recv == 'self':
                if forwarded(site.cls, site.func.name, ()):
                    o.witness(('override', site.func.name))
                else:
                    o.fail(P, f'{site.cls.name}.{site.func.name}', site.stmt, f'{site.cls.name}.{site.func.name} edits the routing history of the object itself and Batch does not '
                           f'override it: for a batch the parts it contains are not updated', file=site.mod.path, line=site.line)
            elif site.cls is b and recv == 'self':
                o.witness(('batch', site.func.name))
            elif not (site.cls in base_classes or site.cls is b):
                o.fail(P, site.ctx, site.stmt, 'the routing history list is edited from outside Part/Batch: for a batch the parts it contains are not updated',
                       file=site.mod.path, line=site.line)
        init = P.method(b, '__init__')[1]
        o.count()
        if not any(isinstance(x, ast.Assign) and ast.unparse(x.targets[0]) == 'self.parts' for x in ast.walk(init)):
            o.fail(P, 'Batch.__init__', 'self.parts = parts', 'a batch does not keep the given parts', file=b.mod.path, line=init.lineno)
    obs.append(o8)
    obs.append(parts_aliasing(ctx))
    obs.append(ctx.shared('c05', 'C05.2', 'C17.9', 'a batcher downstream of a buffer unpacks an accepted batch in place, so the buffer must size a stored batch before handing it over '
                          '(counted afterwards, the level drifts upwards and the buffer ends up refusing every batch)'))
    obs.append(ctx.shared('c08', 'C08.2', 'C17.10', 'a batch forwards history edits to its parts, whose histories are longer than its own: a refused hand-over may only take back '
                          'the last entry (index -1), any remembered position removes the wrong entry of the contained parts'))
    return obs


CLAIM = {
    'technique': 'static analysis: typestate exploration of all PartBatcher entry points with a container model (single/batch, length 0/1/many, '
                 'part-in-hand ghost), normal form of the closing guard, container-discipline inventory, AST checks of Batch forwarding',
    'level_text': 'Front/back discipline, closing exactly at n, no pop from an empty batch, no unpacked part dropped and resumption of unpacking are '
                  'decided on every path of every entry point; sequence equality over a stream is not executed.',
    'level_note': 'Batches are not mutated by user code while held.',
}
