"""C08 -- routing fidelity: parts follow the configured routes and their history says so."""
import ast

from .. import AnalysisError
from ..report import Ob
from ..cfg import calls_at, call_attr, is_self_attr, recv_text
from ..state import Analysis, State, TOP
from ..norm import Normalizer, FrameEnv, subst
from .. import inventory as inv
from .. import devices as dv
from .c02 import give_contract, foreign_deleg_call, construct_and_initialize

EXPLANATION = '''
Static analysis of the routing mechanisms (part_flow_controller.py, decision_gate.py, group.py, part.py, batch.py, sink.py,
part_handler.py).  Decided: (C08.1) for every give_part implementation the net change of the part's routing history and of
its group-path stack is 0 on a refusal and, on success, +1 history entry for recording devices (0 for the group's input and
output pseudo-devices) and +1 / -1 stack entry for GroupPath / GroupOutput, always recording the device itself; (C08.2) the
group-path list is used as a stack and a part leaves a group through the path on top of it; clean-ups remove the last
history entry; (C08.3) a DecisionGate forwards only on the true edge of its decider applied to the part; (C08.4) no
give_part succeeds with the input blocked; (C08.5) candidates are tried in ascending order of waiting-since (None last),
every hand-over loop iterates that order and stops at the first success; (C08.6) a sink's collected list is appended in
arrival order; (C08.7) a group's default input/output are its first/last device; (C08.8) set_upstream detaches the old
and attaches the new upstream devices, which are the only writers of the downstream lists; (C08.9) for single-slot devices
"able to take a part => waiting-since is stamped (with the current time)" is inductive over all entry points.
NOT decided: that a concrete part's history equals the route graph of a concrete model.
'''
ASSUMPTIONS = ['sorted() is stable and ascending', 'Part.add_routing_history appends and remove_from_routing_history(-1) removes the last entry (checked structurally)']
MIN_INSTANCES = 300

RECORDS = {'GroupInput': 0, 'GroupOutput': 0}
GP = {'GroupPath': +1, 'GroupOutput': -1}


def _fdc_names():
    from .c02 import DELEG
    return DELEG


def check(ctx):
    P = ctx.P
    obs = []

    # ---- C08.1 -------------------------------------------------------------------------------
    o = Ob('C08.1', 'K9+K4', 'give_part: refusal => history and group-path stack unchanged; success => history +1 (0 for group input/output), '
                             'stack +1 for GroupPath, -1 for GroupOutput')
    obs.append(o)

    def collect(c, meth, truth, s0, st, res, ex):
        o.count()
        h, gp = int(st.fields['#hist']), int(st.fields['#gp'])
        if meth != 'give_part':
            wh, wg = 0, 0
        elif truth:
            wh, wg = RECORDS.get(c.name, 1), GP.get(c.name, 0)
        else:
            wh, wg = 0, 0
        if truth:
            o.witness((c.name, meth))
        if (h, gp) != (wh, wg):
            last = [n for n in res.path(ex, st) if n.kind == 'stmt' and any(call_attr(cl) in ('add_routing_history', 'remove_from_routing_history', 'append', 'pop') for cl in calls_at(res.g, n))]
            what = []
            if h != wh:
                what.append(f'routing history changes by {h:+d} (expected {wh:+d})')
            if gp != wg:
                what.append(f'group-path stack changes by {gp:+d} (expected {wg:+d})')
            o.fail(P, f'{c.name}.{meth}', last[-1].ast if last else meth,
                   f'when {meth} returns {truth}: ' + ' and '.join(what) + (' -- a refused hand-over leaves a stale entry' if not truth else ''),
                   node=last[-1] if last else None, file=c.mod.path, path=res.path_lines(ex, st))
    give_contract(ctx, collect_c08=collect)
    # the history of a part starts with its source: the generated part is initialised with the environment and records the source
    if P.has_cls('Source'):
        from ..state import Analysis as _An2, State as _St2
        cS = P.cls('Source')
        gS = ctx.graph(cS, '_finish_cycle')

        def shook(an_, n, before, after):
            st = after
            for cl in calls_at(gS, n):
                if isinstance(cl.func, ast.Attribute) and an_.ev(cl.func.value, before, n.frame) == 'new':
                    if call_attr(cl) == 'initialize':
                        st = st.with_flag('part-initialised' if len(cl.args) == 1 and ast.unparse(cl.args[0]) in ('self._env', 'self.env') else 'part-initialised-wrong')
                    if call_attr(cl) == 'add_routing_history':
                        st = st.with_flag('source-recorded' if [ast.unparse(a_) for a_ in cl.args] == ['self'] else 'source-recorded-wrong')
            return st
        anS = _An2(P, gS, ['_output', '_part', '_is_shut_down'], call_models={'generate_part': 'new'})
        anS.node_hooks.append(shook)
        resS = ctx.explore(anS, [_St2({'_output': 'N', '_part': 'N', '_is_shut_down': 'F'})])
        o.require(resS.exits(), 'Source._finish_cycle has no normal exit')
        made = 0
        for st in resS.exits():
            o.count()
            if st.fields.get('_output') == 'new':
                made += 1
                o.witness('source-first')
                fl = {f for f in st.flags if f.startswith(('part-', 'source-'))}
                if fl != {'part-initialised', 'source-recorded'}:
                    o.fail(P, 'Source._finish_cycle', 'self._output.initialize(self._env); self._output.add_routing_history(self)',
                           f'a newly generated part is {sorted(fl) or "neither initialised nor recorded"}: every part must be initialised with the environment and its routing history must start with its source',
                           file=cS.mod.path, line=P.method(cS, '_finish_cycle')[1].lineno, path=resS.path_lines(gS.exit, st))
        o.require(made >= 1, 'Source._finish_cycle: no path on which a part is generated')
    # what is recorded is the device itself
    for s in inv.method_calls(P, 'add_routing_history'):
        o.count()
        if s.cls is not None and s.cls.name in ('Batch',):
            continue
        if not (len(s.node.args) == 1 and ast.unparse(s.node.args[0]) == 'self'):
            o.fail(P, s.ctx, s.node, 'a device records something other than itself in the routing history', file=s.mod.path, line=s.line)
    for s in inv.attr_uses(P, '_group_pathing'):
        role = s.extra['role']
        if role[0] == 'method' and role[1] == 'append':
            o.count()
            own_push = len(role[2].args) == 1 and ast.unparse(role[2].args[0]) == 'self' and s.cls is not None and s.cls.name == 'GroupPath'
            # a group output that took its path off the stack before offering the part puts the same path back when the part is refused
            from ..norm import single_defs as _sd2
            a0 = role[2].args[0] if len(role[2].args) == 1 else None
            d0 = _sd2(s.func).get(a0.id) if isinstance(a0, ast.Name) and s.func is not None else None
            put_back = s.cls is not None and s.cls.name == 'GroupOutput' and d0 is not None and ast.unparse(d0) == ast.unparse(role[2].func.value) + '.pop()'
            if not (own_push or put_back):
                o.fail(P, s.ctx, s.stmt, 'only a GroupPath may push itself on the group-path stack', file=s.mod.path, line=s.line)
    # Part: history is an append-only list with positional delete; routing_history returns a copy in order
    if P.has_cls('Part'):
        c = P.cls('Part')
        fa = P.method(c, 'add_routing_history')[1]
        fr = P.method(c, 'remove_from_routing_history')[1]
        o.count(2)
        if not any(isinstance(x, ast.Call) and ast.unparse(x.func) == 'self._routing_history.append' and len(x.args) == 1
                   and ast.unparse(x.args[0]) == fa.args.args[1].arg for x in ast.walk(fa)):
            o.fail(P, 'Part.add_routing_history', 'self._routing_history.append(device)', 'the device is not appended at the end of the routing history', file=c.mod.path, line=fa.lineno)
        else:
            o.witness('append')
        if not any(isinstance(x, ast.Delete) and ast.unparse(x.targets[0]) == f'self._routing_history[{fr.args.args[1].arg}]' for x in ast.walk(fr)):
            o.fail(P, 'Part.remove_from_routing_history', 'del self._routing_history[index]', 'the entry at the given index is not removed', file=c.mod.path, line=fr.lineno)
        else:
            o.witness('remove')
        for s in inv.attr_uses(P, '_routing_history'):
            role = s.extra['role']
            o.count()
            okk = (role[0] == 'store' and s.func is not None and s.func.name == '__init__') or \
                  (role[0] == 'method' and role[1] in ('append', 'copy')) or role[0] in ('subscript-del', 'subscript-load', 'iter', 'test') or \
                  (role[0] == 'arg' and role[1] in ('list', 'tuple', 'len', 'enumerate', 'iter'))      # builtins that only read the list
            if not okk or s.cls is not c:
                o.fail(P, s.ctx, s.stmt, f'the routing history is changed in an unexpected way ({role[0]}{"." + role[1] if role[0] == "method" else ""})', file=s.mod.path, line=s.line)

    # ---- C08.2 stack discipline --------------------------------------------------------------------
    o = Ob('C08.2', 'K7', 'the group-path list is a stack (append / [-1] / pop()); a part leaves through the top path; clean-ups remove the last history entry')
    obs.append(o)
    for s in inv.attr_uses(P, '_group_pathing'):
        role = s.extra['role']
        o.count()
        bad = None
        if role[0] == 'method':
            if role[1] == 'append':
                o.witness('push')
            elif role[1] == 'pop':
                if role[2].args or role[2].keywords:
                    bad = 'the group-path stack is popped at a position other than the top'
                else:
                    o.witness('pop')
            elif role[1] == 'copy':
                pass
            else:
                bad = f'.{role[1]}() breaks the stack discipline of the group-path list'
        elif role[0] == 'subscript-load':
            sub = s.mod.parents.get(s.node)
            if not (isinstance(sub.slice, ast.UnaryOp) and isinstance(sub.slice.op, ast.USub) and isinstance(sub.slice.operand, ast.Constant) and sub.slice.operand.value == 1):
                bad = 'the exit path is not taken from the top of the group-path stack'
            else:
                o.witness('top')
        elif role[0] == 'store':
            v_ = s.stmt.value if isinstance(s.stmt, ast.Assign) else None
            copied = v_ is not None and any(isinstance(x, ast.Attribute) and x.attr == '_group_pathing' and isinstance(x.ctx, ast.Load) for x in ast.walk(v_)) and \
                (isinstance(v_, ast.Call) and (ast.unparse(v_.func) in ('list', 'copy.copy') or call_attr(v_) == 'copy') or isinstance(v_, ast.Subscript))
            if copied:
                o.witness('handed-on')      # a re-packed part starts with a copy of the stack of what it was made from (C08.12)
            elif not (s.func is not None and s.func.name == '__init__' and isinstance(s.stmt.value, ast.List) and not s.stmt.value.elts):
                bad = 'the group-path stack is re-bound'
        elif role[0] in ('iter', 'test'):
            pass
        elif role[0] == 'arg' and role[1] in ('list', 'tuple', 'len', 'copy.copy'):
            pass        # read, or copied for a re-packed part (C08.12)
        elif role[0] == 'alias':
            pass        # a local name for the stack: its uses are reported as uses of the stack (sa/inventory.py)
        else:
            bad = f'unrecognised use of the group-path stack ({role[0]})'
        if bad:
            o.fail(P, s.ctx, s.stmt, bad, file=s.mod.path, line=s.line)
    if P.has_cls('GroupOutput'):
        c = P.cls('GroupOutput')
        fn0 = P.method(c, 'give_part')[1]
        from ..norm import single_defs
        from ..cfg import prepass
        import copy as _copy
        fn = _copy.copy(fn0)            # the body as the graph builder sees it (logic moved into the path object is read in place)
        fn.body = prepass(P, fn0)
        defs = single_defs(fn)
        from .c02 import DELEG as _DELEG
        calls = [x for x in ast.walk(fn) if isinstance(x, ast.Call) and call_attr(x) in _DELEG and call_attr(x) != 'give_part']
        o.count()
        pn = fn.args.args[1].arg
        good = False
        for cl in calls:
            r = cl.func.value
            from ..norm import subst as _subst
            src = _subst(r, defs)       # through locals and aliases (`paths = part._group_pathing; exit_path = paths.pop()`)
            if src is not None and ast.unparse(src) in (f'{pn}._group_pathing[-1]', f'{pn}._group_pathing.pop()') and [ast.unparse(a) for a in cl.args] == [pn]:
                good = True
        if len(calls) != 1 or not good:
            o.fail(P, 'GroupOutput.give_part', 'part._group_pathing[-1]._pass_part_downstream(part)', 'the part does not leave the group through the most recently entered path',
                   file=c.mod.path, line=fn.lineno)
        else:
            o.witness('exit-through-top')
    # ---- C08.12 a device that re-packs parts hands the group-path stack on ------------------------------------------------
    o12 = Ob('C08.12', 'K2', 'a device that sends on a part object other than the one it received -- a new Batch made of received parts, or the parts taken out of a received '
                             'Batch -- gives it the group-path stack of what it was made from: otherwise such a device inside a shared group produces parts that '
                             'cannot leave the group through the path they entered by (GroupOutput finds no path on them)')
    obs.append(o12)
    for c in dv.device_classes(P):
        own = [f for _, _, f in c.all_functions()] if hasattr(c, 'all_functions') else []
        wraps = [x for f in own for x in ast.walk(f) if isinstance(x, ast.Call) and isinstance(x.func, ast.Name) and P.has_cls(x.func.id)
                 and any(k.name == 'Part' for k in P.cls(x.func.id).mro)]
        unwraps = [x for f in own for x in ast.walk(f) if isinstance(x, ast.Call) and isinstance(x.func, ast.Attribute) and x.func.attr in ('pop', 'popleft', 'remove')
                   and isinstance(x.func.value, ast.Attribute) and x.func.value.attr == 'parts']
        if not wraps and not unwraps:
            continue
        hands_on = any(isinstance(x, ast.Attribute) and x.attr == '_group_pathing' for f in own for x in ast.walk(f))
        for kind, sites, what in (('wrap', wraps, 'a new batch is made of received parts and sent on without the group-path stack of those parts'),
                                  ('unwrap', unwraps, 'parts are taken out of a received batch and sent on without the group-path stack of that batch')):
            if not sites:
                continue
            o12.count()
            if hands_on:
                o12.witness((c.name, kind))
            else:
                o12.fail(P, c.name, kind, f'{what}: inside a shared group they cannot leave through the path they entered by (GroupOutput raises RuntimeError)',
                         file=c.mod.path, line=sites[0].lineno)
    o12.require(o12.instances >= 1, 'no device that re-packs parts (PartBatcher) was found')

    # C08.11: the hop is in the history before the receive bookkeeping runs
    o11 = Ob('C08.11', 'K2', 'a device that stores a part adds itself to the routing history before its receive bookkeeping (record, receive callbacks, a batcher taking the first '
                             'members out of an input batch) runs: what happens at reception sees, and inherits, a history that already contains the device')
    obs.append(o11)
    from ..state import Analysis as _An11, State as _St11
    for c11 in dv.device_classes(P, dv.SLOT_DEVICES):
        if not P.has_method(c11, 'give_part') or (c11.name, 'give_part') in dv.EXEMPT_ENTRIES:
            continue
        g11 = ctx.graph(c11, 'give_part')

        def hook11(an_, n, before, after, g11=g11):
            st = after
            for cl in calls_at(g11, n):
                if call_attr(cl) == 'add_routing_history' and not ast.unparse(cl.func).startswith('super()'):
                    st = st.with_flag('hist')
            if n.kind == 'call_enter' and n.frame.func.name == '_on_received_new_part' and n.frame.parent is not None and n.frame.parent.func.name != '_on_received_new_part':
                st = st.with_flag('received' if 'hist' in st.flags else 'RECEIVED-BEFORE-HISTORY')
            return st
        an11 = _An11(P, g11, ['_part', '_output', '_block_input', '_is_shut_down'])
        an11.node_hooks.append(hook11)
        s11 = _St11({'_part': 'N', '_output': 'N', '_block_input': 'F', '_is_shut_down': 'F'})
        s11.locals[(g11.top.id, 'part')] = 'S'
        res11 = ctx.explore(an11, [s11])
        seen11 = False
        for st in res11.exits():
            o11.count()
            if 'received' in st.flags:
                seen11 = True
                o11.witness(c11.name)
            if 'RECEIVED-BEFORE-HISTORY' in st.flags:
                fn11 = dv.entry_fn(P, c11, 'give_part')
                o11.fail(P, f'{c11.name}.give_part', 'part.add_routing_history(self)', f'{c11.name} runs its receive bookkeeping before the part carries the device in its routing history: '
                         'parts that are taken out of an input batch during reception (PartBatcher) never get the entry -- a gap in their history -- and receive callbacks see a history '
                         'without the device', file=c11.mod.path, line=fn11.lineno, path=res11.path_lines(g11.exit, st))
        o11.require(seen11 or any('RECEIVED-BEFORE-HISTORY' in st.flags for st in res11.exits()), f'{c11.name}.give_part: the receive bookkeeping was not reached on an accepting path')
    # C08.10: the entry a group output removes is its own: a downstream that accepts the part may be a GroupPath, which pushes itself on
    # the same stack, so after an accepted hand-over the top is no longer the path being left -- the path must be taken off before
    # the part is offered (and put back on refusal)
    o10 = Ob('C08.10', 'K5', 'the group-path stack is never popped after a delegated hand-over that was accepted (the accepting downstream may have pushed itself): '
                             'a group output takes its path off the stack before offering the part and puts it back on refusal')
    obs.append(o10)
    from ..state import Analysis as _An, State as _St
    from .c02 import foreign_deleg_call as _fdc
    for c10 in [k for k in P.classes.values() if P.has_cls('PartFlowController') and P.cls('PartFlowController') in k.mro]:
        hit = P.lookup(c10, 'give_part')
        if not hit or hit[1] != 'method' or not any(isinstance(x, ast.Attribute) and x.attr == '_group_pathing' for x in ast.walk(hit[0].node)):
            continue
        g10 = ctx.graph(c10, 'give_part', boolean=True)

        def hook10(an_, n, before, after, g10=g10):
            st = after
            a = n.ast
            if n.kind == 'stmt' and isinstance(a, ast.Assign) and len(a.targets) == 1 and isinstance(a.targets[0], ast.Name) and isinstance(a.value, ast.Call) \
                    and call_attr(a.value) in _fdc_names() and not is_self_attr(a.value.func):
                st = st.with_flag(f'deleg:{n.frame.id}:{a.targets[0].id}')
            for cl in calls_at(g10, n):
                if call_attr(cl) == 'pop' and isinstance(cl.func, ast.Attribute) and isinstance(cl.func.value, ast.Attribute) and cl.func.value.attr == '_group_pathing':
                    accepted = 'deleg-true' in st.flags or any(f.startswith('deleg:') and st.locals.get((int(f.split(':')[1]), f.split(':')[2])) == 'T' for f in st.flags)
                    if accepted:
                        st = st.with_flag('POP-AFTER-ACCEPT')
                if call_attr(cl) in ('append', 'insert') and isinstance(cl.func, ast.Attribute) and isinstance(cl.func.value, ast.Attribute) and cl.func.value.attr == '_group_pathing':
                    accepted = 'deleg-true' in st.flags or any(f.startswith('deleg:') and st.locals.get((int(f.split(':')[1]), f.split(':')[2])) == 'T' for f in st.flags)
                    if accepted:
                        st = st.with_flag('PUSH-AFTER-ACCEPT')
            return st

        def edge10(an_, n, label, st, g10=g10):
            if n.kind == 'cond' and label == 'T' and _fdc(g10, n, n.ast):
                return st.with_flag('deleg-true')
            return st
        an10 = _An(P, g10, ['_block_input'])
        an10.node_hooks.append(hook10)
        an10.edge_hooks.append(edge10)
        res10 = ctx.explore(an10, [_St({'_block_input': 'F'})], follow_exc=False)
        for ex in (g10.exitT, g10.exitF):
            for st in res10.at(ex):
                o10.count()
                o10.witness((c10.name, ex == g10.exitT))
                if 'POP-AFTER-ACCEPT' in st.flags:
                    o10.fail(P, f'{c10.name}.give_part', 'part._group_pathing.pop()',
                             f'{c10.name}.give_part pops the group-path stack after the downstream accepted the part: if that downstream is a GroupPath (groups in series, or an inner group '
                             'path used as the output of an outer group) the entry removed is the downstream\'s, the part keeps the path it has just left and later leaves the next group '
                             'through the wrong path (deadlock / unbounded recursion)', file=c10.mod.path, line=hit[2].lineno, path=res10.path_lines(ex, st))
                if 'PUSH-AFTER-ACCEPT' in st.flags:
                    o10.fail(P, f'{c10.name}.give_part', 'part._group_pathing.append(self)',
                             f'{c10.name}.give_part puts its path on the group-path stack only after the group accepted the part: a device inside the group that is itself a group path '
                             '(nested groups entered in one call chain) has pushed itself first, so the stack holds the paths in the wrong order and the part leaves the inner group '
                             'through the outer path, skipping the remaining stations of the outer group', file=c10.mod.path, line=hit[2].lineno, path=res10.path_lines(ex, st))
    for s in inv.method_calls(P, 'remove_from_routing_history'):
        if s.cls is not None and s.cls.name == 'Batch':
            continue
        o.count()
        a = s.node.args[0] if s.node.args else None
        if not (isinstance(a, ast.UnaryOp) and isinstance(a.op, ast.USub) and isinstance(a.operand, ast.Constant) and a.operand.value == 1):
            o.fail(P, s.ctx, s.node, 'a clean-up after a refused hand-over must remove the last routing-history entry (index -1)', file=s.mod.path, line=s.line)
        else:
            o.witness(('cleanup', s.ctx))

    # ---- C08.3 decision gate ---------------------------------------------------------------------------
    o = Ob('C08.3', 'K2', 'DecisionGate.give_part forwards only on the true edge of its decider applied to the offered part')
    obs.append(o)
    if P.has_cls('DecisionGate'):
        c = P.cls('DecisionGate')
        g = ctx.graph(c, 'give_part', boolean=True)
        pn = P.method(c, 'give_part')[1].args.args[1].arg
        deciders = [n for n in g.nodes.values() if n.kind == 'cond' and isinstance(n.ast, ast.Call) and is_self_attr(n.ast.func, '_decider_override')
                    and [ast.unparse(a) for a in n.ast.args] == [pn]]
        hands = [n for n in g.nodes.values() if n.kind == 'cond' and foreign_deleg_call(g, n, n.ast)]
        o.count()
        if len(deciders) != 1 or not hands:
            o.fail(P, 'DecisionGate.give_part', 'if not self._decider_override(part): return False', f'expected one decider test on the offered part and a forwarding loop (found {len(deciders)} test(s), {len(hands)} forwarding site(s))',
                   file=c.mod.path, line=P.method(c, 'give_part')[1].lineno)
        else:
            d = deciders[0]
            for h in hands:
                o.count()
                if h.id in g.reach_edges([g.entry], cut_edges={(d.id, 'T')}):
                    o.fail(P, 'DecisionGate.give_part', None, 'a part can be forwarded without the decider having accepted it', node=h)
                else:
                    o.witness('dominated')
            if g.exitT in g.reach_edges([g.entry], cut_edges={(d.id, 'T')}):
                o.fail(P, 'DecisionGate.give_part', None, 'the gate can answer True although its decider rejected the part', node=d)
            o.sample({'decider_test': f'{P.rel(d.file)}:{d.line}', 'forwarding_sites': [f'{P.rel(h.file)}:{h.line}' for h in hands]})
        init = P.method(c, '__init__')[1]
        stores = [s for s in ast.walk(init) if isinstance(s, ast.Assign) and any(is_self_attr(t, '_decider_override') for t in s.targets)]
        o.count()
        def _alts(e):
            return _alts(e.body) + _alts(e.orelse) if isinstance(e, ast.IfExp) else [e]
        vals = sorted(ast.unparse(v) for s in stores for v in _alts(s.value))
        if vals != ['partial(decider_override, self)', 'self.part_pass_decider']:
            o.fail(P, 'DecisionGate.__init__', 'self._decider_override = partial(decider_override, self)', f'the decider is not the user override applied to (gate, part) or the default decider; found {vals}',
                   file=c.mod.path, line=init.lineno)
        else:
            o.witness('decider-binding')
        for s in inv.attr_stores(P, '_decider_override'):
            o.count()
            if not (s.cls is c and s.func.name == '__init__'):
                o.fail(P, s.ctx, s.stmt, 'the decider is replaced after construction', file=s.mod.path, line=s.line)

    # ---- C08.4 blocked input ---------------------------------------------------------------------------------
    o = Ob('C08.4', 'K2', 'no give_part implementation that owns an input block succeeds while the input is blocked')
    obs.append(o)
    for c in dv.device_classes(P):
        if c.name in ('GroupOutput',) or (c.name, 'give_part') in dv.EXEMPT_ENTRIES or not P.has_method(c, 'give_part'):
            continue
        g = ctx.graph(c, 'give_part', boolean=True)
        an = Analysis(P, g, ['_part', '_output', '_is_shut_down', '_block_input'], call_models={'reserve_resources': TOP})

        def hook(an_, n, before, after):
            st = after
            for cl in calls_at(an_.g, n):
                if call_attr(cl) in ('add_routing_history', 'append') and not recv_text(cl).startswith('super()') and \
                        (call_attr(cl) == 'add_routing_history' or '_group_pathing' in recv_text(cl)):
                    st = st.with_flag('touched')
            return st
        an.node_hooks.append(hook)
        s0 = State({'_part': 'N', '_output': 'N', '_is_shut_down': 'F', '_block_input': 'T'})
        s0.locals[(g.top.id, 'part')] = 'S'
        res = ctx.explore(an, [s0])
        for st in res.at(g.exitT):
            o.count()
            ln = dv.last_node(res, g.exitT, st, lambda n: n.kind in ('return', 'cond'))
            o.fail(P, f'{c.name}.give_part', ln.ast if ln else 'give_part', 'a part is accepted although the input of the device is blocked', node=ln, file=c.mod.path,
                   path=res.path_lines(g.exitT, st))
        for st in res.at(g.exitF):
            o.count()
            o.witness(c.name)
            if 'touched' in st.flags and int(0) == 0 and c.name == 'GroupPath':
                o.fail(P, f'{c.name}.give_part', 'if self._block_input: return False', 'a blocked group path touches the part before refusing it', file=c.mod.path,
                       line=P.method(c, 'give_part')[1].lineno, path=res.path_lines(g.exitF, st))

    # the block is the user's: only the documented setter (and the constructor) writes it
    for s_ in inv.attr_stores(P, '_block_input'):
        o.count()
        fn_ = s_.func
        is_setter = fn_ is not None and any(ast.unparse(d).endswith('.setter') for d in fn_.decorator_list)
        if fn_ is not None and (fn_.name == '__init__' or is_setter or fn_.name in inv.covered(P, {'__init__'})):
            o.witness(('block-writer', fn_.name))
            continue
        o.fail(P, s_.ctx, s_.stmt, 'the input block is written outside its setter and the constructor: a block the model set (before the start, or through a schedule) is '
               'undone behind its back and parts enter a device that is configured as blocked', file=s_.mod.path, line=s_.line)

    # ---- C08.5 candidate order ------------------------------------------------------------------------------------
    o = Ob('C08.5', 'K6', 'downstream candidates are tried in ascending waiting-since order (None last), every hand-over loop iterates that order '
                          'and stops at the first success; a waiting-since of 0 is a time, not "not waiting"')
    obs.append(o)
    o5 = o
    PFC = P.cls('PartFlowController')
    sorter = P.lookup(PFC, 'downstream_priority_sorter')
    o.count()
    oks = False
    keyexpr = None
    if sorter and sorter[1] == 'method':
        fn = sorter[2]
        rets = [r for r in ast.walk(fn) if isinstance(r, ast.Return)]
        from ..norm import single_defs as _sd5
        rv5 = subst(rets[0].value, _sd5(fn)) if len(rets) == 1 and rets[0].value is not None else None      # `by_priority = sorted(...); ...; return by_priority`
        if rv5 is not None and isinstance(rv5, ast.Call) and ast.unparse(rv5.func) == 'sorted':
            cl = rv5
            kws = {k.arg: k.value for k in cl.keywords}
            rev = kws.get('reverse')
            if len(cl.args) == 1 and ast.unparse(cl.args[0]) == fn.args.args[0].arg and 'key' in kws \
                    and (rev is None or (isinstance(rev, ast.Constant) and rev.value is False)):
                oks = True
                keyexpr = kws['key']
    if not oks:
        o.fail(P, 'PartFlowController.downstream_priority_sorter', 'sorted(downstream, key=<waiting-since key>)',
               'candidates are not sorted ascending by the waiting-since key', file=PFC.mod.path, line=sorter[2].lineno if sorter else PFC.node.lineno)
    else:
        o.witness('sorted-ascending')
    # the key: waiting-since, with None (not waiting) mapped to +infinity -- whatever the key function is called and however it is spelled
    o.count()
    okk = False
    INF = ("float('inf')", 'math.inf', 'inf', 'float("inf")')
    kname = None
    if isinstance(keyexpr, ast.Attribute) and isinstance(keyexpr.value, ast.Name) and keyexpr.value.id in ('PartFlowController', 'cls'):
        kname = keyexpr.attr
    if kname and P.lookup(PFC, kname) and P.lookup(PFC, kname)[1] == 'method':
        kfn = P.lookup(PFC, kname)[2]
        kp = [a_.arg for a_ in kfn.args.args if a_.arg not in ('self', 'cls')][0]

        def m_none(test, frame, kp=kp):
            if isinstance(test, ast.Compare) and len(test.ops) == 1:
                l, r = test.left, test.comparators[0]
                if isinstance(l, ast.Constant) and l.value is None:
                    l, r = r, l
                if isinstance(r, ast.Constant) and r.value is None and ast.unparse(subst(l, FrameEnv(frame))) == f'{kp}.waiting_for_part_start_time':
                    if isinstance(test.ops[0], (ast.Eq, ast.Is)):
                        return True
                    if isinstance(test.ops[0], (ast.NotEq, ast.IsNot)):
                        return False
            return None
        cases = dv.return_cases(ctx, PFC, kname, [('#notwaiting', m_none)])
        okk = bool(cases.get(('T',))) and cases[('T',)] <= set(INF) and cases.get(('F',)) == {f'{kp}.waiting_for_part_start_time'}
        o.stats['sorting_key_cases'] = {k[0]: sorted(v) for k, v in cases.items()}
    elif isinstance(keyexpr, ast.Lambda) and len(keyexpr.args.args) == 1:
        kp = keyexpr.args.args[0].arg
        v = keyexpr.body
        if isinstance(v, ast.IfExp):
            t = ast.unparse(v.test).replace(' is not ', ' != ').replace(' is ', ' == ')
            w = f'{kp}.waiting_for_part_start_time'
            okk = (t == f'{w} == None' and ast.unparse(v.body) in INF and ast.unparse(v.orelse) == w) or (t == f'{w} != None' and ast.unparse(v.orelse) in INF and ast.unparse(v.body) == w)
    if not okk:
        o.fail(P, f'PartFlowController.{kname or "downstream_priority_sorter"}', "return float('inf') if not waiting else waiting-since",
               'the sorting key is not the waiting-since time with None mapped to +infinity', file=PFC.mod.path, line=sorter[2].lineno if sorter else PFC.node.lineno)
    else:
        o.witness('key')
    gs = P.method(PFC, 'get_sorted_downstream_list')[1]
    o.count()
    if ast.unparse([s for s in gs.body if isinstance(s, ast.Return)][-1].value) != 'PartFlowController.downstream_priority_sorter(self._downstream)':
        o.fail(P, 'PartFlowController.get_sorted_downstream_list', 'return PartFlowController.downstream_priority_sorter(self._downstream)',
               'the sorted candidate list is not the downstream list passed through the priority sorter', file=PFC.mod.path, line=gs.lineno)
    nloops = 0
    for m, c_, f in inv.functions(P):
        class _Gen:        # `any(d.give_part(p) for d in <candidates>)`: the generator is the hand-over loop
            def __init__(self, comp):
                g_ = comp.generators[0]
                self.target, self.iter, self.lineno, self.comp = g_.target, g_.iter, comp.lineno, comp
        loops_ = [n for n in ast.walk(f) if isinstance(n, ast.For)] + \
                 [_Gen(n) for n in ast.walk(f) if isinstance(n, (ast.GeneratorExp, ast.ListComp)) and len(n.generators) == 1]
        for lp in loops_:
            tgt = lp.target.id if isinstance(lp.target, ast.Name) else None
            offers = [x for x in ast.walk(lp.comp if isinstance(lp, _Gen) else lp) if isinstance(x, ast.Call) and call_attr(x) == 'give_part' and isinstance(x.func, ast.Attribute)
                      and isinstance(x.func.value, ast.Name) and x.func.value.id == tgt]
            if not offers:
                continue
            nloops += 1
            o.count()
            where = f'{c_.name if c_ else "<module>"}.{f.name}'
            it_ = lp.iter
            if isinstance(it_, ast.Name):
                # a local holding the sorted list is fine when it is computed in the same (innermost) loop body as the hand-over loop,
                # i.e. afresh for every part that is offered
                dfs_ = [x for x in ast.walk(f) if isinstance(x, ast.Assign) and any(isinstance(t_, ast.Name) and t_.id == it_.id for t_ in x.targets)]

                def _encl_loop(x):
                    p_ = m.parents.get(x)
                    while p_ is not None and not isinstance(p_, (ast.For, ast.While, ast.FunctionDef)):
                        p_ = m.parents.get(p_)
                    return p_
                if len(dfs_) == 1 and _encl_loop(dfs_[0]) is _encl_loop(lp.comp if isinstance(lp, _Gen) else lp):
                    it_ = dfs_[0].value
            if ast.unparse(it_) != 'self.get_sorted_downstream_list()':
                o.fail(P, where, lp.iter, 'a hand-over loop does not try the downstream devices in priority order', file=m.path, line=lp.lineno)
            else:
                o.witness(('loop', where))
    o.require(nloops >= 2, f'only {nloops} hand-over loops found (expected at least the slot devices\' and the pass-through devices\')')
    # first success wins: after a true answer no further candidate is offered the same part (C02.1 deleg2 covers double delegation)
    # waiting_for_part_start_time of pass-through devices: earliest of the downstream devices
    fnw = P.lookup_prop(PFC, 'waiting_for_part_start_time', 'get')
    o.count()
    if not fnw or not any(isinstance(x, ast.Call) and isinstance(x.func, ast.Name) and x.func.id == 'min' for x in ast.walk(fnw[1])):
        o.fail(P, 'PartFlowController.waiting_for_part_start_time', 'min(min_wait_start, d.waiting_for_part_start_time)',
               'a pass-through device must report the earliest waiting-since of its downstream devices', file=PFC.mod.path, line=PFC.node.lineno)
    PH = P.cls('PartHandler')
    fnh = P.lookup_prop(PH, 'waiting_for_part_start_time', 'get')
    o.count()
    if not fnh or ast.unparse(fnh[1].body[-1]) != 'return self._waiting_for_part_since':
        o.fail(P, 'PartHandler.waiting_for_part_start_time', 'return self._waiting_for_part_since', 'a slot device must report its own waiting-since stamp', file=PH.mod.path, line=PH.node.lineno)

    # ---- C08.6 collected parts ----------------------------------------------------------------------------------------
    o = Ob('C08.6', 'K7', 'Sink.collected_parts is appended (never inserted elsewhere) with the part just received')
    obs.append(o)
    if P.has_cls('Sink'):
        c = P.cls('Sink')
        napp = 0
        for s in inv.attr_uses(P, 'collected_parts'):
            role = s.extra['role']
            o.count()
            if role[0] == 'method' and role[1] == 'append' and s.cls is c:
                napp += 1
                from ..norm import ctext as _ct, single_defs as _sd
                if [_ct(a, _sd(s.func)) for a in role[2].args] != ['self._part']:
                    o.fail(P, s.ctx, s.stmt, 'the sink does not collect the part it has just received', file=s.mod.path, line=s.line)
                else:
                    o.witness('append')
            elif role[0] == 'store' and s.cls is c and s.func.name == '__init__' and isinstance(s.stmt.value, ast.List) and not s.stmt.value.elts:
                pass
            elif role[0] in ('iter', 'test', 'subscript-load') or (role[0] == 'arg' and role[1] == 'len'):
                pass
            else:
                o.fail(P, s.ctx, s.stmt, f'the collected-parts list is changed other than by appending ({role[0]}{"." + role[1] if role[0] == "method" else ""})', file=s.mod.path, line=s.line)
        o.count()
        if napp != 1:
            o.fail(P, 'Sink', 'self.collected_parts.append(self._part)', f'expected one append of the received part, found {napp}', file=c.mod.path, line=c.node.lineno)

    # ---- C08.7 group defaults --------------------------------------------------------------------------------------------
    o = Ob('C08.7', 'K6', "a group's default input is its first device and its default output its last device")
    obs.append(o)
    if P.has_cls('Group'):
        c = P.cls('Group')
        init = P.method(c, '__init__')[1]
        for cls_name, field, want in (('GroupInput', '_input_device', {'self._devices[0:1]', 'self._devices[:1]', '[self._devices[0]]'}),
                                      ('GroupOutput', '_output_device', {'self._devices[-1:]', '[self._devices[-1]]'})):
            o.count()
            calls = [x for x in ast.walk(init) if isinstance(x, ast.Call) and isinstance(x.func, ast.Name) and x.func.id == cls_name]
            args = sorted(ast.unparse(x.args[1]) for x in calls if len(x.args) == 2)
            ovr = 'input_override' if cls_name == 'GroupInput' else 'output_override'
            dflt = [a for a in args if a != ovr]
            if len(dflt) != 1 or dflt[0] not in want or ovr not in args:
                o.fail(P, 'Group.__init__', f'{cls_name}(self, {sorted(want)[0]})', f'the default {"input" if cls_name == "GroupInput" else "output"} of a group must be its {"first" if cls_name == "GroupInput" else "last"} device; found {args}',
                       file=c.mod.path, line=init.lineno)
            else:
                o.witness(cls_name)
        o.count()
        dv_store = [s for s in ast.walk(init) if isinstance(s, ast.Assign) and any(is_self_attr(t, '_devices') for t in s.targets)]
        if len(dv_store) != 1 or ast.unparse(dv_store[0].value) not in ('devices.copy()', 'list(devices)', 'devices[:]'):
            o.fail(P, 'Group.__init__', 'self._devices = devices.copy()', 'the device list of the group is not a copy of the given list in order', file=c.mod.path, line=init.lineno)
        # the comparison of set(all_devices) is only used for membership: iteration order cannot matter (C14.2)
        # the group's own list stays what was copied: it is only read afterwards (its first / last element are the default input / output);
        # another name for it that is then extended changes those defaults
        for s in inv.attr_uses(P, '_devices'):
            if s.cls is not c:
                continue
            role = s.extra['role']
            o.count()
            if role[0] in ('store',) and s.func.name == '__init__':
                continue
            if role[0] in ('subscript-load', 'iter', 'test', 'return') or (role[0] == 'method' and role[1] in ('copy', 'index', 'count')) or \
                    (role[0] == 'arg' and role[1] in ('len', 'list', 'tuple', 'set', 'sorted', 'enumerate')):
                continue
            o.fail(P, s.ctx, s.stmt, f'Group._devices is used as {role[0]}{" " + str(role[1]) if len(role) > 1 and isinstance(role[1], str) else ""}: the list must stay the copy of the given devices '
                   '(its first and last elements are the default entry and exit of the group)', file=s.mod.path, line=s.line)

    # ---- C08.8 wiring ---------------------------------------------------------------------------------------------------------
    o = Ob('C08.8', 'K2', 'set_upstream detaches the old and attaches the new upstream devices; only _add_downstream/_remove_downstream write a downstream list')
    obs.append(o)
    g = ctx.graph(PFC, 'set_upstream')
    rem = [n for n in g.nodes.values() if n.kind == 'for' and any(call_attr(x) == '_remove_downstream' for s_ in n.ast.body for x in ast.walk(s_) if isinstance(x, ast.Call))]
    add = [n for n in g.nodes.values() if n.kind == 'for' and any(call_attr(x) == '_add_downstream' for s_ in n.ast.body for x in ast.walk(s_) if isinstance(x, ast.Call))]
    sto = [n for n in g.nodes.values() if n.kind == 'stmt' and isinstance(n.ast, ast.Assign) and any(is_self_attr(t, '_upstream') for t in n.ast.targets)]
    o.count()
    okw = len(rem) == 1 and len(add) == 1 and len(sto) == 1
    if okw:
        okw = ast.unparse(rem[0].ast.iter) == 'self._upstream' and ast.unparse(add[0].ast.iter) == 'self._upstream' \
            and g.dominated_by(sto[0].id, {rem[0].id}) and g.dominated_by(add[0].id, {sto[0].id}) \
            and g.exit not in g.reach([g.entry], avoid={add[0].id}, follow=lambda l: l != 'exc') \
            and ast.unparse(sto[0].ast.value) in ('new_upstream.copy()', 'list(new_upstream)', 'new_upstream[:]')
        for lp, nm in ((rem[0], '_remove_downstream'), (add[0], '_add_downstream')):
            tgt = lp.ast.target.id
            if not (len(lp.ast.body) == 1 and ast.unparse(lp.ast.body[0]) == f'{tgt}.{nm}(self)'):
                okw = False
    if not okw:
        o.fail(P, 'PartFlowController.set_upstream', 'for up in self._upstream: up._remove_downstream(self); self._upstream = new_upstream.copy(); for up in self._upstream: up._add_downstream(self)',
               'set_upstream must detach itself from every old upstream device, store a copy of the new list and attach itself to every new upstream device, in this order',
               file=PFC.mod.path, line=P.method(PFC, 'set_upstream')[1].lineno)
    else:
        o.witness('rewire')
    for s in inv.attr_uses(P, '_downstream'):
        role = s.extra['role']
        o.count()
        if role[0] == 'method' and role[1] in ('append', 'remove'):
            want_fn = '_add_downstream' if role[1] == 'append' else '_remove_downstream'
            if not (s.cls is PFC and s.func.name == want_fn and [ast.unparse(a) for a in role[2].args] == [s.func.args.args[1].arg]):
                o.fail(P, s.ctx, s.stmt, 'a downstream list is changed outside _add_downstream/_remove_downstream', file=s.mod.path, line=s.line)
            else:
                o.witness(want_fn)
        elif role[0] in ('store',):
            if not (s.func is not None and s.func.name == '__init__'):
                o.fail(P, s.ctx, s.stmt, 'a downstream list is re-bound after construction', file=s.mod.path, line=s.line)
        elif role[0] == 'method' and role[1] not in ('copy', 'index', 'count'):
            o.fail(P, s.ctx, s.stmt, f'.{role[1]}() on a downstream list', file=s.mod.path, line=s.line)
    for s in inv.attr_stores(P, '_upstream'):
        o.count()
        if not (s.cls is PFC and s.func.name in ('__init__', 'set_upstream')):
            o.fail(P, s.ctx, s.stmt, 'an upstream list is written outside set_upstream', file=s.mod.path, line=s.line)
    # group wiring
    for cname, want in (('GroupInput', 'd.set_upstream([self])'), ('GroupOutput', 'self.set_upstream(output_devices)'), ('GroupPath', 'self._group._group_paths.append(self)')):
        if not P.has_cls(cname):
            continue
        c = P.cls(cname)
        init = P.method(c, '__init__')[1]
        o.count()
        from ..norm import single_defs as _sd3
        d3 = _sd3(init)
        calls3 = {ast.unparse(subst(x, d3)) for x in ast.walk(init) if isinstance(x, ast.Call)}
        ps3 = [a.arg for a in init.args.args]
        if cname == 'GroupInput' and len(ps3) >= 3:
            # every given input device gets this object as its only upstream -- whatever the loop variable is called
            wired = any(isinstance(l, ast.For) and isinstance(l.target, ast.Name) and ast.unparse(subst(l.iter, d3)) == ps3[2] and
                        any(isinstance(x, ast.Call) and ast.unparse(x) == f'{l.target.id}.set_upstream([self])' for b in l.body for x in ast.walk(b))
                        for l in ast.walk(init))
        elif cname == 'GroupOutput' and len(ps3) >= 3:
            wired = f'self.set_upstream({ps3[2]})' in calls3
        else:
            wired = want in calls3
        if not wired:
            o.fail(P, f'{cname}.__init__', want, f'{cname} is not wired into its group ({want} missing)', file=c.mod.path, line=init.lineno)
        else:
            o.witness(cname)

    # ---- C08.9 waiting-since ---------------------------------------------------------------------------------------------------
    o = Ob('C08.9', 'K5', 'single-slot devices: able to take a part => waiting-since is stamped; every stamp is the current time; accepting a part clears it')
    obs.append(o)
    tracked = ['_part', '_output', '_is_shut_down', '_block_input', '_waiting_for_part_since', '_env']
    for c in dv.device_classes(P, dv.SINGLE_SLOT):
        N = Normalizer(P, c)

        def I(f, c=c):
            able = f['_part'] == 'N' and f['_output'] == 'N' and f['_is_shut_down'] == 'F'
            if able and f['_waiting_for_part_since'] != 'S':
                return False
            # and conversely: a device that holds a part is not stamped (a stamp set while holding survives the departure of the part
            # and then outranks devices that have been idle longer) -- inductive since the repair of F9
            if f['_waiting_for_part_since'] == 'S' and (dv.full(f['_part']) or dv.full(f['_output'])):
                return False
            return dv.slot_invariant(c.name, f)

        def stamp(an, n, before, after, N=N):
            a = n.ast
            if n.kind == 'stmt' and isinstance(a, ast.Assign) and any(is_self_attr(t, '_waiting_for_part_since') for t in a.targets) \
                    and not isinstance(a.value, ast.Constant):
                st = after.with_field('_waiting_for_part_since', 'S')
                if not N.norm(a.value, FrameEnv(n.frame)).is_({'NOW': 1}):
                    st = st.with_flag('STAMP-NOT-NOW')
                # the converse, for the stamps the device writes through its own operations: it is stamped only while both slots are
                # empty (a device that still holds a blocked finished part and gets stamped keeps that early stamp when the part leaves,
                # and is then preferred over a sibling that has really been idle longer)
                if dv.full(before.fields.get('_part')) or dv.full(before.fields.get('_output')):
                    st = st.with_flag('STAMP-WHILE-HOLDING')
                return st
            return after
        dom = dv.base_domain(P, c)
        dom['_waiting_for_part_since'] = ['N', 'S']
        dom['_env'] = ['S']

        def ef(e, kind, s0):
            f = s0.fields
            if e == '_finish_cycle' and not (dv.full(f['_part']) and f['_is_shut_down'] == 'F' and not dv.full(f['_output'])):
                return None
            return s0
        for e, kind, g, s0, res in dv.explore_all(ctx, c, tracked, dom, I, node_hooks=[stamp], call_models={'reserve_resources': TOP}, entry_filter=ef):
            for st in res.exits():
                o.count()
                f = st.fields
                if f['_part'] == 'N' and f['_output'] == 'N' and f['_is_shut_down'] == 'F':
                    o.witness((c.name, e))
                if 'STAMP-NOT-NOW' in st.flags:
                    ln = dv.last_node(res, g.exit, st, lambda n: n.kind == 'stmt' and '_waiting_for_part_since' in n.src())
                    o.fail(P, f'{c.name}.{e}', ln.ast if ln else e, 'the waiting-since stamp is not the current time', node=ln, file=c.mod.path)
                if 'STAMP-WHILE-HOLDING' in st.flags:
                    ln = dv.last_node(res, g.exit, st, lambda n: n.kind == 'stmt' and '_waiting_for_part_since' in n.src())
                    o.fail(P, f'{c.name}.{e}', ln.ast if ln else e, f'{e} stamps the device as waiting for a part while it still holds one (entry {s0.show()}): it keeps the early stamp '
                           'when the part leaves and is then ranked ahead of a parallel device that has been idle longer', node=ln, file=c.mod.path, path=res.path_lines(g.exit, st))
                if not I(f):
                    ln = dv.last_node(res, g.exit, st, lambda n: n.kind in ('stmt', 'cond', 'return') and n.ast is not None)
                    holding = f['_waiting_for_part_since'] == 'S' and (dv.full(f['_part']) or dv.full(f['_output']))
                    o.fail(P, f'{c.name}.{e}', ln.ast if ln else e,
                           (f'the device holds a part but carries a waiting-since stamp: the stamp survives the departure of the part and the device is then ranked ahead of '
                            f'parallel devices that have been idle longer (entry {s0.show()} -> exit {st.show()})' if holding else
                            f'the device can take a part but its waiting-since stamp is not set, so it is ranked last among parallel candidates (entry {s0.show()} -> exit {st.show()})'),
                           node=ln, file=c.mod.path, path=res.path_lines(g.exit, st))
                if dv.full(f['_part']) and not dv.full(s0.fields['_part']) and f['_waiting_for_part_since'] != 'N':
                    ln = dv.last_node(res, g.exit, st, lambda n: n.kind == 'stmt' and '_part' in n.src())
                    o.fail(P, f'{c.name}.{e}', ln.ast if ln else e, 'accepting a part does not clear the waiting-since stamp', node=ln, file=c.mod.path,
                           path=res.path_lines(g.exit, st))
        for st in construct_and_initialize(ctx, c, tracked, extra_hooks=[stamp]):
            o.count()
            f = dict(st.fields)
            for k in ('_is_shut_down', '_block_input'):
                if f.get(k) == TOP:
                    f[k] = 'F'
            if not I(f):
                o.fail(P, f'{c.name}.initialize', 'self._set_waiting_for_part(True, True)', f'after construction and initialisation the device is idle but not stamped: {st.show()}',
                       file=c.mod.path, line=c.node.lineno)
            else:
                o.witness((c.name, 'base'))
    # every device that takes parts, single-slot or not (PartBatcher, Buffer): a successful give_part never leaves the OLD waiting-since
    # stamp in place -- it is cleared, or re-stamped with the current time if the device is able to take another part at once
    for c in dv.device_classes(P, ['PartHandler', 'PartProcessor', 'Sink', 'PartBatcher', 'Buffer']):
        N = Normalizer(P, c)

        def stamp2(an, n, before, after, N=N):
            a = n.ast
            st = after
            if n.kind == 'stmt' and isinstance(a, ast.Assign) and any(is_self_attr(t, '_waiting_for_part_since') for t in a.targets):
                if isinstance(a.value, ast.Constant) and a.value.value is None:
                    st = st.with_field('_waiting_for_part_since', 'N')
                else:
                    st = st.with_field('_waiting_for_part_since', 'S' if N.norm(a.value, FrameEnv(n.frame)).is_({'NOW': 1}) else 'other')
            if n.kind == 'call_enter' and n.frame.func.name == '_accept_part':
                st = st.with_flag('accepted')
            return st
        dom = dv.base_domain(P, c)
        dom['_waiting_for_part_since'] = ['old']
        dom['_env'] = ['S']
        n_acc = 0
        for e, kind, g, s0, res in dv.explore_all(ctx, c, tracked, dom, None, node_hooks=[stamp2], call_models={'reserve_resources': TOP, 'generate_part': 'S', '_get_part_count': 'S'},
                                                  entries={'give_part': 'public'}):
            for st in res.exits():
                o.count()
                if 'accepted' in st.flags:
                    n_acc += 1
                    o.witness((c.name, 'accept-restamps'))
                    if st.fields['_waiting_for_part_since'] not in ('N', 'S'):
                        ln = dv.last_node(res, g.exit, st, lambda n: n.kind in ('stmt', 'call_enter') and n.ast is not None)
                        o.fail(P, f'{c.name}.give_part', 'self._set_waiting_for_part(False)',
                               f'{c.name} accepts a part but keeps its old waiting-since stamp: it keeps looking like the device that has been idle longest and is offered every part first',
                               file=c.mod.path, line=dv.entry_fn(P, c, 'give_part').lineno, path=res.path_lines(g.exit, st))
        o.require(n_acc >= 1, f'{c.name}.give_part: no accepting path explored')
    zero_is_a_time(ctx, o5)
    return obs


def zero_is_a_time(ctx, o):
    """a time value (waiting-since, restore / use-start stamps, paused_at) is absent only when it is None: 0 is a legitimate time (the start
    of the simulation), so testing such a value for truthiness or filtering it with filter(None, ...) treats a device idle since 0 as not idle"""
    P = ctx.P
    from ..norm import single_defs, subst
    times = set()
    for m, c, fn in inv.functions(P):
        if c is None:
            continue
        N = Normalizer(P, c)
        for x in ast.walk(fn):
            if isinstance(x, ast.Assign) and len(x.targets) == 1 and isinstance(x.targets[0], ast.Attribute) and not isinstance(x.value, ast.Constant):
                try:
                    if N.norm(x.value).is_({'NOW': 1}):
                        times.add(x.targets[0].attr)
                except Exception:
                    pass
    times.discard('_now')
    props = set()
    for c in P.classes.values():
        for nm, acc in c.props.items():
            gfn = acc.get('get')
            if gfn is not None and any(isinstance(x, ast.Attribute) and x.attr in times for x in ast.walk(gfn)):
                props.add(nm)
    names = times | props
    o.stats['time_valued_attributes'] = sorted(names)
    o.require(len(times) >= 2, f'only {sorted(times)} recognised as time-valued attributes')

    def is_time(e, defs):
        e = subst(e, defs)
        if isinstance(e, ast.Attribute) and e.attr in names:
            return True
        if isinstance(e, (ast.ListComp, ast.GeneratorExp)) and isinstance(e.elt, ast.Attribute) and e.elt.attr in names:
            return True
        return False
    for m, c, fn in inv.functions(P):
        defs = single_defs(fn)
        where = f'{c.name if c else "<module>"}.{fn.name}'
        for x in ast.walk(fn):
            bad = None
            if isinstance(x, ast.Call) and isinstance(x.func, ast.Name) and x.func.id == 'filter' and len(x.args) == 2 and \
                    ((isinstance(x.args[0], ast.Constant) and x.args[0].value is None) or (isinstance(x.args[0], ast.Name) and x.args[0].id == 'bool')) and is_time(x.args[1], defs):
                bad = x
            tests = []
            if isinstance(x, (ast.If, ast.While, ast.IfExp, ast.Assert)):
                tests.append(x.test)
            if isinstance(x, ast.BoolOp):
                tests += x.values
            if isinstance(x, ast.UnaryOp) and isinstance(x.op, ast.Not):
                tests.append(x.operand)
            if isinstance(x, ast.comprehension):
                tests += x.ifs
            for t in tests:
                if isinstance(t, (ast.Attribute, ast.Name)) and is_time(t, defs) and not (isinstance(t, ast.Name) and t.id not in defs):
                    bad = t
            if bad is not None:
                o.count()
                o.fail(P, where, bad, 'a time value is tested for truthiness / filtered with filter(None, ...): the time 0 (idle since the start of the simulation) is treated like "not waiting"; '
                       'compare with None instead', file=m.path, line=bad.lineno)
    o.count()
    o.witness('zero-is-a-time')


CLAIM = {
    'technique': 'static analysis: sibling agreement of give_part implementations on history/stack counters (typestate), container-discipline '
                 'inventories, edge dominance for the gate, AST normal forms of the sorter, inductive waiting-since invariant',
    'level_text': 'Net effect of every give_part on the routing history and the group-path stack, gate polarity, blocked-input refusal, candidate '
                  'order and the waiting-since invariant are decided on all paths; histories of concrete parts in concrete models are not computed.',
    'level_note': 'Trusts sorted() stability; user deciders/callbacks are opaque.',
}
