"""C16 -- value accounting adds up."""
import ast

from .. import AnalysisError
from ..report import Ob
from ..cfg import calls_at, call_attr, is_self_attr
from ..state import Analysis, State, TOP, is_token
from ..norm import Normalizer, cmp_norm, cmp_polarity, FrameEnv, ctext, subst
from .. import inventory as inv
from .. import devices as dv
from .c02 import foreign_deleg_call

EXPLANATION = '''
Static analysis of the value bookkeeping (asset.py, source.py, sink.py, maintainer.py, batch.py, system.py).
Decided: (C16.1) an asset's value is written only by the constructor, initialize and add_value; add_value returns first
for a zero change and otherwise adds the change and then appends (label, now, change, new total) to the history, once;
the history has no other writer; (C16.2) add_cost(label, c) is add_value(label, -c); (C16.3) a source charges the value of
the part -- read before the hand-over -- to its own value and to its cost tally exactly once on exactly the paths where the
part left; (C16.4) a sink credits the value of the accepted part to its own value and to its tally exactly once per
accepted part; (C16.5) a maintainer charges the cost reported by the target once per started order (C12.4); (C16.6) a
batch is worth the sum of its parts and refuses add_value; the system's net value is the sum over its registered assets.
NOT decided: the identities over a whole run.  No rule on the value/history reset in Asset.initialize: add_value cannot be
called before initialisation, so deleting the reset is an equivalent change.
'''
ASSUMPTIONS = ['user code changes values only through add_value/add_cost']
MIN_INSTANCES = 25


def value_expr_hook(an, e, st, frame):
    """`<slot>.value` -> 'v:<token of the slot>'"""
    if isinstance(e, ast.Attribute) and e.attr == 'value' and is_self_attr(e.value) and e.value.attr in ('_part', '_output'):
        return 'v:' + an.ev(e.value, st, frame)
    if isinstance(e, ast.Attribute) and e.attr == 'value' and isinstance(e.value, ast.Name):
        from ..state import is_token
        b = an.ev(e.value, st, frame)         # a local alias of a slot (`received_part = self._part`) carries the slot's token
        if is_token(b):
            # read through an alias after the part was handed over: the receiver may already have changed its value
            return ('v-late:' if 'handed' in st.flags else 'v:') + b
    return NotImplemented


def tally_step(an, n, before, field):
    """a statement that updates the tally `self.<field>`: -> ('+' | '?', abstract value of the amount) or None.
    `self.f += v`, `self.f = self.f + v`, `self.f = v + self.f` (locals substituted) are the same step"""
    a = n.ast
    if n.kind != 'stmt':
        return None
    if isinstance(a, ast.AugAssign) and is_self_attr(a.target, field):
        return ('+' if isinstance(a.op, ast.Add) else '?'), an.ev(a.value, before, n.frame)
    if isinstance(a, ast.Assign) and any(is_self_attr(t, field) for t in a.targets):
        v = subst(a.value, FrameEnv(n.frame))
        if isinstance(v, ast.BinOp) and isinstance(v.op, ast.Add):
            for x, y, orig in ((v.left, v.right, a.value), (v.right, v.left, a.value)):
                if is_self_attr(x, field):
                    # evaluate the other operand where it stands in the source (so that aliases of a slot keep their token)
                    other = None
                    if isinstance(a.value, ast.BinOp) and isinstance(a.value.op, ast.Add):
                        other = a.value.right if (is_self_attr(a.value.left, field) or x is v.left) else a.value.left
                    return '+', an.ev(other if other is not None else y, before, n.frame)
        return '?', ast.unparse(a.value)
    return None


def check(ctx):
    P = ctx.P
    A = P.cls('Asset')
    N = Normalizer(P, A)
    obs = []

    # ---- C16.1 ----------------------------------------------------------------------------
    o = Ob('C16.1', 'K1+K2', 'add_value: zero change => nothing; otherwise value += change, then history gets (label, now, change, new total); '
                             'value and history have no other writer')
    obs.append(o)
    dv.check_defaults(ctx, o, [(k.name, '__init__', 'value') for k in P.classes.values() if 'value' in [a_.arg for a_ in (k.methods.get('__init__').args.args if k.methods.get('__init__') else [])]])
    g = ctx.graph(A, 'add_value')
    fn = P.method(A, 'add_value')[1]
    lp, vp = [a.arg for a in fn.args.args][1:3]

    def zero_refine(an, test, truth, st, frame):
        pol = cmp_polarity(N, test, None, {vp: 1}, '==')       # `value == 0`, `0 != value`, `not value == 0` ... in either polarity
        if pol:
            cur = st.locals.get((frame.id, '#zero'), TOP)
            want = 'T' if truth == (pol == 1) else 'F'
            if cur in ('T', 'F') and cur != want:
                return None
            s = st.copy()
            s.locals[(frame.id, '#zero')] = want
            return s
        return NotImplemented

    def hook(an, n, before, after):
        st = after
        a = n.ast
        if n.kind == 'stmt' and isinstance(a, ast.AugAssign) and is_self_attr(a.target, '_value'):
            good = isinstance(a.op, ast.Add) and ctext(a.value, FrameEnv(n.frame)) == vp        # (through a helper's parameter)
            st = st.with_flag(('changed2' if 'changed' in st.flags else 'changed') if good else 'changed-wrong')
        elif n.kind == 'stmt' and isinstance(a, ast.Assign) and any(is_self_attr(t, '_value') for t in a.targets):
            good = N.norm(a.value, FrameEnv(n.frame)).is_({'self._value': 1, vp: 1})
            st = st.with_flag(('changed2' if 'changed' in st.flags else 'changed') if good else 'changed-wrong')
        for cl in calls_at(an.g, n):
            if call_attr(cl) in ('append', 'insert') and is_self_attr(cl.func.value, '_value_history'):
                t = cl.args[0] if cl.args and call_attr(cl) == 'append' else None
                env_ = FrameEnv(n.frame)
                if isinstance(t, ast.Name):
                    r_ = env_.resolve(t.id)
                    if r_:
                        t, env_ = r_[0], (r_[1] if len(r_) > 1 and r_[1] is not None else env_)
                good = isinstance(t, ast.Tuple) and len(t.elts) == 4 and ctext(t.elts[0], env_) == lp and N.norm(t.elts[1], env_).is_({'NOW': 1}) \
                    and ctext(t.elts[2], env_) == vp and ctext(t.elts[3], env_) in ('self._value', 'self.value') and 'changed' in st.flags
                st = st.with_flag(('logged2' if 'logged' in st.flags else 'logged') if good else 'logged-wrong')
        return st
    an = Analysis(P, g, [])
    an.node_hooks.append(hook)
    an.refine_hooks.append(zero_refine)
    for z in 'TF':
        s0 = State({})
        s0.locals[(g.top.id, '#zero')] = z
        res = ctx.explore(an, [s0])
        o.require(res.exits(), 'Asset.add_value has no normal exit')
        for st in res.exits():
            o.count()
            fl = {f for f in st.flags}
            want = set() if z == 'T' else {'changed', 'logged'}
            o.witness(('add_value', z))
            if fl != want:
                o.fail(P, 'Asset.add_value', 'self._value += value; self._value_history.append((label, self._env.now, value, self._value))',
                       f'for a {"zero" if z == "T" else "non-zero"} change add_value does {sorted(fl) or "nothing"}; expected {sorted(want) or "nothing"} '
                       '(value += change once, then one history entry (label, now, change, new total))', file=A.mod.path, line=fn.lineno, path=res.path_lines(g.exit, st))
    # add_value is all-or-nothing on an asset that has no environment yet (Asset.initialize itself tests `_env == None`): the environment is
    # not dereferenced after the value was changed -- an AttributeError there leaves value != start + sum(history)
    o.count()
    mutn = [n for n in g.nodes.values() if n.kind == 'stmt' and isinstance(n.ast, (ast.Assign, ast.AugAssign))
            and any(is_self_attr(t, '_value') for t in (n.ast.targets if isinstance(n.ast, ast.Assign) else [n.ast.target]))]
    if mutn:
        later = g.reach([m for x in mutn for l, m in g.succ[x.id] if l != 'exc'], follow=lambda l: l != 'exc')
        for i in sorted(later):
            n = g.nodes[i]
            if n.ast is None or n.kind not in ('stmt', 'cond', 'return'):
                continue
            if any(isinstance(x, ast.Attribute) and (is_self_attr(x.value, '_env') or is_self_attr(x.value, 'env')) for x in ast.walk(n.ast)):
                o.fail(P, 'Asset.add_value', None, 'add_value changes the value and only then reads the environment (the time of the history entry): on an asset that is not initialised '
                       'yet the AttributeError leaves the new value without a history entry, so value != starting value + recorded changes', node=n)
                break
        else:
            o.witness('env-read-before-change')
    for s in inv.attr_stores(P, '_value'):
        o.count()
        if not (s.cls is A and s.func.name in inv.covered(P, {'__init__', 'initialize', 'add_value'})):
            o.fail(P, s.ctx, s.stmt, 'an asset value is written outside Asset.__init__/initialize/add_value', file=s.mod.path, line=s.line)
        else:
            o.witness(('value-writer', s.func.name))
    for s in inv.attr_uses(P, '_value_history'):
        role = s.extra['role']
        o.count()
        okh = (role[0] == 'store' and s.cls is A and s.func.name in inv.covered(P, {'__init__', 'initialize'})) or (role[0] == 'method' and role[1] == 'append' and s.cls is A and s.func.name in inv.covered(P, {'add_value'})) \
            or role[0] in ('return', 'iter', 'test', 'subscript-load') or (role[0] == 'method' and role[1] == 'copy') \
            or (role[0] == 'arg' and role[1] in inv.READ_ONLY_CALLEES)          # list(history), len(history), sum(...): builtins that only read
        if not okh:
            o.fail(P, s.ctx, s.stmt, f'the value history is changed outside add_value ({role[0]})', file=s.mod.path, line=s.line)
    for prop, want in (('value', 'self._value'), ('value_history', 'self._value_history')):
        o.count()
        pg = P.lookup_prop(A, prop, 'get')
        if not pg or ast.unparse(pg[1].body[-1]) != f'return {want}':
            o.fail(P, f'Asset.{prop}', f'return {want}', f'Asset.{prop} does not report the stored quantity', file=A.mod.path, line=A.node.lineno)
    # value / value_history / add_value / add_cost mean the same for every asset kind: the only redefinitions are the listed ones
    # (a Batch is worth the sum of its parts and refuses value changes of its own -- C16.6)
    ALLOWED_OVERRIDES = {('Batch', 'value'), ('Batch', 'add_value')}
    for k in P.subclasses(A):
        if k is A:
            continue
        for nm in ('value', 'value_history', 'add_value', 'add_cost', '_value', '_value_history'):
            defined = nm in k.methods or nm in getattr(k, 'props', {}) or any(
                isinstance(s_, ast.FunctionDef) and s_.name == nm for s_ in k.node.body) or any(
                isinstance(s_, ast.Assign) and any(isinstance(t, ast.Name) and t.id == nm for t in s_.targets) for s_ in k.node.body)
            if defined:
                o.count()
                if (k.name, nm) not in ALLOWED_OVERRIDES:
                    o.fail(P, f'{k.name}.{nm}', nm, f'{k.name} redefines `{nm}`: for this kind of asset the reported value no longer equals the starting value plus the recorded changes '
                           '(and every tally that reads it is off)', file=k.mod.path, line=k.node.lineno)
                else:
                    o.witness(('override', k.name, nm))
    # starting value kept for the reset
    init = P.method(A, '__init__')[1]
    o.count()
    vparam = [a.arg for a in init.args.args][2]
    # decided on the constructor's paths (helpers inlined): at every exit both the value and the kept starting value are the argument
    gi = ctx.graph(A, '__init__')
    ani = Analysis(P, gi, ['_value', '_initial_value'])
    s0 = State({'_value': TOP, '_initial_value': TOP})
    s0.locals[(gi.top.id, vparam)] = 'v0'
    resi = ctx.explore(ani, [s0])
    o.require(resi.exits(), 'Asset.__init__ has no normal exit')
    for st in resi.exits():
        if st.fields['_value'] != 'v0' or st.fields['_initial_value'] != 'v0':
            o.fail(P, 'Asset.__init__', f'self._value = self._initial_value = {vparam}', 'the starting value of an asset is not the constructor argument '
                   f'(at an exit of the constructor: _value holds {st.fields["_value"]}, _initial_value holds {st.fields["_initial_value"]})', file=A.mod.path, line=init.lineno,
                   path=resi.path_lines(gi.exit, st))
            break

    # ---- C16.2 -----------------------------------------------------------------------------------
    o = Ob('C16.2', 'K6', 'add_cost(label, cost) is add_value(label, -cost)')
    obs.append(o)
    fn = P.method(A, 'add_cost')[1]
    lp2, cp = [a.arg for a in fn.args.args][1:3]
    calls = [x for x in ast.walk(fn) if isinstance(x, ast.Call) and call_attr(x) == 'add_value' and is_self_attr(x.func)]
    o.count()
    if len(calls) != 1 or len(calls[0].args) != 2 or ast.unparse(calls[0].args[0]) != lp2 or not N.norm(calls[0].args[1]).is_({cp: -1}):
        o.fail(P, 'Asset.add_cost', f'self.add_value({lp2}, -{cp})', 'a cost must decrease the value by exactly the cost, through add_value', file=A.mod.path, line=fn.lineno)
    else:
        o.witness('add_cost')
        o.sample({'add_cost': ast.unparse(calls[0])})
    for c in P.subclasses(A):
        if c is not A and 'add_cost' in c.methods:
            o.count()
            o.fail(P, f'{c.name}.add_cost', 'add_cost', 'a subclass overrides add_cost', file=c.mod.path, line=c.methods['add_cost'].lineno)

    # ---- C16.3 source ----------------------------------------------------------------------------------
    o = Ob('C16.3', 'K4', 'Source: on exactly the hand-over paths, add_cost and the cost tally are each applied once with the part value read before the hand-over')
    obs.append(o)
    if P.has_cls('Source'):
        c = P.cls('Source')
        g = ctx.graph(c, '_pass_part_downstream', opaque=('add_cost', 'add_value'))

        def hook3(an, n, before, after):
            st = after
            a = n.ast
            for cl in calls_at(an.g, n):
                if call_attr(cl) in ('add_cost', 'add_value') and is_self_attr(cl.func) and len(cl.args) == 2:
                    v = an.ev(cl.args[1], before, n.frame)
                    st = st.with_flag(f'{call_attr(cl)}:{v}' + ('#2' if f'{call_attr(cl)}:{v}' in st.flags else ''))
            t = tally_step(an, n, before, '_cost_of_produced_parts')
            if t:
                k = f'tally{t[0]}:{t[1]}'
                st = st.with_flag(k + ('#2' if k in st.flags else ''))
            return st

        def edge3(an, n, label, st):
            if n.kind == 'cond' and label == 'T' and foreign_deleg_call(an.g, n, n.ast):
                return st.with_flag('handed')
            return st
        an = Analysis(P, g, ['_part', '_output', '_block_input', '_is_shut_down'], call_models={'generate_part': 'new'})
        an.expr_hooks.append(value_expr_hook)
        an.node_hooks.append(hook3)
        an.edge_hooks.append(edge3)
        for ov in ('N', 'o0'):
            res = ctx.explore(an, [State({'_part': 'N', '_output': ov, '_block_input': 'F', '_is_shut_down': 'F'})])
            for st in res.exits():
                o.count()
                acc = sorted(f for f in st.flags if f.split(':')[0] in ('add_cost', 'add_value', 'tally+', 'tally?'))
                want = ['add_cost:v:o0', 'tally+:v:o0'] if 'handed' in st.flags else []
                if 'handed' in st.flags:
                    o.witness('handed')
                if acc != want:
                    o.fail(P, 'Source._pass_part_downstream', 'self.add_cost(..., supplied_part_value); self._cost_of_produced_parts += supplied_part_value',
                           f'on a path where the part {"left" if "handed" in st.flags else "stayed"} the value bookkeeping is {acc or "nothing"}; expected {want or "nothing"} '
                           '(v:o0 = value of the output part read before the hand-over)', file=c.mod.path, line=P.method(c, '_pass_part_downstream')[1].lineno,
                           path=res.path_lines(g.exit, st))
        pg = P.lookup_prop(c, 'cost_of_produced_parts', 'get')
        o.count()
        if not pg or ast.unparse(pg[1].body[-1]) != 'return self._cost_of_produced_parts':
            o.fail(P, 'Source.cost_of_produced_parts', 'return self._cost_of_produced_parts', 'the tally is not reported', file=c.mod.path, line=c.node.lineno)
        for s in inv.attr_stores(P, '_cost_of_produced_parts'):
            o.count()
            if not (s.cls is c and s.func.name in inv.covered(P, {'__init__', '_pass_part_downstream'})):
                o.fail(P, s.ctx, s.stmt, 'the cost tally is written outside its owner', file=s.mod.path, line=s.line)

    # ---- C16.4 sink ---------------------------------------------------------------------------------------
    o = Ob('C16.4', 'K4', 'Sink: per accepted part, the tally and the own value are each credited once with the value of that part')
    obs.append(o)
    if P.has_cls('Sink'):
        c = P.cls('Sink')
        g = ctx.graph(c, 'give_part', opaque=('add_cost', 'add_value'))

        def hook4(an, n, before, after):
            st = after
            a = n.ast
            for cl in calls_at(an.g, n):
                if call_attr(cl) in ('add_cost', 'add_value') and is_self_attr(cl.func) and len(cl.args) == 2:
                    v = an.ev(cl.args[1], before, n.frame)
                    k = f'{call_attr(cl)}:{v}'
                    st = st.with_flag(k + ('#2' if k in st.flags else ''))
            t = tally_step(an, n, before, '_value_of_received_parts')
            if t:
                k = f'tally{t[0]}:{t[1]}'
                st = st.with_flag(k + ('#2' if k in st.flags else ''))
            if n.kind == 'stmt' and isinstance(a, ast.Assign) and any(is_self_attr(t, '_part') for t in a.targets) and an.ev(a.value, before, n.frame) == 'arg':
                st = st.with_flag('accepted')
            return st
        an = Analysis(P, g, ['_part', '_output', '_block_input', '_is_shut_down'])
        an.expr_hooks.append(value_expr_hook)
        an.node_hooks.append(hook4)
        for pv in ('N', 'p0'):
            s0 = State({'_part': pv, '_output': 'N', '_block_input': 'F', '_is_shut_down': 'F'})
            s0.locals[(g.top.id, 'part')] = 'arg'
            res = ctx.explore(an, [s0])
            for st in res.exits():
                o.count()
                acc = sorted(f for f in st.flags if f.split(':')[0] in ('add_cost', 'add_value', 'tally+', 'tally?'))
                want = ['add_value:v:arg', 'tally+:v:arg'] if 'accepted' in st.flags else []
                if 'accepted' in st.flags:
                    o.witness('accepted')
                if acc != want:
                    o.fail(P, 'Sink.give_part', "self._value_of_received_parts += self._part.value; self.add_value('collected_part', self._part.value)",
                           f'for a part that is {"accepted" if "accepted" in st.flags else "refused"} the value bookkeeping is {acc or "nothing"}; expected {want or "nothing"}',
                           file=c.mod.path, line=c.node.lineno, path=res.path_lines(g.exit, st))
        pg = P.lookup_prop(c, 'value_of_received_parts', 'get')
        o.count()
        if not pg or ast.unparse(pg[1].body[-1]) != 'return self._value_of_received_parts':
            o.fail(P, 'Sink.value_of_received_parts', 'return self._value_of_received_parts', 'the tally is not reported', file=c.mod.path, line=c.node.lineno)
        for s in inv.attr_stores(P, '_value_of_received_parts'):
            o.count()
            if s.cls is not c:
                o.fail(P, s.ctx, s.stmt, 'the sink tally is written outside Sink', file=s.mod.path, line=s.line)

    # ---- C16.5 maintainer ------------------------------------------------------------------------------------
    o = Ob('C16.5', 'K2', 'a maintainer charges the cost reported by the target exactly once per started order, and nowhere else')
    obs.append(o)
    if P.has_cls('Maintainer'):
        from .c12 import seq_check
        M = P.cls('Maintainer')
        NM = Normalizer(P, M)
        seq_check(ctx, M, '_start_work_order', o, NM, need={'cost': 1}, forbid=())
        for s in inv.method_calls(P, 'add_cost') + inv.method_calls(P, 'add_value'):
            if s.cls is M:
                o.count()
                if s.func.name not in inv.covered(P, {'_start_work_order'}):
                    o.fail(P, s.ctx, s.node, 'the maintainer changes its value outside the start of an order', file=s.mod.path, line=s.line)

    # ---- C16.6 batch and system -----------------------------------------------------------------------------------
    o = Ob('C16.6', 'K6', 'Batch.value is the sum of the values of its parts and Batch.add_value raises; System.get_net_value_of_assets sums .value over the registered assets')
    obs.append(o)
    if P.has_cls('Batch'):
        c = P.cls('Batch')
        pg = P.lookup_prop(c, 'value', 'get')
        o.count()
        okb = False
        if pg and pg[0] is c:
            r = pg[1].body[-1]
            if isinstance(r, ast.Return) and isinstance(r.value, ast.Call) and ast.unparse(r.value.func) == 'sum' and len(r.value.args) == 1 \
                    and isinstance(r.value.args[0], (ast.ListComp, ast.GeneratorExp)):
                lc = r.value.args[0]
                gen = lc.generators[0]
                okb = len(lc.generators) == 1 and not gen.ifs and ast.unparse(gen.iter) == 'self.parts' and isinstance(gen.target, ast.Name) and ast.unparse(lc.elt) == f'{gen.target.id}.value'
        if not okb:
            o.fail(P, 'Batch.value', 'return sum([x.value for x in self.parts])', 'a batch is not worth the sum of its parts', file=c.mod.path, line=c.node.lineno)
        else:
            o.witness('batch-value')
        o.count()
        if 'add_value' not in c.methods or not any(isinstance(x, ast.Raise) for x in c.methods['add_value'].body):
            o.fail(P, 'Batch.add_value', 'raise NotImplementedError', 'a batch must refuse value changes of its own', file=c.mod.path, line=c.node.lineno)
        else:
            o.witness('batch-add_value')
    S = P.cls('System')
    fn = P.method(S, 'get_net_value_of_assets')[1]
    o.count()
    r = [x for x in ast.walk(fn) if isinstance(x, ast.Return)]       # every way out, not only the last statement
    oks = via_find = False
    from ..norm import single_defs
    rv = subst(r[0].value, single_defs(fn)) if len(r) == 1 and r[0].value is not None else None      # a local naming the filtered registry is that registry
    if rv is not None and isinstance(rv, ast.Call) and ast.unparse(rv.func) == 'sum' and len(rv.args) == 1 and isinstance(rv.args[0], (ast.GeneratorExp, ast.ListComp)):
        lc = rv.args[0]
        gen = lc.generators[0]
        it_ = gen.iter
        # the registry itself, or the registry filtered by find_assets(subtype=Asset) (what that filter keeps is decided by C20.6)
        via_find = isinstance(it_, ast.Call) and ast.unparse(it_.func) == 'self.find_assets' and not it_.args and len(it_.keywords) == 1 \
            and it_.keywords[0].arg == 'subtype' and ast.unparse(it_.keywords[0].value) == 'Asset'
        oks = len(lc.generators) == 1 and (ast.unparse(it_) == 'self._assets' or via_find) and isinstance(gen.target, ast.Name) and ast.unparse(lc.elt) == f'{gen.target.id}.value' \
            and all(ast.unparse(i) == f'isinstance({gen.target.id}, Asset)' for i in gen.ifs)
    if not oks:
        o.fail(P, 'System.get_net_value_of_assets', 'return sum(x.value for x in self._assets if isinstance(x, Asset))', 'the net value is not the sum of the values of the registered assets',
               file=S.mod.path, line=fn.lineno)
    else:
        o.witness('net-value')
        if via_find:
            obs.append(ctx.shared('c20', 'C20.6', 'C16.7', 'the net value is summed over self.find_assets(subtype=Asset): it is the sum over the registered assets of this system only if '
                                  'that look-up returns exactly the registered assets of the system it is called on'))
    return obs


CLAIM = {
    'technique': 'static analysis: typestate of Asset.add_value (zero/non-zero split), value-token pairing on the source hand-over and sink '
                 'acceptance paths, who-may-write inventories, AST normal forms of the summations',
    'level_text': 'Value changes go through one audited method and each tally is updated together with it, once, with the value read at the right '
                  'moment, on every path; the identities over whole runs are not computed.',
    'level_note': 'User code changes values only through add_value/add_cost.',
}
