"""C09 -- resource pools: usage equals outstanding reservations; requests are atomic."""
import ast

from .. import AnalysisError
from ..report import Ob
from ..cfg import calls_at, call_attr, is_self_attr, own_exprs, walk_now
from ..state import Analysis, State, TOP
from ..norm import Normalizer, cmp_norm, cmp_polarity, FrameEnv, Lin, single_defs, subst
from .. import inventory as inv
from .. import devices as dv

EXPLANATION = '''
Static analysis of simprocesd/model/resource_manager.py (ResourceManager and ReservedResources).
Decided: (C09.1) in every public pool operation no explicit raise is reachable after the first mutation of the pool
table, of a reservation's holdings or of the waiting list (validation precedes mutation); (C09.2) in
ReservedResources.release every holdings access after the first mutation is protected by a guard that implies the guard
under which the same key was validated before the mutation; (C09.3) every store of a capacity component is provably
non-negative from the guard literals of its path (capacity >= 0 inductively); (C09.4) the bookkeeping normal forms:
reserve (in_use + amount, cap), release (in_use - amount, cap), add (in_use, cap + amount), holdings -= amount on release
and += amount on merge with the source emptied; (C09.5) reserve_resources mutates only on the true edge of the
feasibility test, which refuses exactly when cap - in_use - requested < 0 or the resource is unknown, and the returned
reservation holds exactly the positive entries that were taken; (C09.6) release raises for a negative amount and for
reserved - amount < 0, the latter skipped only for amount == 0; (C09.7) pool entries are never deleted and
ReservedResources objects are created only by reserve_resources.
NOT decided: usage == sum of outstanding holdings over a history (needs the heap relation between the manager and all
reservation objects), non-negativity of usage.
'''
ASSUMPTIONS = ['amounts are real numbers (no NaN)', 'callers do not mutate ReservedResources._reserved_resources directly']
MIN_INSTANCES = 60

POOL_FIELDS = {'_resources', '_reserved_resources', '_waiting_requests'}


def _unwrap_snapshot(e):
    """`list(x)` / `tuple(x)` / `x.copy()` iterate the same entries as x (a snapshot taken because the loop edits the mapping)"""
    while True:
        if isinstance(e, ast.Call) and isinstance(e.func, ast.Name) and e.func.id in ('list', 'tuple') and len(e.args) == 1 and not e.keywords:
            e = e.args[0]
        elif isinstance(e, ast.Call) and isinstance(e.func, ast.Attribute) and e.func.attr == 'copy' and not e.args:
            e = e.func.value
        else:
            return e


def _loop_escapes(loop):
    return any(isinstance(x, (ast.Break, ast.Continue, ast.Return)) for x in ast.walk(loop))


def is_mutation(g, n):
    a = n.ast
    if n.kind != 'stmt' or a is None:
        return False
    tg = []
    if isinstance(a, ast.Assign):
        tg = a.targets
    elif isinstance(a, ast.AugAssign):
        tg = [a.target]
    elif isinstance(a, ast.Delete):
        tg = a.targets
    for t in tg:
        base = t
        while isinstance(base, ast.Subscript):
            base = base.value
        if isinstance(base, ast.Attribute) and base.attr in POOL_FIELDS and (isinstance(t, ast.Subscript) or isinstance(a, ast.Delete)):
            return True
        if isinstance(base, ast.Attribute) and base.attr in POOL_FIELDS and not isinstance(base.value, ast.Name):
            return True         # other._reserved_resources = {}
        if isinstance(t, ast.Attribute) and t.attr in POOL_FIELDS and isinstance(t.value, ast.Name) and t.value.id != 'self':
            return True
    for cl in calls_at(g, n):
        f = cl.func
        if isinstance(f, ast.Attribute):
            if f.attr in ('append', 'pop', 'insert', 'remove', 'clear', 'update', 'setdefault', 'extend') and isinstance(f.value, ast.Attribute) and f.value.attr in POOL_FIELDS:
                return True
            if f.attr == '_release_resources' and not is_self_attr(f):
                return True
    return False


def check(ctx):
    P = ctx.P
    RM = P.cls('ResourceManager')
    RR = P.cls('ReservedResources')
    obs = []

    # ---- C09.1 raise after mutation ------------------------------------------------------------
    o = Ob('C09.1', 'K10a', 'in add_resources, reserve_resources, reserve_resources_with_callback, release, merge: no explicit raise is reachable after the first mutation')
    obs.append(o)
    ops = [(RM, 'add_resources'), (RM, 'reserve_resources'), (RM, 'reserve_resources_with_callback'), (RM, '_release_resources'), (RR, 'release'), (RR, 'merge')]
    nmut = 0
    for c, op in ops:
        if not P.has_method(c, op):
            raise AnalysisError(f'anchor {c.name}.{op} not found')
        g = ctx.graph(c, op)
        muts = [n for n in g.nodes.values() if is_mutation(g, n)]
        # a call of a pool operation of the same object that was not inlined (the operation calling itself, e.g. once per entry of a
        # dictionary argument) both changes state and can raise
        op_names = {nm for k, nm in ops if k is c}
        nested = [n for n in g.nodes.values() if any(call_attr(cl) in op_names and is_self_attr(cl.func) for cl in calls_at(g, n))]
        has_raise = any(x.kind == 'raise' and not isinstance(x.ast, ast.Assert) for x in g.nodes.values())
        muts += [n for n in nested if n not in muts]
        nmut += len(muts)
        o.count(max(1, len(muts)))
        if muts:
            o.witness((c.name, op))
        after = g.reach([m for x in muts for _, m in g.succ[x.id]], follow=lambda l: True) if muts else set()
        for n in nested:
            if has_raise and n.id in after:
                first = min(muts, key=lambda x: x.line or 0)
                o.fail(P, f'{c.name}.{op}', None, f'the operation applies itself entry by entry: a later entry can be rejected (raise) after earlier entries have already changed state '
                       f'(first change at line {first.line}): a failing call is not all-or-nothing', node=n)
        for i in sorted(after):
            n = g.nodes[i]
            if n.kind == 'raise' and g.raise_exit in g.reach([i], follow=lambda l: True):
                if isinstance(n.ast, ast.Assert):
                    continue
                first = min(muts, key=lambda x: x.line or 0)
                o.fail(P, f'{c.name}.{op}', None, f'an error can be raised after the operation has already changed state (first mutation at line {first.line}: `{first.src()}`): a failing call is not all-or-nothing',
                       node=n, path=[f'{P.rel(first.file)}:{first.line} mutation: {first.src()}', f'{P.rel(n.file)}:{n.line} raise: {n.src()}'])
        o.sample({'operation': f'{c.name}.{op}', 'mutation_sites': [f'{x.line}: {x.src()[:60]}' for x in muts]})
    o.require(nmut >= 8, f'only {nmut} mutation sites recognised in the pool operations (expected >= 8)')

    # ---- C09.8 the environment may be absent ---------------------------------------------------------------
    o8 = Ob('C09.8', 'K10c', 'a manager that is not initialised yet (no environment: the class itself tests `_env != None` in add_resources) never dereferences the '
                             'environment after it has changed a pool or the waiting list: an AttributeError there leaves the operation half done')
    obs.append(o8)
    guarded_somewhere = any(isinstance(x, ast.Compare) and any(is_self_attr(y, '_env') for y in [x.left] + x.comparators)
                            and any(isinstance(y, ast.Constant) and y.value is None for y in [x.left] + x.comparators)
                            for _k, _n, f_ in RM.all_functions() for x in ast.walk(f_))
    o8.count()
    if guarded_somewhere:
        o8.witness('class-tests-env-for-None')
        for c, op in ops:
            if c is not RM:
                continue
            g = ctx.graph(c, op)

            def h8(an_, n, before, after, g=g):
                st = after
                if is_mutation(g, n):
                    st = st.with_flag('mutated')
                if before.fields.get('_env') == 'N' and n.ast is not None and n.kind in ('stmt', 'cond', 'return'):
                    roots = own_exprs(n) if n.kind != 'stmt' else [n.ast]
                    if any(isinstance(x, ast.Attribute) and is_self_attr(x.value, '_env') for r_ in roots for x in ast.walk(r_)):
                        st = st.with_flag('DEREF-AFTER-MUTATION' if 'mutated' in st.flags else 'deref-before')
                return st
            an8 = Analysis(P, g, ['_env'])
            an8.node_hooks.append(h8)
            res8 = ctx.explore(an8, [State({'_env': 'N'})], follow_exc=False)
            reported = False
            for nid, states in res8.seen.items():
                for k_, (st, parent) in states.items():
                    if 'DEREF-AFTER-MUTATION' in st.flags and not reported:
                        n = g.nodes[nid]
                        # report at the first node at which the flag appears
                        ps = res8.path(nid, st)
                        first = next((x for x in ps if x.ast is not None and any(isinstance(y, ast.Attribute) and is_self_attr(y.value, '_env') for y in ast.walk(x.ast)) and x.kind in ('stmt', 'cond', 'return')), n)
                        mut = next((x for x in ps if is_mutation(g, x)), None)
                        if mut is not None and ps.index(first) < ps.index(mut):
                            later = [x for x in ps[ps.index(mut):] if x.ast is not None and x.kind in ('stmt', 'cond', 'return') and any(isinstance(y, ast.Attribute) and is_self_attr(y.value, '_env') for y in ast.walk(x.ast))]
                            first = later[0] if later else first
                        o8.fail(P, f'{c.name}.{op}', None, f'on a manager that has no environment yet {op} changes state (line {mut.line if mut else "?"}) and then uses self._env: '
                                'the AttributeError leaves the change in place (an operation that raises must change nothing)', node=first,
                                path=res8.path_lines(nid, st))
                        reported = True
            o8.count()
            if not reported:
                o8.witness((op, 'ok'))

    # ---- C09.2 fallible access after mutation --------------------------------------------------------
    o = Ob('C09.2', 'K10b', 'ReservedResources.release: a holdings access after the first mutation is guarded by a condition implying the guard under which '
                            'the same key was validated (inside try/except KeyError) before the mutation')
    obs.append(o)
    fallible_after_mutation(ctx, RR, 'release', '_reserved_resources', o)

    # ---- C09.3 capacity never negative -------------------------------------------------------------------
    o = Ob('C09.3', 'K2+K6', 'every store of a capacity component is provably >= 0 from the guard literals of its path (capacity >= 0 inductively)')
    obs.append(o)
    capacity_sign(ctx, RM, o)

    # ---- C09.4 bookkeeping normal forms ---------------------------------------------------------------------
    o = Ob('C09.4', 'K6', 'bookkeeping: reserve (in_use + amount, cap); release (in_use - amount, cap); add (in_use, cap + amount) / new (0, amount); '
                          'holdings -= amount on release, += amount on merge, source emptied')
    obs.append(o)
    N = Normalizer(P, RM)
    # every entry is visited: a loop that updates the pool table per entry is left only by exhaustion (a `break` or `return` inside it -- say
    # at the first zero amount -- leaves the later entries of the same request unreleased / unreserved)
    for op_ in ('reserve_resources', '_release_resources'):
        g_ = ctx.graph(RM, op_)
        for h_ in [n_ for n_ in g_.nodes.values() if n_.kind == 'for']:
            body_ = g_.reach_edges([m_ for l_, m_ in g_.succ[h_.id] if l_ == 'T'], cut_edges={(h_.id, 'T'), (h_.id, 'F')})
            writes_ = [n_ for n_ in pool_stores(g_) if n_.id in body_]
            if not writes_:
                continue
            o.count()
            # normal exits only: an explicit raise out of the loop is the business of C09.1 (raise after mutation)
            if g_.exit in body_:
                o.fail(P, f'ResourceManager.{op_}', None, f'the loop of {op_} that updates the pools can be left from inside its body (break / return): the remaining entries of '
                       'the request are not processed, so usage and holdings disagree afterwards', node=h_)
            else:
                o.witness((op_, 'all-entries'))
    want = {'reserve_resources': ('in_use + amount', 'cap'), '_release_resources': ('in_use - amount', 'cap'), 'add_resources': ('in_use', 'cap + amount')}
    for op, (wu, wc) in want.items():
        fn = P.method(RM, op)[1]
        g, sym, res = explore_symbolic(ctx, RM, op)
        stores = pool_stores(g)
        o.count()
        if not stores:
            o.fail(P, f'ResourceManager.{op}', f'self._resources[name] = ({wu}, {wc})', 'the operation never updates the pool table', file=RM.mod.path, line=fn.lineno)
        for n in stores:
            for st in res.at(n.id):
                o.count()
                pr = sym.pair(n.ast.value, st, n.frame)
                key = sym.atom_text(n.ast.targets[0].slice, st, n.frame)
                if pr is None or key is None:
                    o.fail(P, f'ResourceManager.{op}', n.ast, 'a pool entry must be stored as (in use, capacity)', node=n, path=res.path_lines(n.id, st))
                    continue
                u, cap = pr
                U, C = f'self._resources[{key}][0]', f'self._resources[{key}][1]'
                # the amount is whatever is neither the old entry nor a constant: the operation's own parameter or the loop variable
                others = sorted({k for k in list(u.terms) + list(cap.terms) if k not in (U, C)})
                amount = others[0] if len(others) == 1 else 'amount'
                forms = {'in_use': {U: 1}, 'in_use + amount': {U: 1, amount: 1}, 'in_use - amount': {U: 1, amount: -1}, 'cap': {C: 1}, 'cap + amount': {C: 1, amount: 1}}
                new_entry = op == 'add_resources' and u.is_({}, 0) and cap.is_({amount: 1}) and len(others) == 1
                if new_entry:
                    o.witness((op, 'new-entry'))
                    continue
                if not (u.is_(forms[wu]) and cap.is_(forms[wc])):
                    o.fail(P, f'ResourceManager.{op}', n.ast, f'{op} must store ({wu}, {wc}) for the entry it read; found ({u.key()}, {cap.key()})', node=n, path=res.path_lines(n.id, st))
                else:
                    o.witness((op, 'update'))
                    o.sample({'operation': op, 'store': n.src(), 'normal_form': f'({u.key()}, {cap.key()})', 'line': n.line})
    # holdings: decided on the supergraphs of release / merge (helpers inlined, local aliases of the holdings dict rebased, locals substituted)
    NR = Normalizer(P, RR)

    def holding_stores(g):
        """(node, key expr, new-value Lin, frame env) for every `self._reserved_resources[k] = v` / `[k] op= v` in the graph"""
        out = []
        for n in g.nodes.values():
            if n.kind != 'stmt' or not isinstance(n.ast, (ast.Assign, ast.AugAssign)):
                continue
            t = n.ast.targets[0] if isinstance(n.ast, ast.Assign) else n.ast.target
            env = FrameEnv(n.frame)
            if not (isinstance(t, ast.Subscript) and is_self_attr(subst(t.value, env), '_reserved_resources')):
                continue
            if isinstance(n.ast, ast.AugAssign):
                val = ast.BinOp(left=ast.Subscript(value=t.value, slice=t.slice, ctx=ast.Load()), op=n.ast.op, right=n.ast.value)
            else:
                val = n.ast.value
            out.append((n, ast.unparse(subst(t.slice, env)), NR.norm(subst(val, env), env), env))
        return out

    def entry_loops(g, mapping_text):
        """for-nodes `for k, a in <mapping>.items()` (mapping spelled through frames) -> [(node, k, a)]"""
        out = []
        for n in g.nodes.values():
            if n.kind == 'for' and isinstance(n.ast.target, ast.Tuple) and len(n.ast.target.elts) == 2 and all(isinstance(e, ast.Name) for e in n.ast.target.elts):
                if ast.unparse(_unwrap_snapshot(subst(n.ast.iter, FrameEnv(n.frame)))) == f'{mapping_text}.items()':
                    out.append((n, n.ast.target.elts[0].id, n.ast.target.elts[1].id))
        return out

    fn = P.method(RR, 'release')[1]
    pn = fn.args.args[1].arg
    g = ctx.graph(RR, 'release')
    stores = holding_stores(g)
    loops = entry_loops(g, pn)
    o.count()
    okr = bool(stores) and bool(loops)
    for n, key, lin, env in stores:
        mine = [(k, a) for ln, k, a in loops if ln.frame is n.frame]
        if not any(key == k and lin.is_({f'self._reserved_resources[{k}]': 1, a: -1}) for k, a in mine):
            okr = False
            o.fail(P, 'ReservedResources.release', n.ast, 'a release must reduce the holdings of each resource by exactly the released amount '
                   f'(found `{key}` := {lin.key()})', node=n)
    if not stores or not loops:
        o.fail(P, 'ReservedResources.release', 'self._reserved_resources[resource_name] -= amount',
               'a release must reduce the holdings of each resource by exactly the released amount', file=RR.mod.path, line=fn.lineno)
    elif okr:
        o.witness('holdings-release')
    # release passes to the manager exactly what it validated / reduces
    o.count()
    rel = [(n, c) for n in g.nodes.values() for c in calls_at(g, n) if call_attr(c) == '_release_resources']
    if len(rel) != 1 or [ast.unparse(subst(a_, FrameEnv(rel[0][0].frame))) for a_ in rel[0][1].args] != [pn] \
            or ast.unparse(subst(rel[0][1].func.value, FrameEnv(rel[0][0].frame))) != 'self._resource_manager':
        o.fail(P, 'ReservedResources.release', 'self._resource_manager._release_resources(resources)', 'the pools must be given back exactly the amounts being released',
               file=RR.mod.path, line=fn.lineno)
    else:
        o.witness('give-back')
    fn = P.method(RR, 'merge')[1]
    o.count()
    other = fn.args.args[1].arg
    g = ctx.graph(RR, 'merge')
    empt = [n for n in g.nodes.values() if n.kind == 'stmt' and isinstance(n.ast, ast.Assign)
            and ast.unparse(subst(n.ast.targets[0], FrameEnv(n.frame))) == f'{other}._reserved_resources' and isinstance(n.ast.value, ast.Dict) and not n.ast.value.keys]
    loops = entry_loops(g, f'{other}._reserved_resources')
    kinds = []
    if len(loops) == 1:
        ln, kv, av = loops[0]
        for n, key, newv, env in holding_stores(g):
            if key != kv:
                kinds.append('wrong-key')
                continue
            old_ = f'self._reserved_resources[{kv}]'
            if newv.is_({old_: 1, av: 1}):
                kinds.append('add')
            elif newv.is_({av: 1}):
                kinds.append('new')
            elif newv.is_({f'self._reserved_resources.get({kv}, 0)': 1, av: 1}):
                kinds += ['add', 'new']
            else:
                kinds.append('other:' + newv.key())
    okm = len(loops) == 1 and len(empt) == 1 and set(kinds) == {'add', 'new'} and not _loop_escapes(loops[0][0].ast)
    if not okm:
        o.fail(P, 'ReservedResources.merge', 'self._reserved_resources[name] += amount ... other._reserved_resources = {}',
               'merge must add every holding of the other reservation to this one and leave the other one empty'
               + (f' (stores found: {kinds})' if kinds else ''), file=RR.mod.path, line=fn.lineno)
    else:
        o.witness('merge')
        # the emptying happens after the loop, on every path
        if g.exit in g.reach([loops[0][0].id], avoid={empt[0].id}, follow=lambda l: l != 'exc'):
            o.fail(P, 'ReservedResources.merge', empt[0].ast, 'the merged reservation is not emptied on every path (its amounts would be released twice)', node=empt[0])
    rp = P.lookup_prop(RR, 'reserved_resources', 'get')
    o.count()
    if not rp or 'self._reserved_resources' not in ast.unparse(rp[1].body[-1]):
        o.fail(P, 'ReservedResources.reserved_resources', 'return copy.deepcopy(self._reserved_resources)', 'reserved_resources does not report the holdings', file=RR.mod.path, line=RR.node.lineno)
    for nm, idx in (('get_resource_usage', 0), ('get_resource_capacity', 1)):
        fn = P.method(RM, nm)[1]
        o.count()
        k = fn.args.args[1].arg
        known = lookup_cases(fn, 'self._resources', k, True)
        unknown = lookup_cases(fn, 'self._resources', k, False)
        if known != {f'self._resources[{k}][{idx}]'}:
            o.fail(P, f'ResourceManager.{nm}', f'return self._resources[{k}][{idx}]', f'{nm} does not report component {idx} of the pool entry'
                   + (f' (for a known resource it returns {sorted(known)})' if known else ''), file=RM.mod.path, line=fn.lineno)
        elif unknown != {'0.0'}:
            o.fail(P, f'ResourceManager.{nm}', 'return 0.0', f'{nm} does not report 0.0 for a resource that was never added (it returns {sorted(unknown)})', file=RM.mod.path, line=fn.lineno)
        else:
            o.witness(nm)

    # ---- C09.5 all-or-nothing reservation -------------------------------------------------------------------------
    o = Ob('C09.5', 'K2+K6', 'reserve_resources changes pools only on the true edge of the feasibility test over the positive entries; the test refuses iff '
                             'cap - in_use - requested < 0 or the resource is unknown; the reservation holds exactly the entries taken')
    obs.append(o)
    reserve_shape(ctx, RM, o)

    # ---- C09.6 release validation ---------------------------------------------------------------------------------------
    o = Ob('C09.6', 'K2+K6', 'release(resources): a negative amount raises; reserved - amount < 0 raises, skipped only for amount == 0; unknown resource raises')
    obs.append(o)
    release_validation(ctx, RR, o)

    # ---- C09.7 ----------------------------------------------------------------------------------------------------------------
    o = Ob('C09.7', 'K1', 'pool entries are never deleted; ReservedResources objects are created only by ResourceManager.reserve_resources; the pool table has no other writer')
    obs.append(o)
    for s in inv.attr_uses(P, '_resources'):
        role = s.extra['role']
        o.count()
        if role[0] in ('del', 'subscript-del') or (role[0] == 'method' and role[1] in ('pop', 'popitem', 'clear', 'update', 'setdefault')):
            o.fail(P, s.ctx, s.stmt, 'a pool entry is deleted or replaced wholesale', file=s.mod.path, line=s.line)
        elif role[0] == 'store' and not (s.cls is RM and s.func.name == '__init__'):
            o.fail(P, s.ctx, s.stmt, 'the pool table is re-bound after construction', file=s.mod.path, line=s.line)
        elif role[0] == 'subscript-store':
            if s.cls is not RM or s.func.name not in inv.covered(P, {'add_resources', 'reserve_resources', '_release_resources'}):
                o.fail(P, s.ctx, s.stmt, 'a pool entry is written outside add/reserve/release', file=s.mod.path, line=s.line)
            else:
                o.witness(s.ctx)
    for s in inv.name_calls(P, 'ReservedResources'):
        o.count()
        if not (s.cls is RM and s.func.name == 'reserve_resources'):
            o.fail(P, s.ctx, s.node, 'a reservation object is created outside reserve_resources (it would hold amounts that were never taken)', file=s.mod.path, line=s.line)
        else:
            o.witness('ctor')
    obs.append(merge_partners(ctx, RR))
    obs.append(dv.falsy_default_obligation(ctx, 'C09.9', ['ResourceManager', 'ReservedResources'], 'amounts are the numbers given (0 is a legal amount)'))
    return obs


# ---------------------------------------------------------------------------

def enclosing_guards(fn, node):
    """guards (test ast, truth) under which `node` is evaluated inside fn: enclosing ifs, preceding `if c: continue/return/raise`
    in the same block, and earlier operands of a short-circuit and/or"""
    parents = {}
    for n in ast.walk(fn):
        for ch in ast.iter_child_nodes(n):
            parents[ch] = n
    out = []
    cur = node
    while cur is not fn and cur in parents:
        p = parents[cur]
        if isinstance(p, ast.BoolOp):
            idx = next(i for i, v in enumerate(p.values) if v is cur)
            for v in p.values[:idx]:
                out.append((v, isinstance(p.op, ast.And)))
        if isinstance(p, (ast.If, ast.While)):
            def conj(t, truth):
                # a conjunction taken true gives every conjunct; a disjunction taken false gives the negation of every disjunct
                if isinstance(t, ast.BoolOp) and isinstance(t.op, ast.And) == truth:
                    for v in t.values:
                        conj(v, truth)
                elif isinstance(t, ast.UnaryOp) and isinstance(t.op, ast.Not):
                    conj(t.operand, not truth)
                else:
                    out.append((t, truth))
            if cur in p.body:
                conj(p.test, True)
            elif cur in p.orelse:
                conj(p.test, False)
        for field in ('body', 'orelse', 'finalbody'):
            blk = getattr(p, field, None)
            if isinstance(blk, list) and cur in blk:
                for prev in blk[:blk.index(cur)]:
                    if isinstance(prev, ast.If) and not prev.orelse and prev.body and isinstance(prev.body[-1], (ast.Continue, ast.Return, ast.Raise, ast.Break)):
                        out.append((prev.test, False))
        cur = p
    return out


def lit(N, test, truth, env=None):
    r = cmp_norm(N, test, env, truth)
    return r


def implies(N, have, want):
    """does the conjunction of literals `have` imply the single literal `want` (both (Lin, op))?"""
    wl, wop = want
    for hl, hop in have:
        if hl.key() == wl.key():
            if hop == wop:
                return True
            if wop == '!=' and hop == '<':
                return True
            if wop == '<=' and hop in ('<', '=='):
                return True
        neg = hl.scale(-1)
        if neg.key() == wl.key():
            if wop == '!=' and hop in ('<', '!='):
                return True
    return False


def fallible_after_mutation(ctx, c, op, field, o):
    """decided on the supergraph of the operation (helpers inlined): every access self.<field>[k] that can happen after the first
    mutation is protected by a KeyError handler, or keyed by an iteration over that same dict, or was validated before the mutation --
    the same entry (key, amount) of the same mapping accessed inside try/except KeyError under guards implied by the guards here.
    Entries are named canonically (K_, V_ for the variables of `for k, v in <mapping>.items()`), mappings are spelled through the chain
    of frames, so validation and use may live in different helpers."""
    P = ctx.P
    fn = P.method(c, op)[1]
    N = Normalizer(P, c)
    g = ctx.graph(c, op)
    muts = [n for n in g.nodes.values() if is_mutation(g, n)]
    if not muts:
        raise AnalysisError(f'{c.name}.{op}: no mutation found')
    after_mut = g.reach([m for n in muts for l, m in g.succ[n.id] if l != 'exc'], follow=lambda l: l != 'exc')
    pcache = {}

    def parents_of(func):
        if func not in pcache:
            d = {}
            for n_ in ast.walk(func):
                for ch in ast.iter_child_nodes(n_):
                    d[ch] = n_
            pcache[func] = d
        return pcache[func]

    def original(func, x):
        """x, or -- when x belongs to a statement that the copy-propagation pre-pass rewrote -- the node of the source at the same position"""
        par = parents_of(func)
        if x in par or x is func:
            return x
        for cand in par:
            if type(cand) is type(x) and getattr(cand, 'lineno', None) == getattr(x, 'lineno', -1) and getattr(cand, 'col_offset', None) == getattr(x, 'col_offset', -1):
                return cand
        # a name replaced by the field it was stored into: the original is a Name at that position
        for cand in par:
            if isinstance(cand, ast.expr) and getattr(cand, 'lineno', None) == getattr(x, 'lineno', -1) and getattr(cand, 'col_offset', None) == getattr(x, 'col_offset', -1):
                return cand
        return x

    def loop_of(frame, x):
        """innermost enclosing `for` of x in its function: (canonical mapping text, {loop var: canonical name})"""
        par = parents_of(frame.func)
        x = original(frame.func, x)
        cur = x
        while cur in par:
            p_ = par[cur]
            if isinstance(p_, ast.For) and (cur in p_.body or cur in p_.orelse):
                names = [e.id for e in ast.walk(p_.target) if isinstance(e, ast.Name)]
                ren = dict(zip(names, ['K_', 'V_', 'W_']))
                if isinstance(p_.iter, ast.Name) and p_.iter.id not in frame.argmap:
                    return p_.iter.id, ren          # a local collection (filled by appends, checked where it is filled)
                return ast.unparse(_unwrap_snapshot(subst(p_.iter, FrameEnv(frame)))), ren
            cur = p_
        return None, {}

    class Ren(ast.NodeTransformer):
        def __init__(self, m):
            self.m = m

        def visit_Name(self, n_):
            return ast.copy_location(ast.Name(self.m[n_.id], n_.ctx), n_) if n_.id in self.m else n_

    import copy as _copy

    def literals(frame, x, ren):
        """guard literals (Lin, op) under which x is evaluated, through the chain of frames, about the canonical entry"""
        out = []
        fr, node = frame, x
        first = True
        while fr is not None and node is not None:
            for t, tr in enclosing_guards(fr.func, original(fr.func, node)):
                t2 = Ren(ren).visit(_copy.deepcopy(t)) if first else t
                r = cmp_norm(N, t2, FrameEnv(fr), tr)
                if r:
                    out.append(r)
            node, fr, first = fr.call, fr.parent, False
        return [(l, op_) for l, op_ in out if any(nm in k.replace('.', ' ').replace('[', ' ').replace(']', ' ').split() for k in l.terms for nm in ('K_', 'V_', 'W_'))]

    accesses = []      # (node, subscript ast, canonical key, mapping text, guard literals, protected)
    for n in g.nodes.values():
        if n.ast is None:
            continue
        env = FrameEnv(n.frame)
        roots = own_exprs(n) if n.kind != 'stmt' else [n.ast]
        for r_ in roots:
            for x in ast.walk(r_):
                if isinstance(x, ast.Subscript) and is_self_attr(subst(x.value, env), field):
                    src, ren = loop_of(n.frame, x)
                    key = ast.unparse(Ren(ren).visit(_copy.deepcopy(subst(x.slice, env, keep=tuple(ren)))))
                    prot = any(l == 'exc' for l, _ in g.succ[n.id])
                    accesses.append((n, x, key, src, literals(n.frame, x, ren), prot, ren))
    validated = [(key, src, gs) for n, x, key, src, gs, prot, ren in accesses if prot and n.id not in after_mut]
    o.count()
    if not validated:
        o.fail(P, f'{c.name}.{op}', f'try: self.{field}[name] ... except KeyError', 'the operation does not validate its keys before changing state', file=c.mod.path, line=fn.lineno)
        return

    def accepted(key, src, gs):
        return any(vkey == key and vsrc == src and all(implies(N, gs, w) for w in vgs) for vkey, vsrc, vgs in validated)

    def show(gs):
        return [f'{l.key()} {op_} 0' for l, op_ in gs]
    seen = set()
    for n, x, key, src, gs, prot, ren in accesses:
        if n.id not in after_mut or (n.id, id(x)) in seen:
            continue
        seen.add((n.id, id(x)))
        o.count()
        if prot:
            o.witness((n.line, 'protected'))
            continue
        if src and src.replace('.items()', '').replace('.keys()', '') == f'self.{field}' and key in ('K_',):
            o.witness((n.line, 'own-keys'))
            continue
        ok_ = accepted(key, src, gs)
        if not ok_ and src and src.isidentifier():
            # keyed by a local list: every append to it must happen where the key is already known to be held
            apps = []
            for m in g.nodes.values():
                if m.frame is n.frame:
                    for cl in calls_at(g, m):
                        if call_attr(cl) == 'append' and ast.unparse(cl.func.value) == src and len(cl.args) == 1:
                            s2, ren2 = loop_of(m.frame, cl)
                            k2 = ast.unparse(Ren(ren2).visit(_copy.deepcopy(subst(cl.args[0], FrameEnv(m.frame), keep=tuple(ren2)))))
                            apps.append(accepted(k2, s2, literals(m.frame, cl, ren2)))
            if apps and all(apps):
                ok_ = True
        if ok_:
            o.witness((n.line, 'guard-implies-validation'))
            o.sample({'access': n.src()[:70], 'line': n.line, 'guards': show(gs), 'validated_under': [show(v[2]) for v in validated if v[0] == key]})
        else:
            o.fail(P, f'{c.name}.{op}', n.ast, f'`self.{field}[{ast.unparse(x.slice)}]` is read after the pools were already changed, for keys that were not validated '
                   f'(guards here: {show(gs) or "none"}; validated under: {[show(v[2]) for v in validated if v[0] == key]}): '
                   'a KeyError here leaves the operation half done', node=n)


def drop_iteration_literals(an, n, before, after):
    """guard literals describe the current loop iteration only: at a loop head forget those gathered inside that loop"""
    if n.kind == 'for' and n.ast is not None:
        lo, hi = n.ast.lineno, n.ast.end_lineno
        keep = frozenset(f for f in after.flags if not (f.startswith('lit|') and an.g.nodes[int(f.split('|')[1])].frame is n.frame
                                                        and lo <= (an.g.nodes[int(f.split('|')[1])].line or 0) <= hi))
        if keep != after.flags:
            s_ = after.copy()
            s_.flags = keep
            return s_
    return after


def nonneg_atom(k):
    return k.endswith('][1]') and k.startswith('self._resources[')


def provable_nonneg(E, literals):
    """E >= 0 from literals (Lin op 0) and capacity atoms >= 0"""
    def nonneg_comb(L):
        return all((nonneg_atom(k) and v >= 0) for k, v in L.terms.items()) and L.const >= 0
    if nonneg_comb(E):
        return True
    for L, op in literals:
        if op in ('<', '<=', '=='):
            if nonneg_comb(E + L):          # E = (E + L) + (-L), -L >= 0
                return True
        if op == '==':
            if nonneg_comb(E + L.scale(-1)):
                return True
    return False


def pool_stores(g):
    return [n for n in g.nodes.values() if n.kind == 'stmt' and isinstance(n.ast, ast.Assign) and isinstance(n.ast.targets[0], ast.Subscript)
            and is_self_attr(subst(n.ast.targets[0].value, FrameEnv(n.frame)), '_resources')]


def explore_symbolic(ctx, RM, e):
    """supergraph of an entry point of the manager explored with the symbolic store (sa/symx.py): -> (graph, Sym, Result)"""
    from ..symx import Sym
    P = ctx.P
    g = ctx.graph(RM, e)
    sym = Sym(P, RM, g)
    an = Analysis(P, g, [])
    sym.install(an)
    res = ctx.explore(an, [State({})], follow_exc=True)
    return g, sym, res


def capacity_sign(ctx, RM, o):
    """every (store into the pool table, path reaching it): the stored capacity component, evaluated with the symbolic store of that path
    (locals defined on two branches, boolean locals, tuples held in locals, helper parameters), is >= 0 in every case of what is known on
    the path (a disjunction is analysed case by case)"""
    from ..symx import literals
    P = ctx.P
    nst = 0
    for e in sorted(dv.entry_points(P, RM)):
        g = ctx.graph(RM, e)
        stores = pool_stores(g)
        if not stores:
            continue
        g, sym, res = explore_symbolic(ctx, RM, e)
        for sn in stores:
            for st in res.at(sn.id):
                pr = sym.pair(sn.ast.value, st, sn.frame)
                o.count()
                nst += 1
                if pr is None:
                    o.fail(P, f'ResourceManager.{e}', None, 'a pool entry must be stored as (in use, capacity) with values the analysis can follow', node=sn,
                           path=res.path_lines(sn.id, st))
                    continue
                E = pr[1]
                alts = sym.known(st)
                o.witness((e, sn.line))
                bad_alt = next((alt for alt in alts if not provable_nonneg(E, literals(alt))), None)
                if bad_alt is not None:
                    known = [f'{l.key()} {op} 0' for l, op in literals(bad_alt)]
                    o.fail(P, f'ResourceManager.{e}', None, f'the capacity stored here, `{E.key()}`, is not guaranteed to be >= 0 on this path '
                           f'(known: {known or "nothing"}): capacity can become negative', node=sn, path=res.path_lines(sn.id, st))
                else:
                    o.sample({'store': sn.src(), 'line': sn.line, 'capacity_expr': E.key(), 'cases': len(alts),
                              'path_literals': [f'{l.key()} {op} 0' for l, op in literals(alts[0])] if alts else []})
    o.require(nst >= 4, f'only {nst} (store, path) pairs of the pool table examined')


def reserve_shape(ctx, RM, o):
    P = ctx.P
    N = Normalizer(P, RM)
    fn = P.method(RM, 'reserve_resources')[1]
    g = ctx.graph(RM, 'reserve_resources', boolean=False, opaque=('_can_fulfill_request', '_record_resource_amount_update'))
    muts = [n for n in g.nodes.values() if is_mutation(g, n)]
    tests = [n for n in g.nodes.values() if n.kind == 'cond' and isinstance(n.ast, ast.Call) and call_attr(n.ast) == '_can_fulfill_request']
    o.count()
    if len(tests) != 1 or not muts:
        o.fail(P, 'ResourceManager.reserve_resources', 'if self._can_fulfill_request(filtered_request):', f'expected one feasibility test guarding the pool updates (found {len(tests)} test(s), {len(muts)} update(s))',
               file=RM.mod.path, line=fn.lineno)
        return
    t = tests[0]
    for m in muts:
        o.count()
        if m.id in g.reach_edges([g.entry], cut_edges={(t.id, 'T')}):
            o.fail(P, 'ResourceManager.reserve_resources', None, 'a pool is changed although the feasibility test did not succeed', node=m)
        else:
            o.witness('guarded')
    # the tested request, the iterated request and the returned holdings are the same filtered request
    defs = single_defs(fn)
    tested = ast.unparse(t.ast.args[0]) if t.ast.args else None
    loops = [l for l in ast.walk(fn) if isinstance(l, ast.For) and any(
        (isinstance(x, ast.Subscript) and is_self_attr(x.value, '_resources') and isinstance(x.ctx, ast.Store)) or
        (isinstance(x, ast.Call) and isinstance(x.func, ast.Attribute) and is_self_attr(x.func) and inv.method_writes(P, RM, x.func.attr, '_resources')) for x in ast.walk(l))]
    ctor = [x for x in ast.walk(fn) if isinstance(x, ast.Call) and isinstance(x.func, ast.Name) and x.func.id == 'ReservedResources']
    o.count()
    pn = fn.args.args[1].arg
    filt_ok = False
    if tested in defs:
        d = defs[tested]
        if isinstance(d, ast.Call) and isinstance(d.func, ast.Attribute) and is_self_attr(d.func) and not d.keywords:
            # the filter lives in a helper (`self._positive_entries(request)`): its single returned expression, with the parameters
            # replaced by the arguments
            hit_ = P.lookup(RM, d.func.attr)
            if hit_ and hit_[1] == 'method':
                rets_ = [x for x in ast.walk(hit_[2]) if isinstance(x, ast.Return) and x.value is not None]
                bnd_ = dv.bind_method_call(P, RM, d)          # (plain or static helper)
                if len(rets_) == 1 and bnd_ is not None:
                    d = subst(rets_[0].value, bnd_)
        if isinstance(d, ast.DictComp) and len(d.generators) == 1 and ast.unparse(d.generators[0].iter) == f'{pn}.items()' and len(d.generators[0].ifs) == 1:
            tg = d.generators[0].target
            names = [e.id for e in tg.elts] if isinstance(tg, ast.Tuple) else []
            if len(names) == 2 and ast.unparse(d.key) == names[0] and ast.unparse(d.value) == names[1]:
                r = cmp_norm(N, d.generators[0].ifs[0], None, True)
                if r and r[1] == '<' and r[0].is_({names[1]: -1}):
                    filt_ok = True
    if not filt_ok:
        o.fail(P, 'ResourceManager.reserve_resources', 'filtered_request = {name: n for name, n in request.items() if n > 0}',
               'the feasibility test must be applied to exactly the positive entries of the request', file=RM.mod.path, line=fn.lineno)
    else:
        o.witness('filter')
    o.count()
    # the loop(s) that update the pools, wherever they live (helpers are inlined in the supergraph); the iterated mapping is resolved
    # through the chain of frames to the expression of reserve_resources itself
    def _writes(x):
        return (isinstance(x, ast.Subscript) and is_self_attr(x.value, '_resources') and isinstance(x.ctx, ast.Store)) or \
               (isinstance(x, ast.Call) and isinstance(x.func, ast.Attribute) and is_self_attr(x.func) and inv.method_writes(P, RM, x.func.attr, '_resources'))
    iters = []
    for n_ in g.nodes.values():
        if n_.kind == 'for' and any(_writes(x) for x in ast.walk(n_.ast)):
            it = n_.ast.iter
            txt = ast.unparse(it)
            if isinstance(it, ast.Call) and isinstance(it.func, ast.Attribute) and it.func.attr == 'items' and isinstance(it.func.value, ast.Name):
                env_, nm_ = FrameEnv(n_.frame), it.func.value
                for _ in range(6):
                    if n_.frame is g.top and env_.frame is g.top:
                        break
                    r_ = env_.resolve(nm_.id) if env_.frame is not None and nm_.id in env_.frame.argmap else None
                    if r_ is None or not isinstance(r_[0], ast.Name):
                        break
                    nm_, env_ = r_[0], r_[1]
                txt = f'{nm_.id}.items()'
            iters.append(txt)
    okl = len(set(iters)) == 1 and iters[0] == f'{tested}.items()'
    if not okl:
        o.fail(P, 'ResourceManager.reserve_resources', loops[0].iter if loops else 'for resource_name, amount in filtered_request.items()',
               'the pools must be updated for exactly the entries that were tested', file=RM.mod.path, line=fn.lineno)
    else:
        o.witness('same-entries')
    o.count()
    def ctor_args(call):
        """[manager argument, holdings argument] of ReservedResources(...), positional or by keyword"""
        RRc = P.cls('ReservedResources')
        ps = [a.arg for a in RRc.methods['__init__'].args.args][1:] if '__init__' in RRc.methods else []
        b_ = dict(zip(ps, call.args))
        b_.update({k.arg: k.value for k in call.keywords if k.arg})
        return [ast.unparse(b_[p_]) if p_ in b_ else None for p_ in ps]
    if len(ctor) != 1 or ctor_args(ctor[0]) != ['self', tested]:
        o.fail(P, 'ResourceManager.reserve_resources', 'return ReservedResources(self, filtered_request)', 'the returned reservation must hold exactly the entries that were taken',
               file=RM.mod.path, line=fn.lineno)
    else:
        o.witness('holdings')
    # negative amounts are rejected before anything
    o.count()
    gg = ctx.graph(RM, 'reserve_resources', opaque=('_can_fulfill_request', '_record_resource_amount_update'))
    rais = [n for n in gg.nodes.values() if n.kind == 'raise' and not isinstance(n.ast, ast.Assert)]
    neg_guard = False
    for n in gg.nodes.values():
        if n.kind == 'cond':
            for truth in (True, False):       # `if amount < 0: raise` or the inverted `if amount >= 0: ... else: raise`
                r = cmp_norm(N, n.ast, FrameEnv(n.frame), truth)
                if r and r[1] == '<' and len(r[0].terms) == 1 and list(r[0].terms.values())[0] == 1 and r[0].const == 0:
                    lbl = 'T' if truth else 'F'
                    tr = gg.reach([m for l, m in gg.succ[n.id] if l == lbl], follow=lambda l: l != 'exc')
                    if any(x.id in tr for x in rais):
                        neg_guard = True
    if not neg_guard:
        o.fail(P, 'ResourceManager.reserve_resources', 'if amount < 0: raise ValueError', 'a negative requested amount is not rejected', file=RM.mod.path, line=fn.lineno)
    else:
        o.witness('negative-rejected')
    feasibility_table(ctx, RM, o)


def feasibility_table(ctx, RM, o):
    """the feasibility test, decided per entry of the request: one iteration of its scan is explored (L9) for every combination of
    the ghosts  amount is zero / resource is known / amount fits (not capacity - usage - amount < 0): a non-zero entry that is unknown
    or does not fit makes the test answer False at once, any other entry goes on to the next one; True is answered only after the
    last entry.  Independent of the spelling: try/except KeyError or a membership test, `all(...)` over a per-entry helper, a local
    for the free amount, either polarity of the comparisons."""
    import itertools
    P = ctx.P
    N = Normalizer(P, RM)
    fg = ctx.graph(RM, '_can_fulfill_request', boolean=True)
    f2 = P.method(RM, '_can_fulfill_request')[1]
    req = f2.args.args[1].arg
    heads = [n for n in fg.nodes.values() if n.kind == 'for']
    o.count()
    if len(heads) != 1:
        o.fail(P, 'ResourceManager._can_fulfill_request', 'for resource_name, requested_amount in request.items()',
               f'expected one scan over the entries of the request, found {len(heads)}', file=RM.mod.path, line=f2.lineno)
        return
    head = heads[0]
    it = subst(head.ast.iter, FrameEnv(head.frame))
    tg = head.ast.target
    if not (isinstance(tg, ast.Tuple) and len(tg.elts) == 2 and all(isinstance(e, ast.Name) for e in tg.elts)) or ast.unparse(it) != f'{req}.items()':
        o.fail(P, 'ResourceManager._can_fulfill_request', head.ast.iter, 'the feasibility test must examine every (name, amount) entry of the request',
               file=RM.mod.path, line=head.line)
        return
    name_v, amt_v = tg.elts[0].id, tg.elts[1].id

    def keep_env(frame):
        return FrameEnv(frame)

    def classify(test, frame):
        """('zero'|'known'|'fits', polarity) for a condition about the current entry"""
        env = keep_env(frame)
        pol = cmp_polarity(N, test, env, {amt_v: 1}, '==')
        if pol:
            return 'zero', pol == 1
        if isinstance(test, ast.Compare) and len(test.ops) == 1 and isinstance(test.ops[0], (ast.In, ast.NotIn)):
            l = subst(test.left, env)
            r = subst(test.comparators[0], env)
            if isinstance(r, ast.Call) and isinstance(r.func, ast.Attribute) and r.func.attr == 'keys':
                r = r.func.value
            if ast.unparse(l) == name_v and is_self_attr(r, '_resources'):
                return 'known', isinstance(test.ops[0], ast.In)
        # `pool = self._resources.get(name); if pool is None` -- the lookup that answers None for an unknown resource
        if isinstance(test, ast.Compare) and len(test.ops) == 1 and isinstance(test.ops[0], (ast.Is, ast.IsNot, ast.Eq, ast.NotEq)) \
                and isinstance(test.comparators[0], ast.Constant) and test.comparators[0].value is None:
            l = subst(test.left, env)
            if isinstance(l, ast.Call) and isinstance(l.func, ast.Attribute) and l.func.attr == 'get' and is_self_attr(l.func.value, '_resources') \
                    and len(l.args) == 1 and not l.keywords and ast.unparse(l.args[0]) == name_v:
                return 'known', isinstance(test.ops[0], (ast.IsNot, ast.NotEq))
        for truth in (True, False):
            r = cmp_norm(N, test, env, truth)
            if r and r[1] in ('<', '<='):
                L = r[0]
                keys = list(L.terms)
                caps = [k for k in keys if k.endswith('[1]') and 'self._resources' in k]
                uses = [k for k in keys if k.endswith('[0]') and 'self._resources' in k]
                others = [k for k in keys if k not in caps + uses]
                if len(caps) == 1 and len(uses) == 1 and others == [amt_v] and L.const == 0:
                    if r[1] == '<' and L.terms[caps[0]] == 1 and L.terms[uses[0]] == -1 and L.terms[amt_v] == -1:
                        return 'fits', not truth          # cap - use - amount < 0  <=> does not fit
                    if r[1] == '<=' and L.terms[caps[0]] == -1 and L.terms[uses[0]] == 1 and L.terms[amt_v] == 1:
                        return 'fits', truth              # amount - (cap - use) <= 0  <=> fits
        return None

    seen_facts = set()

    def refine(an, test, truth, st, frame):
        c = classify(test, frame)
        if c is None:
            return NotImplemented
        fact, pol = c
        seen_facts.add(fact)
        want = 'T' if truth == pol else 'F'
        cur = st.fields.get('#' + fact, '?')
        if cur in ('T', 'F'):
            return st if cur == want else None
        return st.with_field('#' + fact, want)

    def touches_pool(n):
        return any(isinstance(x, ast.Subscript) and is_self_attr(x.value, '_resources') and isinstance(x.ctx, ast.Load) for x in ast.walk(n.ast)) if n.ast is not None and n.kind in ('stmt', 'cond', 'return') else False

    def edge(an, n, label, st):
        if touches_pool(n) and any(l == 'exc' for l, _ in fg.succ[n.id]):
            seen_facts.add('known')
            want = 'F' if label == 'exc' else 'T'
            cur = st.fields.get('#known', '?')
            if cur in ('T', 'F'):
                return st if cur == want else None
            return st.with_field('#known', want)
        return st
    an = Analysis(P, fg, ['#zero', '#known', '#fits'])
    an.refine_hooks.insert(0, refine)
    an.edge_hooks.append(edge)
    starts = [m for l, m in fg.succ[head.id] if l == 'T']
    bad = False
    for z, k, f in itertools.product('TF', repeat=3):
        s0 = State({'#zero': z, '#known': k, '#fits': f})
        for v in (name_v, amt_v):
            s0.locals[(head.frame.id, v)] = 'S'
        res = an.run([s0], follow_exc=True, start=starts, stop=[head.id])
        ctx.units['abstract_states'] += res.n_states()
        o.count()
        nxt, yes, no = bool(res.at(head.id)), bool(res.at(fg.exitT)), bool(res.at(fg.exitF))
        refuse = z == 'F' and (k == 'F' or f == 'F')
        what = f'an entry with amount {"zero" if z == "T" else "non-zero"}, resource {"known" if k == "T" else "unknown"}, {"fitting" if f == "T" else "not fitting"}'
        if z == 'T' and k == 'F':
            what = 'a zero entry for an unknown resource'
        if refuse and (nxt or yes or not no):
            bad = True
            msg = 'a request for an unknown resource is not refused' if k == 'F' else 'the feasibility test must refuse exactly when capacity - usage - requested < 0'
            o.fail(P, 'ResourceManager._can_fulfill_request', 'if max_available - in_use < requested_amount: return False',
                   f'{msg}: for {what} the test ' + ('goes on to the next entry' if nxt else 'answers True' if yes else 'has no answer'), file=RM.mod.path, line=f2.lineno)
        elif not refuse and (yes or no or not nxt):
            bad = True
            o.fail(P, 'ResourceManager._can_fulfill_request', 'for resource_name, requested_amount in request.items()',
                   f'for {what} the test must go on to the next entry; it ' + ('answers False' if no else 'answers True before having examined every entry' if yes else 'has no continuation'),
                   file=RM.mod.path, line=f2.lineno)
        else:
            o.witness(('entry', z, k, f))
    # exhaustion => True; nothing is answered before the scan
    o.count()
    res = an.run([State({'#zero': '?', '#known': '?', '#fits': '?'})], follow_exc=True, start=[m for l, m in fg.succ[head.id] if l == 'F'], stop=[head.id])
    if res.at(fg.exitF) or not res.at(fg.exitT):
        bad = True
        o.fail(P, 'ResourceManager._can_fulfill_request', 'return True', 'after the last entry the feasibility test must answer True', file=RM.mod.path, line=f2.lineno)
    res = an.run([State({'#zero': '?', '#known': '?', '#fits': '?'})], follow_exc=True, stop=[head.id])
    if res.at(fg.exitT) or res.at(fg.exitF):
        bad = True
        o.fail(P, 'ResourceManager._can_fulfill_request', f2.name, 'the feasibility test answers before having examined the entries', file=RM.mod.path, line=f2.lineno)
    o.require({'zero', 'known', 'fits'} <= seen_facts, f'_can_fulfill_request: the per-entry conditions recognised are only {sorted(seen_facts)}')
    if not bad:
        o.witness('scan')
        o.sample({'feasibility_test': 'per-entry table over zero/known/fits explored', 'file': P.rel(RM.mod.path), 'line': f2.lineno})


def release_validation(ctx, RR, o):
    P = ctx.P
    N = Normalizer(P, RR)
    fn = P.method(RR, 'release')[1]
    g = ctx.graph(RR, 'release')
    pn = fn.args.args[1].arg
    muts = [n for n in g.nodes.values() if is_mutation(g, n)]
    rais = [n for n in g.nodes.values() if n.kind == 'raise' and not isinstance(n.ast, ast.Assert)]
    # analyse with the argument given (not None)
    an = Analysis(P, g, [])

    def edge_hook(an_, n, label, st):
        if n.kind == 'cond' and label in ('T', 'F'):
            r = cmp_norm(N, n.ast, FrameEnv(n.frame), label == 'T')
            if r:
                return st.with_flag(f'lit|{n.id}|{label}')
        return st
    an.edge_hooks.append(edge_hook)
    an.node_hooks.append(drop_iteration_literals)
    s0 = State({})
    s0.locals[(g.top.id, pn)] = 'S'
    res = ctx.explore(an, [s0], follow_exc=True)
    conds = [n for n in g.nodes.values() if n.kind == 'cond']

    def guard(pred):
        """a cond whose (truth) edge matches pred(lin, op) and leads only to a raise"""
        for n in conds:
            for truth in (True, False):
                r = cmp_norm(N, n.ast, FrameEnv(n.frame), truth)
                if r and pred(*r):
                    lbl = 'T' if truth else 'F'
                    succ = [m for l, m in g.succ[n.id] if l == lbl]
                    rr = g.reach(succ, follow=lambda l: l != 'exc')
                    if any(x.id in rr for x in rais) and g.exit not in rr and not any(m.id in rr for m in muts):
                        return n, truth
        return None
    # "release everything" is taken only for the argument None: with an explicit argument (explored here as some non-None value, which may
    # still be an empty dict) the parameter is never replaced by the whole reservation
    o.count()
    for n_ in g.nodes.values():
        if n_.kind == 'stmt' and isinstance(n_.ast, ast.Assign) and n_.frame is g.top and any(isinstance(t, ast.Name) and t.id == pn for t in n_.ast.targets) \
                and any(is_self_attr(x, '_reserved_resources') for x in ast.walk(n_.ast.value)) and res.at(n_.id):
            o.fail(P, 'ReservedResources.release', n_.ast, 'an explicitly given argument (for instance an empty dict) is replaced by the whole reservation: '
                   'release({}) must release nothing, only release(None) releases everything', node=n_, path=res.path_lines(n_.id, res.at(n_.id)[0]))
    else:
        o.witness('release-all-only-for-None')
    # the names the loops over the released entries give to the amount (`for name, amount in resources.items()`), whatever they are called
    AMT = {n_.ast.target.elts[1].id for n_ in g.nodes.values() if n_.kind == 'for' and isinstance(n_.ast.target, ast.Tuple) and len(n_.ast.target.elts) == 2
           and all(isinstance(e_, ast.Name) for e_ in n_.ast.target.elts) and isinstance(n_.ast.iter, ast.Call) and call_attr(n_.ast.iter) == 'items'} or {'amount'}
    o.count()
    neg = guard(lambda L, op: op == '<' and any(L.is_({a_: 1}) for a_ in AMT))
    if not neg:
        o.fail(P, 'ReservedResources.release', 'if amount < 0: raise ValueError', 'releasing a negative amount is not rejected', file=RR.mod.path, line=fn.lineno)
    else:
        o.witness('negative')
    o.count()

    def over(L, op):
        keys = list(L.terms)
        held = [k for k in keys if k.startswith('self._reserved_resources[')]
        return op == '<' and len(keys) == 2 and len(held) == 1 and L.terms[held[0]] == 1 and any(L.terms.get(a_) == -1 for a_ in AMT) and L.const == 0
    ov = guard(over)
    if not ov:
        o.fail(P, 'ReservedResources.release', 'if self._reserved_resources[name] < amount: raise ValueError', 'releasing more than is reserved is not rejected (reserved - amount < 0 must raise)',
               file=RR.mod.path, line=fn.lineno, detail={'conditions': [n.src() for n in conds]})
    else:
        o.witness('over-release')
        n, truth = ov
        # which literals dominate the over-release test?  only `amount != 0` may switch it off
        lits_on_paths = set()
        for st in res.at(n.id):
            for fl in st.flags:
                if fl.startswith('lit|'):
                    _, nid, lab = fl.split('|')
                    cn = g.nodes[int(nid)]
                    if cn.frame is g.top and cn.id != n.id:
                        r = cmp_norm(N, cn.ast, FrameEnv(cn.frame), lab == 'T')
                        lits_on_paths.add(f'{r[0].key()} {r[1]} 0')
        allowed = {t_.replace('amount', a_) for a_ in AMT for t_ in ('amount != 0', '-amount <= 0', 'amount <= 0', '-amount < 0')}      # amount != 0 ; not(amount < 0) ...
        o.count()
        extra = sorted(l for l in lits_on_paths if l not in allowed and any(a_ in l for a_ in AMT))
        if extra:
            o.fail(P, 'ReservedResources.release', None, f'the reserved-amount check is skipped under an extra condition on the amount ({extra}); only amount == 0 may skip it', node=n)
        else:
            o.witness('only-zero-skips')
            o.sample({'over_release_guard': n.src(), 'reached_under': sorted(lits_on_paths), 'line': n.line})
    # an unknown resource raises (KeyError handler re-raises)
    o.count()
    exc_nodes = [n for n in g.nodes.values() if n.kind == 'join' and n.note.startswith('except')]
    if not exc_nodes or any(g.exit in g.reach([n.id], follow=lambda l: l != 'exc') for n in exc_nodes):
        o.fail(P, 'ReservedResources.release', 'except KeyError: raise KeyError(...)', 'releasing a resource that is not held does not raise', file=RR.mod.path, line=fn.lineno)
    else:
        o.witness('unknown-raises')
    # release() without argument releases everything held
    o.count()
    s1 = State({})
    s1.locals[(g.top.id, pn)] = 'N'
    r1 = ctx.explore(Analysis(P, g, []), [s1])
    defaults = [n for n in g.nodes.values() if n.kind == 'stmt' and isinstance(n.ast, ast.Assign) and ast.unparse(n.ast) == f'{pn} = self._reserved_resources']
    if not defaults or not all(r1.visited(n.id) for n in defaults) or not r1.exits():
        o.fail(P, 'ReservedResources.release', f'{pn} = self._reserved_resources', 'release() without an argument must release everything that is held', file=RR.mod.path, line=fn.lineno)
    else:
        o.witness('release-all')


CLAIM = {
    'technique': 'static analysis: raise-after-mutation reachability, guard-implication check for fallible accesses, sign reasoning from path '
                 'literals over linear normal forms, bookkeeping normal forms on supergraphs (helpers inlined, aliases rebased), edge dominance for the all-or-nothing test, '
                 'per-entry truth table of the feasibility test (one loop iteration explored for every combination of zero / known / fits)',
    'level_text': 'Validation precedes mutation in every pool operation, the arithmetic is symmetric, capacity stores are sign-guarded and the '
                  'reservation test is all-or-nothing on every path; the usage = sum-of-holdings identity over histories is not decided.',
    'level_note': 'Amounts are real numbers; reservation internals are not mutated by callers.',
}


def merge_partners(ctx, RR):
    """C09.10: merge moves holdings only between two different reservations of one manager"""
    P = ctx.P
    o = Ob('C09.10', 'K2', 'merge moves holdings only after it has established that the other reservation is a different object (merged into itself a reservation would '
                           'be emptied while the pool still counts its amounts) and belongs to the same manager (amounts of another manager would later be released into this one: '
                           'usage below zero); both tests come before the first change')
    fn = P.method(RR, 'merge')[1]
    other = fn.args.args[1].arg
    g = ctx.graph(RR, 'merge')

    def sides(test, frame):
        # `==` between two reservations is the identity test only while the class does not define its own equality
        ops = (ast.Is, ast.IsNot) if '__eq__' in RR.methods else (ast.Is, ast.IsNot, ast.Eq, ast.NotEq)
        if isinstance(test, ast.Compare) and len(test.ops) == 1 and isinstance(test.ops[0], ops):
            a = ast.unparse(subst(test.left, FrameEnv(frame)))
            b = ast.unparse(subst(test.comparators[0], FrameEnv(frame)))
            return {a, b}, isinstance(test.ops[0], (ast.Is, ast.Eq))
        return None, None

    def refine(an, test, truth, st, frame):
        sd, same = sides(test, frame)
        if sd == {other, 'self'}:
            ghost = '#same-object'
        elif sd == {f'{other}._resource_manager', 'self._resource_manager'}:
            ghost = '#same-manager'
        else:
            return NotImplemented
        want = 'T' if (truth == same) else 'F'
        cur = st.fields.get(ghost, TOP)
        if cur in ('T', 'F') and cur != want:
            return None
        return st.with_field(ghost, want) if cur != want else st

    def is_change(n):
        if n.kind == 'for' and ast.unparse(subst(n.ast.iter, FrameEnv(n.frame))).startswith((f'{other}._reserved_resources', 'self._reserved_resources')):
            return True
        if n.kind == 'stmt' and isinstance(n.ast, (ast.Assign, ast.AugAssign, ast.Delete)):
            tg = n.ast.targets if not isinstance(n.ast, ast.AugAssign) else [n.ast.target]
            return any('_reserved_resources' in ast.unparse(subst(t, FrameEnv(n.frame))) for t in tg)
        return any(call_attr(c) in ('update', 'pop', 'clear', 'setdefault', 'popitem') and '_reserved_resources' in ast.unparse(subst(c.func.value, FrameEnv(n.frame)))
                   for c in calls_at(g, n) if isinstance(c.func, ast.Attribute))

    def hook(an, n, before, after):
        if is_change(n) and not any(f.startswith('change@') for f in before.flags):
            return after.with_flag(f"change@{n.id}:{before.fields.get('#same-object', TOP)}:{before.fields.get('#same-manager', TOP)}")
        return after

    an = Analysis(P, g, ['#same-object', '#same-manager'])
    an.refine_hooks.insert(0, refine)
    an.node_hooks.append(hook)
    s0 = State({'#same-object': TOP, '#same-manager': TOP})
    s0.locals[(g.top.id, other)] = 'S'
    res = ctx.explore(an, [s0])
    seen = set()
    n_changes = 0
    for st in [v[0] for d in res.seen.values() for v in d.values()]:
        for f in st.flags:
            if not f.startswith('change@') or f in seen:
                continue
            seen.add(f)
            n_changes += 1
            o.count()
            nid, so, sm = f[len('change@'):].split(':')
            node = g.nodes[int(nid)] if nid.isdigit() and int(nid) in g.nodes else None
            if so != 'F':
                o.fail(P, 'ReservedResources.merge', node.ast if node is not None else 'merge', 'holdings are changed without a preceding test that the other reservation is not this '
                       'one: `r.merge(r)` leaves r empty while the pool still counts what it held (usage != sum of holdings)', node=node, file=RR.mod.path, line=fn.lineno)
            elif sm != 'T':
                o.fail(P, 'ReservedResources.merge', node.ast if node is not None else 'merge', 'holdings are changed without a preceding test that both reservations belong to the same '
                       'manager: amounts reserved with another manager end up being released into this one (usage below zero) and stay counted in the other',
                       node=node, file=RR.mod.path, line=fn.lineno)
            else:
                o.witness(('guarded', nid))
    o.require(n_changes >= 1, 'merge never changes the holdings in the abstract exploration')
    return o


def lookup_cases(fn, mapping, key, known):
    """texts of the values `fn` returns when `key` is (known=True) / is not (False) a key of `mapping` -- the spellings of a look-up with a
    default are resolved: try / except KeyError, `m.get(k, d)`, `k in m` tests (statement or conditional expression), `x = m.get(k)` followed
    by a None test.  'RAISE' stands for an uncaught KeyError, '?' for a construct that is not understood."""
    defs = single_defs(fn)
    RAISE = 'RAISE'

    def is_map(e):
        return ast.unparse(e) == mapping

    def is_key(e):
        return ast.unparse(e) == key

    def member_test(t):
        """True if t <=> key in mapping, False if t <=> key not in mapping, None otherwise"""
        t = subst(t, defs)
        if isinstance(t, ast.UnaryOp) and isinstance(t.op, ast.Not):
            r = member_test(t.operand)
            return None if r is None else not r
        if isinstance(t, ast.Compare) and len(t.ops) == 1:
            l, r, op = t.left, t.comparators[0], t.ops[0]
            if is_key(l) and is_map(r) and isinstance(op, (ast.In, ast.NotIn)):
                return isinstance(op, ast.In)
            for a, b in ((l, r), (r, l)):
                if isinstance(b, ast.Constant) and b.value is None and isinstance(a, ast.Call) and isinstance(a.func, ast.Attribute) and a.func.attr == 'get' \
                        and is_map(a.func.value) and len(a.args) == 1 and is_key(a.args[0]) and isinstance(op, (ast.Is, ast.IsNot, ast.Eq, ast.NotEq)):
                    return isinstance(op, (ast.IsNot, ast.NotEq))
        return None

    class Res(ast.NodeTransformer):
        def visit_IfExp(self, n):
            r = member_test(n.test)
            if r is None:
                return self.generic_visit(n)
            return self.visit(n.body if r == known else n.orelse)

        def visit_Call(self, n):
            self.generic_visit(n)
            if isinstance(n.func, ast.Attribute) and n.func.attr == 'get' and is_map(n.func.value) and 1 <= len(n.args) <= 2 and is_key(n.args[0]) and not n.keywords:
                if known:
                    return ast.Subscript(value=n.func.value, slice=n.args[0], ctx=ast.Load())
                return n.args[1] if len(n.args) == 2 else ast.Constant(None)
            return n

        def visit_Subscript(self, n):
            self.generic_visit(n)
            if isinstance(n.value, ast.Tuple) and isinstance(n.slice, ast.Constant) and isinstance(n.slice.value, int) and 0 <= n.slice.value < len(n.value.elts):
                return n.value.elts[n.slice.value]
            return n

    def value(e):
        import copy
        e = Res().visit(copy.deepcopy(subst(e, defs)))
        ast.fix_missing_locations(e)
        if not known and any(isinstance(x, ast.Subscript) and is_map(x.value) and is_key(x.slice) for x in ast.walk(e)):
            return RAISE
        return ast.unparse(e)

    def block(stmts):
        """(set of outcomes, falls through)"""
        out = set()
        for st in stmts:
            if isinstance(st, ast.Return):
                out.add(value(st.value) if st.value is not None else 'None')
                return out, False
            if isinstance(st, ast.Expr) and isinstance(st.value, ast.Constant):
                continue
            if isinstance(st, ast.Assign) and len(st.targets) == 1 and isinstance(st.targets[0], (ast.Name, ast.Tuple)):
                if value(st.value) == RAISE:
                    out.add(RAISE)
                    return out, False
                continue
            if isinstance(st, ast.If):
                r = member_test(st.test)
                branches = [st.body, st.orelse] if r is None else [st.body if r == known else st.orelse]
                falls = False
                for b in branches:
                    o2, f2 = block(b)
                    out |= o2
                    falls = falls or f2
                if not falls:
                    return out, False
                continue
            if isinstance(st, ast.Try) and not st.finalbody and not st.orelse:
                o2, f2 = block(st.body)
                if RAISE in o2:
                    o2.discard(RAISE)
                    hs = [h for h in st.handlers if h.type is None or ast.unparse(h.type) in ('KeyError', 'LookupError', 'Exception')]
                    if hs:
                        o3, f3 = block(hs[0].body)
                        o2 |= o3
                        f2 = f2 or f3
                    else:
                        o2.add(RAISE)
                out |= o2
                if not f2:
                    return out, False
                continue
            out.add('?')
            return out, False
        return out, True
    outs, falls = block(fn.body)
    if falls:
        outs.add('None')
    return outs
