"""C15 -- recorded simulation data mirrors what actually happened."""
import ast

from .. import AnalysisError
from ..report import Ob
from ..cfg import calls_at, call_attr, is_self_attr
from ..state import Analysis, State, TOP, bind_call, SCHED_PARAMS
from ..norm import Normalizer, FrameEnv, single_defs, subst
from .. import inventory as inv
from .. import devices as dv
from .c05 import dirty_pairing, level_payload

EXPLANATION = '''
Static analysis of every add_datapoint call site and of the event-trace machinery.
Decided: (C15.1) dirty-bit pairing, clean at every exit of every computed entry point: buffer level write <-> 'level'
record; pool-table store <-> resource_update of the same resource (when the environment is set); source produced counter
<-> 'supplied_new_part'; scheduler state store <-> 'schedule_update'; acceptance of a part <-> 'received_part'; end of a
processing cycle <-> 'produced_part'; sink counter <-> 'received_part'; (C15.2) the table of all add_datapoint sites: label,
source sub-label (device name / resource name), first tuple element = now, payload fields read from the part being recorded
at that moment; Environment.add_datapoint appends the datapoint exactly once under (label, sub-label); (C15.3)
ResourceManager.initialize records every known resource; (C15.4) with tracing enabled step() records the event before
executing it, under a running index that is incremented once per event, and run() exports the trace in a finally block.
NOT decided: equality of the last record with live state after every event of a run (follows from C15.1 only under
run-to-completion), the batch case of the sink counter (one record per batch by design).
'''
ASSUMPTIONS = ['run-to-completion of entry points']
MIN_INSTANCES = 150


def check(ctx):
    P = ctx.P
    obs = []
    o = Ob('C15.1', 'K4', 'every state change of a recorded kind is followed, before the entry point returns, by exactly its record (dirty-bit pairing)')
    obs.append(o)
    nw = {}
    # buffer level
    if P.has_cls('Buffer'):
        c = P.cls('Buffer')
        N = Normalizer(P, c)
        nw['level'] = dirty_pairing(ctx, o, c, '_level', False, 'level', payload_check=lambda cl, n: level_payload(P, N, cl, n))
    # resource table
    RM = P.cls('ResourceManager')
    NR = Normalizer(P, RM)

    def rm_payload(cl, n):
        d = dv.datapoint(cl, n.frame)
        if d is None or d['elts'] is None or len(d['elts']) != 3:
            return False
        key = d['sub']
        t, u, cap = [NR.norm(x, {}) for x in d['elts']]
        return t.is_({'NOW': 1}) and u.is_({f'self._resources[{key}][0]': 1}) and cap.is_({f'self._resources[{key}][1]': 1})
    ents = {e: k for e, k in dv.entry_points(P, RM).items() if e != 'initialize'}
    nw['resource_update'] = dirty_pairing(ctx, o, RM, '_resources', True, 'resource_update', payload_check=rm_payload, entries=ents, env_field='_env', opaque=())
    # source counter
    if P.has_cls('Source'):
        c = P.cls('Source')
        NS = Normalizer(P, c)

        def src_payload(cl, n):
            d = dv.datapoint(cl, n.frame)
            if d is None or d['elts'] is None or len(d['elts']) != 2 or d['sub'] != 'self.name':
                return False
            return NS.norm(d['elts'][0], {}).is_({'NOW': 1}) and NS.norm(d['elts'][1], {}).key() == 'self._output.id'
        ents = dv.entries_of(P, c)
        nw['supplied_new_part'] = dirty_pairing(ctx, o, c, '_produced_parts', False, 'supplied_new_part', payload_check=src_payload, entries=ents, opaque=())
    # scheduler state
    if P.has_cls('ActionScheduler'):
        c = P.cls('ActionScheduler')
        NA = Normalizer(P, c)

        def as_payload(cl, n):
            d = dv.datapoint(cl, n.frame)
            if d is None or d['elts'] is None or len(d['elts']) != 2 or d['sub'] != 'self.name':
                return False
            return NA.norm(d['elts'][0], {}).is_({'NOW': 1}) and NA.norm(d['elts'][1], {}).key() == 'self._state'
        nw['schedule_update'] = dirty_pairing(ctx, o, c, '_state', False, 'schedule_update', payload_check=as_payload, opaque=())
    # acceptance <-> received_part  (all slot devices)
    for c in dv.device_classes(P, dv.SLOT_DEVICES):
        if (c.name, 'give_part') in dv.EXEMPT_ENTRIES:
            continue
        NH = Normalizer(P, c)

        def acc_write(n):
            a = n.ast
            return n.kind == 'stmt' and isinstance(a, ast.Assign) and any(is_self_attr(t, '_part') for t in a.targets) \
                and not (isinstance(a.value, ast.Constant) and a.value.value is None) and n.frame.func.name != '__init__'

        def part_payload(cl, n, NH=NH):
            d = dv.datapoint(cl, n.frame)
            if d is None or d['elts'] is None or len(d['elts']) != 4 or d['sub'] != 'self.name':
                return False
            els = d['elts']
            return NH.norm(els[0], {}).is_({'NOW': 1}) and [ast.unparse(x) for x in els[1:]] == ['self._part.id', 'self._part.quality', 'self._part.value']
        ents = dv.entries_of(P, c)
        k = dirty_pairing(ctx, o, c, None, False, 'received_part', payload_check=part_payload, entries=ents, is_write=acc_write,
                          what='the acceptance of a part', opaque=())
        nw[f'received_part:{c.name}'] = k
    # processing finished <-> produced_part
    if P.has_cls('PartProcessor'):
        c = P.cls('PartProcessor')
        NP = Normalizer(P, c)

        def fin_write(n):
            a = n.ast
            return n.kind == 'stmt' and isinstance(a, ast.Assign) and any(is_self_attr(t, '_output') for t in a.targets) and is_self_attr(a.value, '_part')

        def out_payload(cl, n):
            d = dv.datapoint(cl, n.frame)
            if d is None or d['elts'] is None or len(d['elts']) != 4 or d['sub'] != 'self.name':
                return False
            els = d['elts']
            return NP.norm(els[0], {}).is_({'NOW': 1}) and [ast.unparse(x) for x in els[1:]] == ['self._output.id', 'self._output.quality', 'self._output.value']
        nw['produced_part'] = dirty_pairing(ctx, o, c, None, False, 'produced_part', payload_check=out_payload, entries=dv.entries_of(P, c), is_write=fin_write,
                                            what='the end of a processing cycle', opaque=(), fixed_fields={})
    # sink counter <-> received_part
    if P.has_cls('Sink'):
        c = P.cls('Sink')
        nw['sink-count'] = dirty_pairing(ctx, o, c, '_received_parts_count', False, 'received_part', entries=dv.entries_of(P, c), opaque=())
    # failure occurrence <-> device_failure (exactly one record per _fail, whatever the machine state; none elsewhere)
    if P.has_cls('PartProcessor'):
        c = P.cls('PartProcessor')
        NF = Normalizer(P, c)
        nfail = 0
        for e in sorted(dv.entries_of(P, c)):
            g = ctx.graph(c, e)

            def fhook(an, n, before, after, g=g):
                st = after
                for cl in calls_at(g, n):
                    d_ = dv.datapoint(cl, n.frame) if call_attr(cl) == 'add_datapoint' else None
                    if d_ is not None and d_['label'] == 'device_failure':
                        okp = d_['sub'] == 'self.name' and d_['elts'] is not None and len(d_['elts']) == 2 and NF.norm(d_['elts'][0], {}).is_({'NOW': 1})
                        st = st.with_flag('failrec2' if 'failrec' in st.flags else 'failrec')
                        if not okp:
                            st = st.with_flag('failrec-bad')
                return st
            an = Analysis(P, g, ['_part', '_output', '_is_shut_down'])
            an.node_hooks.append(fhook)
            for sd, pv in (('T', 'N'), ('T', 'S'), ('F', 'N'), ('F', 'S')):
                s0 = State({'_part': pv, '_output': 'N', '_is_shut_down': sd})
                for p_ in dv.param_splits(P, c, e, g):
                    s1 = s0.copy()
                    s1.locals.update(p_)
                    res = ctx.explore(an, [s1])
                    for st in res.exits():
                        o.count()
                        n_rec = 2 if 'failrec2' in st.flags else (1 if 'failrec' in st.flags else 0)
                        want = 1 if e == '_fail' else 0
                        if e == '_fail':
                            nfail += 1
                            o.witness(('_fail', sd, pv))
                        if n_rec != want or 'failrec-bad' in st.flags:
                            state = f'machine {"already shut down" if sd == "T" else "running"}, {"a part" if pv == "S" else "no part"} in process'
                            o.fail(P, f'PartProcessor.{e}', "add_datapoint('device_failure', self.name, (now, lost part id))",
                                   (f'a failure ({state}) writes {n_rec} device_failure record(s); every failure must be logged exactly once with the current time' if e == '_fail'
                                    else f'{e} writes a device_failure record although no failure happened'), file=c.mod.path, line=dv.entry_fn(P, c, e).lineno,
                                   path=res.path_lines(g.exit, st))
        nw['device_failure'] = nfail
    o.stats = {'entry_points_with_a_write': nw}
    for k, v in nw.items():
        o.require(v >= 1, f'no entry point reaches a state change of kind {k}; the pairing rule would pass vacuously')
    o.sample({'pairs': sorted(nw)})

    # ---- C15.2 site table -------------------------------------------------------------------------
    o = Ob('C15.2', 'K8', 'every add_datapoint site: sub-label is the source name, the datapoint is a tuple starting with the current time; '
                          'Environment.add_datapoint appends it exactly once under (label, sub-label)')
    obs.append(o)
    dv.check_defaults(ctx, o, [('Part', '__init__', 'quality'), ('PartGenerator', '__init__', 'quality'), ('Environment', 'run', 'trace'), ('System', 'simulate', 'trace')])
    Asset = P.cls('Asset')
    sites = inv.method_calls(P, 'add_datapoint')
    o.require(len(sites) >= 5, f'only {len(sites)} add_datapoint sites found (expected 9)')
    labels = {}
    for s in sites:
        o.count()
        cl = s.node
        N = Normalizer(P, s.cls) if s.cls is not None else None
        bad = None
        names_ = ['list_label', 'sub_label', 'datapoint']
        b_ = dict(zip(names_, cl.args))
        b_.update({k.arg: k.value for k in cl.keywords if k.arg in names_})
        defs_ = single_defs(s.func) if s.func is not None else {}
        if len(b_) != 3:
            bad = 'add_datapoint must be given (label, sub-label, datapoint)'
        else:
            a0, a1, a2 = (subst(b_[k], defs_) for k in names_)
            if s.cls is not None:
                from ..norm import inline_accessors
                a2 = inline_accessors(P, s.cls, a2)        # a payload built by a small helper (`self._state_record()`) is the tuple it returns
            lbl = a0.value if isinstance(a0, ast.Constant) else ast.unparse(a0)
            fparams = [a_.arg for a_ in s.func.args.args] if s.func is not None else []
            if isinstance(a0, ast.Name) and a0.id in fparams and s.cls is not None:
                # the label is a parameter of a record helper (`_record_part_datapoint(label, part)`): the sites of kind <label> are the calls of
                # the helper with that constant label
                for cs_ in inv.method_calls(P, s.func.name):
                    bnd = dv.bind_method_call(P, cs_.cls, cs_.node) if cs_.cls is not None else None
                    v_ = (bnd or {}).get(a0.id)
                    if isinstance(v_, ast.Constant):
                        labels.setdefault(str(v_.value), []).append(cs_.ctx)
            labels.setdefault(str(lbl), []).append(s.ctx)
            sub = ast.unparse(a1)
            if s.cls is not None and Asset in s.cls.mro:
                if sub != 'self.name':
                    bad = 'the sub-label of a device record must be the device name'
            elif s.cls is RM:
                if sub not in [a.arg for a in s.func.args.args]:
                    bad = 'the sub-label of a resource record must be the resource name'
            dp = a2
            if not bad and not (isinstance(dp, ast.Tuple) and dp.elts and N is not None and N.norm(dp.elts[0], {}).is_({'NOW': 1})):
                bad = 'the datapoint must be a tuple whose first element is the current simulation time'
        if bad:
            o.fail(P, s.ctx, cl, bad, file=s.mod.path, line=s.line)
        else:
            o.witness(f'{s.ctx}:{s.line}')
            o.sample({'site': f'{P.rel(s.mod.path)}:{s.line}', 'in': s.ctx, 'label': str(lbl), 'sub_label': sub})
    need = {'received_part': 1, 'level': 1, 'produced_part': 1, 'device_failure': 1, 'supplied_new_part': 1, 'schedule_update': 1, 'resource_update': 1}
    for lbl, cnt in sorted(need.items()):
        o.count()
        have = len(labels.get(lbl, []))
        if have < cnt:
            Env = P.cls('Environment')
            o.fail(P, 'add_datapoint sites', f"add_datapoint('{lbl}', ...)", f"a record site of kind '{lbl}' has disappeared ({have} site(s), expected {cnt})",
                   file=Env.mod.path, line=Env.node.lineno)
    o.stats = {'labels': {k: sorted(set(v)) for k, v in labels.items()}}
    # maintainer record helper payload
    if P.has_cls('Maintainer'):
        M = P.cls('Maintainer')
        RH = dv.record_helper(P, M)
        if RH is None:
            raise AnalysisError('Maintainer: the helper that records work-order datapoints was not found')
        fn = P.method(M, RH[0])[1]
        o.count()
        cls_ = [x for x in ast.walk(fn) if isinstance(x, ast.Call) and call_attr(x) == 'add_datapoint']
        params = [a.arg for a in fn.args.args][1:]
        okm = False
        if len(cls_) == 1 and len(cls_[0].args) == 3 and isinstance(cls_[0].args[2], ast.Tuple) and len(cls_[0].args[2].elts) == 4:
            els = [ast.unparse(x) for x in cls_[0].args[2].elts[1:]]
            defs = single_defs(fn)
            nm = defs.get(els[0])
            from ..norm import inline_accessors, subst as _subst
            # the name may be read in place, through a local, or through a small helper of the class: `getattr(<order>.target, 'name', ...)`
            nm_ = inline_accessors(P, M, _subst(cls_[0].args[2].elts[1], defs))
            nm_t = ast.unparse(nm_)
            okm = ast.unparse(cls_[0].args[0]) == params[0] and els[1:] == [f'{params[1]}.tag', f'{params[1]}.info'] \
                and (nm_t.startswith(f"getattr({params[1]}.target, 'name'") or nm_t == f'{params[1]}.target.name')
        if not okm:
            o.fail(P, f'Maintainer.{RH[0]}', '(now, target name, tag, info)', 'a work-order record must carry (time, target name, tag, info) under the given label', file=M.mod.path, line=fn.lineno)
        else:
            o.witness('work-order-payload')
    # device_failure payload checked by C13.2; add_datapoint itself:
    Env = P.cls('Environment')
    g = ctx.graph(Env, 'add_datapoint')
    fn0 = P.method(Env, 'add_datapoint')[1]
    import copy as _copy
    from ..cfg import prepass as _prepass
    fn = _copy.copy(fn0)                # the body as the graph builder sees it (aliases of self.simulation_data read as the field)
    fn.body = _prepass(P, fn0)
    lp, sp, dpn = [a.arg for a in fn.args.args][1:4]

    def store_hook(an, n, before, after):
        st = after
        a = n.ast
        for cl in calls_at(an.g, n):
            if call_attr(cl) == 'append' and [ast.unparse(x) for x in cl.args] == [dpn]:
                import re as _re
                # `d.setdefault(k, [])` / `d.setdefault(k, {})` is the look-up-or-create form of `d[k]`
                rv = _re.sub(r'\.setdefault\((\w+),(\[\]|\{\})\)', r'[\1]', dv.canon_text(cl.func.value, n.frame))
                rv = _re.sub(r'\.get\((\w+)\)', r'[\1]', rv)        # `d.get(k)` followed by a None test is the look-up form of `d[k]`
                st = st.with_flag('stored2' if 'stored' in st.flags else 'stored')
                st = st.with_flag('where:' + rv)
        if n.kind == 'stmt' and isinstance(a, ast.Assign) and isinstance(a.targets[0], ast.Subscript) and isinstance(a.value, ast.List) \
                and [ast.unparse(x) for x in a.value.elts] == [dpn]:
            st = st.with_flag('stored2' if 'stored' in st.flags else 'stored')
            st = st.with_flag('where:' + ast.unparse(a.targets[0]))
        return st
    an = Analysis(P, g, [])
    an.node_hooks.append(store_hook)
    res = ctx.explore(an, [State({})], follow_exc=True)
    defs = single_defs(fn)
    for st in res.exits():
        o.count()
        wh = sorted(f[6:] for f in st.flags if f.startswith('where:'))
        okw = 'stored' in st.flags and 'stored2' not in st.flags and len(wh) == 1 and wh[0].endswith(f'[{sp}]')
        if not okw:
            o.fail(P, 'Environment.add_datapoint', f'table_dictionary[{sp}].append({dpn})', f'a path through add_datapoint does not store the datapoint exactly once under the sub-label (stores: {wh or "none"})',
                   file=Env.mod.path, line=fn.lineno, path=res.path_lines(g.exit, st))
        else:
            o.witness('add_datapoint-path')
    # the table the datapoint goes into is the one registered under the label: every binding of the table variable is either a look-up of
    # self.simulation_data[label] or a fresh dict that is also stored there
    o.count()
    want_t = f'self.simulation_data[{lp}]'
    wh_all = sorted({f[6:] for st in res.exits() for f in st.flags if f.startswith('where:')})
    bases = {w[:-len(f'[{sp}]')] if w.endswith(f'[{sp}]') else w.split('[')[0] for w in wh_all}
    okb = bool(bases)
    for b_ in bases:
        if b_ == want_t:
            continue
        binds = [s_ for s_ in ast.walk(fn) if isinstance(s_, ast.Assign) and any(isinstance(t, ast.Name) and t.id == b_ for t in s_.targets)]
        if not binds:
            okb = False
        for s_ in binds:
            tg = [ast.unparse(t) for t in s_.targets]
            if ast.unparse(s_.value) == want_t:
                continue
            fresh = isinstance(s_.value, ast.Dict) and not s_.value.keys
            registered = want_t in tg or any(isinstance(x, ast.Assign) and want_t in [ast.unparse(t) for t in x.targets] and ast.unparse(x.value) == b_ for x in ast.walk(fn))
            if not (fresh and registered):
                okb = False
    if not okb:
        o.fail(P, 'Environment.add_datapoint', want_t, 'the table of a label is not looked up / created under that label', file=Env.mod.path, line=fn.lineno)

    # ---- C15.3 ----------------------------------------------------------------------------------------
    o = Ob('C15.3', 'K2', 'ResourceManager.initialize sets the environment and records every known resource')
    obs.append(o)
    fn = P.method(RM, 'initialize')[1]
    o.count()
    loops = [l for l in ast.walk(fn) if isinstance(l, ast.For) and ast.unparse(l.iter) in ('self._resources.keys()', 'self._resources')]
    okr = len(loops) == 1 and isinstance(loops[0].target, ast.Name) and any(
        isinstance(x, ast.Call) and call_attr(x) == '_record_resource_amount_update' and [ast.unparse(a) for a in x.args] == [loops[0].target.id] for x in ast.walk(loops[0]))
    g = ctx.graph(RM, 'initialize')
    envset = [n for n in g.nodes.values() if n.kind == 'stmt' and isinstance(n.ast, ast.Assign) and any(is_self_attr(t, '_env') for t in n.ast.targets)]
    lpn = [n for n in g.nodes.values() if n.kind == 'for' and n.frame is g.top]
    if not okr or not envset or not lpn or not g.dominated_by(lpn[0].id, {envset[0].id}) or g.exit in g.reach([g.entry], avoid={lpn[0].id}, follow=lambda l: l != 'exc'):
        o.fail(P, 'ResourceManager.initialize', 'for resource_name in self._resources.keys(): self._record_resource_amount_update(resource_name)',
               'the initial amounts of all resources are not recorded at initialisation', file=RM.mod.path, line=fn.lineno)
    else:
        o.witness('initial-records')

    # ---- C15.4 trace --------------------------------------------------------------------------------------
    o = Ob('C15.4', 'K2+K3', 'trace: run() stores the flag; step() records the event before executing it when tracing; the record goes under a running index '
                             'incremented once; run() exports the trace in a finally block; the export dumps the trace')
    obs.append(o)
    OP = ('step', 'schedule_event')
    g = ctx.graph(Env, 'step', opaque=OP)          # the recording helper, if there is one, is inlined: the rule is about what a step does
    from .c01 import HEAD_REMOVE_FUNCS
    NE = Normalizer(P, Env)

    def is_head_removal(c):
        return (call_attr(c) == 'pop' and isinstance(c.func, ast.Attribute) and ast.unparse(c.func.value) == 'self._events' and len(c.args) == 1
                and isinstance(c.args[0], ast.Constant) and c.args[0].value == 0) or \
               (ast.unparse(c.func) in HEAD_REMOVE_FUNCS and c.args and ast.unparse(c.args[0]) == 'self._events')

    def head_expr(an_, e, st, frame):
        if isinstance(e, ast.Call) and is_head_removal(e):
            return 'head'
        return NotImplemented

    def th(an_, n, before, after):
        st = after
        a = n.ast
        for c in calls_at(g, n):
            if call_attr(c) == 'execute' and isinstance(c.func, ast.Attribute) and an_.ev(c.func.value, before, n.frame) == 'head':
                st = st.with_flag('executed')
        if n.kind == 'stmt' and isinstance(a, (ast.Assign, ast.AugAssign)):
            tg = a.targets if isinstance(a, ast.Assign) else [a.target]
            env_ = FrameEnv(n.frame)
            for t in tg:
                if isinstance(t, ast.Subscript) and is_self_attr(t.value, '_event_trace') and isinstance(a, ast.Assign):
                    key_ok = NE.norm(t.slice, env_).is_({'self._event_index': 1})
                    # `trace[len(trace)] = record`: the table's own size is the running index, and storing under it advances it by one
                    key_len = ast.unparse(subst(t.slice, env_)) == 'len(self._event_trace)'
                    v = subst(a.value, env_)
                    # the record is a dict built from the event taken from the head of the queue
                    mentions_head = any(isinstance(x, ast.Name) and an_.ev(x, before, n.frame) == 'head' for x in ast.walk(a.value)) or \
                        any(isinstance(x, ast.Call) and is_head_removal(x) for x in ast.walk(v))
                    if not mentions_head and isinstance(a.value, ast.Name):
                        r_ = env_.resolve(a.value.id)
                        if r_ is not None:
                            fr_ = r_[1].frame if isinstance(r_[1], FrameEnv) and getattr(r_[1], 'frame', None) is not None else n.frame
                            mentions_head = any(isinstance(x, ast.Name) and an_.ev(x, before, fr_) == 'head' for x in ast.walk(r_[0]))
                    val_ok = isinstance(v, ast.Dict) and mentions_head
                    if not val_ok and isinstance(a.value, ast.Call) and isinstance(a.value.func, ast.Attribute) and an_.ev(a.value.func.value, before, n.frame) == 'head':
                        # the record is built by a method of the event itself (`event._get_trace_entry(now)`): the one definition of that name returns
                        # a dict display built from self
                        from ..cfg import _unique_methods
                        from ..norm import simple_return
                        um = _unique_methods(P).get(a.value.func.attr)
                        ret_ = simple_return(um[1]) if um else None
                        val_ok = isinstance(ret_, ast.Dict) and any(isinstance(x, ast.Name) and x.id == 'self' for x in ast.walk(ret_))
                    if not val_ok:
                        # ... or by a static / class-level helper of the environment given the event (`Environment._make_trace_record(self.now, event)`)
                        cv = a.value
                        if isinstance(cv, ast.Name):
                            r_ = env_.resolve(cv.id)
                            cv = r_[0] if r_ is not None else cv
                        if isinstance(cv, ast.Call) and isinstance(cv.func, ast.Attribute) and ast.unparse(cv.func.value) in ('Environment', 'self', 'type(self)') \
                                and cv.func.attr in Env.methods and any(isinstance(x, ast.Name) and an_.ev(x, before, n.frame) == 'head' for arg in cv.args for x in ast.walk(arg)):
                            from ..norm import simple_return
                            ret_ = simple_return(Env.methods[cv.func.attr])
                            hp = [p_.arg for p_ in Env.methods[cv.func.attr].args.args]
                            val_ok = isinstance(ret_, ast.Dict) and any(isinstance(x, ast.Name) and x.id in hp for x in ast.walk(ret_))
                    fl = 'stored' if (key_ok or key_len) and val_ok else 'stored-wrong'
                    if key_len and val_ok and 'advanced' not in st.flags and 'executed' not in st.flags:
                        st = st.with_flag('advanced')
                        st = st.with_flag('stored-twice' if 'stored' in st.flags else 'stored')
                        continue
                    if 'advanced' in st.flags:
                        fl = 'stored-after-advance'
                    if 'executed' in st.flags:
                        fl = 'stored-after-execute'
                    st = st.with_flag('stored-twice' if 'stored' in st.flags else fl)
                if is_self_attr(t, '_event_index'):
                    newv = NE.norm(ast.BinOp(left=a.target, op=a.op, right=a.value) if isinstance(a, ast.AugAssign) else a.value, env_)
                    st = st.with_flag(('advanced-twice' if 'advanced' in st.flags else 'advanced') if newv.is_({'self._event_index': 1}, 1) else 'index-wrong')
        return st
    an = Analysis(P, g, ['_trace'])
    an.expr_hooks.append(head_expr)
    an.node_hooks.append(th)
    stepfn = P.method(Env, 'step')[1]
    for tv in 'TF':
        res = ctx.explore(an, [State({'_trace': tv})])
        o.require(res.exits(), 'Environment.step has no normal exit')
        for st in res.exits():
            o.count()
            fl = {f for f in st.flags if f.startswith(('stored', 'advanced', 'index', 'executed'))}
            want = {'stored', 'advanced', 'executed'} if tv == 'T' else {'executed'}
            if fl != want:
                o.fail(P, 'Environment.step', 'if self._trace: self._event_trace[self._event_index] = {...}; self._event_index += 1',
                       f'with tracing {"enabled" if tv == "T" else "disabled"} a step does {sorted(fl)}; expected {sorted(want)} (every executed event is recorded once under the '
                       'running index, which is then advanced by one, before the event is executed; nothing without tracing)',
                       file=Env.mod.path, line=stepfn.lineno, path=res.path_lines(g.exit, st))
            else:
                o.witness(('step-trace', tv))
                if tv == 'T':
                    o.witness('index')
    g = ctx.graph(Env, 'run', opaque=OP)
    fn = P.method(Env, 'run')[1]
    o.count()
    tp = [a.arg for a in fn.args.args][2] if len(fn.args.args) > 2 else 'trace'
    setf = [n for n in g.nodes.values() if n.kind == 'stmt' and isinstance(n.ast, ast.Assign) and any(is_self_attr(t, '_trace') for t in n.ast.targets) and ast.unparse(n.ast.value) == tp]
    steps = [n for n in g.nodes.values() if any(call_attr(c) == 'step' for c in calls_at(g, n))]

    def is_dump(x):
        return isinstance(x, ast.Call) and ast.unparse(x.func) in ('json.dump', 'dump') and x.args and ast.unparse(x.args[0]) == 'self._event_trace'
    exports = [n for n in g.nodes.values() if any(is_dump(c) for c in calls_at(g, n))]

    def reaches(stmts, pred, seen=()):
        """do these statements contain a call satisfying pred, directly or through helpers of Environment called on self?"""
        for s_ in stmts:
            for x in ast.walk(s_):
                if isinstance(x, ast.Call) and pred(x):
                    return True
                if isinstance(x, ast.Call) and isinstance(x.func, ast.Attribute) and is_self_attr(x.func):
                    hit = P.lookup(Env, x.func.attr)
                    if hit and hit[1] == 'method' and x.func.attr not in seen and reaches(hit[2].body, pred, seen + (x.func.attr,)):
                        return True
        return False

    def is_step(x):
        return isinstance(x.func, ast.Attribute) and is_self_attr(x.func) and x.func.attr == 'step'

    def reachable_funcs(f0, seen=None):
        seen = seen if seen is not None else {}
        seen[f0.name] = f0
        for x in ast.walk(f0):
            if isinstance(x, ast.Call) and isinstance(x.func, ast.Attribute) and is_self_attr(x.func) and x.func.attr not in seen and x.func.attr not in ('step', 'schedule_event'):
                hit = P.lookup(Env, x.func.attr)
                if hit and hit[1] == 'method':
                    reachable_funcs(hit[2], seen)
        return seen
    tries = [t for f_ in reachable_funcs(fn).values() for t in ast.walk(f_)
             if isinstance(t, ast.Try) and t.finalbody and reaches(t.finalbody, is_dump) and reaches(t.body, is_step)]
    okr = bool(setf) and bool(steps) and bool(exports) and len(tries) == 1 and all(g.dominated_by(s_.id, {setf[0].id}) for s_ in steps)
    if okr:
        an = Analysis(P, g, ['_trace', '_terminated'])

        def eh(an_, n, before, after):
            if n in exports:
                return after.with_flag('exported')
            return after
        an.node_hooks.append(eh)
        for tv in 'TF':
            s0 = State({'_trace': TOP, '_terminated': TOP})
            s0.locals[(g.top.id, tp)] = tv
            res = ctx.explore(an, [s0])
            for st in res.exits():
                o.count()
                if ('exported' in st.flags) != (tv == 'T'):
                    okr = False
    if not okr:
        o.fail(P, 'Environment.run', 'try: ... finally: if self._trace: json.dump(self._event_trace, ...)', 'run() must store the trace flag before stepping and export the recorded trace '
               '(json.dump of self._event_trace) in a finally block exactly when tracing', file=Env.mod.path, line=fn.lineno)
    else:
        o.witness('run-export')
        o.witness('dump')
    # the trace table and its running index exist before the first traced step: both are given their initial value where the environment is (re)set
    for a_, init_ok in (('_event_trace', lambda v: isinstance(v, ast.Dict) and not v.keys), ('_event_index', lambda v: isinstance(v, ast.Constant) and v.value == 0)):
        if a_ == '_event_index' and not inv.attr_uses(P, '_event_index'):
            continue          # no separate counter: the size of the table is the index
        o.count()
        ini = [s_ for s_ in inv.attr_stores(P, a_) if s_.cls is Env and s_.func.name in inv.covered(P, {'_reset', '__init__'}) and isinstance(s_.stmt, ast.Assign) and init_ok(s_.stmt.value)]
        if not ini:
            o.fail(P, 'Environment._reset', f'self.{a_} = ' + ('{}' if a_ == '_event_trace' else '0'), f'Environment.{a_} is not given its initial value when the environment is set up: the first traced '
                   'step fails, or the trace starts at another index', file=Env.mod.path, line=Env.node.lineno)
        else:
            o.witness(('initial', a_))
    for a_, owners in (('_event_trace', {'_reset'}), ('_event_index', {'_reset', '_trace_event', 'step'}), ('_trace', {'_reset', 'run'})):
        for s in inv.attr_stores(P, a_):
            o.count()
            if not (s.cls is Env and s.func.name in inv.covered(P, owners)):
                o.fail(P, s.ctx, s.stmt, f'Environment.{a_} is written outside {sorted(owners)}', file=s.mod.path, line=s.line)
    # ---- C15.5 what the trace reads from an action, every scheduled action has ------------------------------------------
    o = Ob('C15.5', 'K9', 'writer / reader agreement on scheduled actions: every attribute the trace (and the failed-event report) reads from event.action '
                          'exists on every kind of callable that the package schedules (bound methods, functions, lambdas, functools.partial objects)')
    obs.append(o)
    reads = []
    for m_, c_, f_ in inv.functions(P):
        if c_ is None or c_.name != 'Environment':
            continue
        for x in ast.walk(f_):
            if isinstance(x, ast.Attribute) and isinstance(x.ctx, ast.Load) and isinstance(x.value, ast.Attribute) and x.value.attr == 'action' \
                    and x.attr.startswith('__') and x.attr not in ('__call__', '__class__', '__doc__'):
                reads.append((f_.name, x.attr, x.lineno))
    LACKS = {'partial': {'__name__', '__qualname__', '__code__', '__defaults__', '__self__'}}
    n_sites = 0
    for s_ in inv.method_calls(P, 'schedule_event'):
        b_ = bind_call(s_.node, SCHED_PARAMS)
        act = b_.get('action')
        if act is None:
            continue
        n_sites += 1
        o.count()
        kind = 'callable'
        if isinstance(act, ast.Name) and s_.func is not None:
            act = single_defs(s_.func).get(act.id, act)
        if isinstance(act, ast.Call) and call_attr(act) == 'partial':
            kind = 'partial'
        missing = sorted({a for _, a, _ in reads} & LACKS.get(kind, set()))
        if missing:
            rd = [r for r in reads if r[1] in missing][0]
            o.fail(P, s_.ctx, s_.node, f'this event is scheduled with a functools.partial action, but Environment.{rd[0]} reads event.action.{rd[1]} (line {rd[2]}), which a partial '
                   'does not have: with tracing enabled the run aborts with AttributeError when this event is executed, so the trace does not list the executed events',
                   file=s_.mod.path, line=s_.line)
        else:
            o.witness((s_.ctx, kind))
    o.require(n_sites >= 6, f'only {n_sites} schedule_event sites with an action found')
    o.stats = {'attributes_read_from_actions': sorted({(f, a) for f, a, _ in reads})}
    # ---- C15.8 cancelled events in the trace ------------------------------------------------------------------------------------
    o8 = Ob('C15.8', 'K2', 'an event is traced before it is executed, so a cancelled event -- popped, never run -- is listed too: its entry says so (a status '
                           'read from the cancelled flag), or cancelled events are not recorded; otherwise the trace lists events that never happened')
    obs.append(o8)
    from ..norm import simple_return, single_defs as _sd8
    from ..cfg import _unique_methods
    n_rec = 0
    for s_ in inv.attr_uses(P, '_event_trace'):
        if s_.extra['role'][0] != 'subscript-store' or s_.cls is not Env or not isinstance(s_.stmt, ast.Assign):
            continue
        n_rec += 1
        o8.count()
        v = s_.stmt.value
        d8 = _sd8(s_.func)
        if isinstance(v, ast.Name) and v.id in d8:
            v = d8[v.id]
        rec = v if isinstance(v, ast.Dict) else None
        if rec is None and isinstance(v, ast.Call) and isinstance(v.func, ast.Attribute):
            # built by a helper: a (static) method of the environment, or a method only the event class defines
            fd = None
            if ast.unparse(v.func.value) in ('Environment', 'self', 'type(self)') and v.func.attr in Env.methods:
                fd = Env.methods[v.func.attr]
            else:
                um = _unique_methods(P).get(v.func.attr)
                fd = um[1] if um else None
            r_ = simple_return(fd) if fd is not None else None
            rec = r_ if isinstance(r_, ast.Dict) else None
        if rec is None:
            o8.notes.append(f'{s_.ctx}: the trace record is not a dict display the rule can read (C15.4 reports what it is)')
            continue
        keys = {k.value: val for k, val in zip(rec.keys, rec.values) if isinstance(k, ast.Constant)}
        marks = [val for val in keys.values() if any(isinstance(x, ast.Attribute) and x.attr == 'cancelled' for x in ast.walk(val))]
        par = s_.mod.parents.get(s_.stmt)
        guarded = False
        while par is not None and not isinstance(par, ast.FunctionDef):
            if isinstance(par, ast.If) and any(isinstance(x, ast.Attribute) and x.attr == 'cancelled' for x in ast.walk(par.test)):
                guarded = True
            par = s_.mod.parents.get(par)
        if marks or guarded:
            o8.witness(('marked' if marks else 'not-recorded', s_.ctx))
        else:
            o8.fail(P, s_.ctx, s_.stmt, 'the trace entry of an event does not depend on whether the event was cancelled (the status is read before execute() sets it): '
                    'a cancelled event -- e.g. the end-of-cycle timer of a machine that failed -- is listed exactly like an executed one', file=s_.mod.path, line=s_.line)
    o8.require(n_rec >= 1, 'no store into the event trace found')
    obs.append(ctx.shared('c16', 'C16.6', 'C15.6', 'a record carries the value of the part at that moment: for a batch that is the sum over its parts computed when read '
                          '(a cached sum shows the value from before processing)'))
    obs.append(ctx.shared('c13', 'C13.8', 'C15.7', 'a failure record names the part that was lost: the test that decides between the part\'s id and "nothing lost" is a truth test '
                          'on the part, which is right only while no class of the Part hierarchy can be falsy (an empty batch with __len__ is recorded as nothing)'))
    return obs


CLAIM = {
    'technique': 'static analysis: dirty-bit typestate pairing of state writes with their add_datapoint records over all computed entry points, '
                 'call-site table with normal forms of time stamps and payloads, path analysis of add_datapoint and the trace machinery',
    'level_text': 'No state change of the listed kinds can happen without its record, with the right label, source, time stamp and payload, on any path; '
                  'record-vs-state equality after every event of a run is not executed.',
    'level_note': 'Run-to-completion of entry points.',
}
