"""C11 -- a processor works only while holding exactly the resources it requires."""
import ast
import itertools

from .. import AnalysisError
from ..report import Ob
from ..cfg import calls_at, call_attr, is_self_attr
from ..state import Analysis, State, TOP, sched_calls, sched_event_type, sched_action_name, bind_call, SCHED_PARAMS
from ..norm import Normalizer, FrameEnv, subst
from .. import inventory as inv
from .. import devices as dv
from .c02 import construct_and_initialize

EXPLANATION = '''
Static analysis of PartProcessor's resource handling (part_processor.py) by typestate exploration of every computed entry
point of the concrete class with the reservation field, the declared requirement and a ghost for the device's own
RELEASE_RESERVED_RESOURCES event (none / live / paused).
Decided: (C11.1) the part is stored in the input slot only with "no requirement declared or a reservation held";
(C11.2) the reservation field becomes non-None only from reserve_resources(declared requirement); (C11.3) whenever the
reservation is released (always completely, release() without arguments) the field is None again before the entry point
returns; (C11.4) a failure releases; (C11.5) finishing a cycle while holding schedules the idle check at the current
instant, under the device id, with an event type below PASS_PART and FINISH_PROCESSING so that a part arriving at the same
instant is seen first; (C11.6) inductive over all entry points: (holding and input slot empty) => an idle check is
pending, (part in process and requirement declared) => holding, the idle check releases iff the machine is down or idle.
NOT decided: that a pool's usage equals the sum of the requirements of the current holders (a global sum over objects).
'''
ASSUMPTIONS = ['run-to-completion of entry points', 'ReservedResources.release() gives back everything (decided structurally by C09.4)']
MIN_INSTANCES = 300

TR = ['_part', '_output', '_is_shut_down', '_block_input', '_reserved_resources', '_resources_for_processing', '#release']


def res_inv(f):
    if not dv.slot_invariant('PartProcessor', f):
        return False
    hold = f['_reserved_resources'] == 'S'
    down = f['_is_shut_down'] == 'T'
    if hold and f['_resources_for_processing'] != 'S':
        return False
    if hold and not dv.full(f['_part']) and f['#release'] == 'F':
        return False                                           # R: idle holder => idle check pending
    if dv.full(f['_part']) and f['_resources_for_processing'] == 'S' and not hold:
        return False                                           # H: in process with a requirement => holding
    if down and f['#release'] == 'T':
        return False                                           # a live event of a machine that is down
    if not down and f['#release'] == 'P':
        return False
    return True


def release_hook(an, n, before, after):
    st = after
    for cl in calls_at(an.g, n):
        if call_attr(cl) == 'release' and isinstance(cl.func, ast.Attribute) and is_self_attr(subst(cl.func.value, FrameEnv(n.frame)), '_reserved_resources'):
            st = st.with_flag('released' if not (cl.args or cl.keywords) else 'released-partially')
            st = st.with_field('_reserved_resources', 'R')      # R = a released reservation object (stale)
    return st


def check(ctx):
    P = ctx.P
    if not P.has_cls('PartProcessor'):
        raise AnalysisError('class PartProcessor not found')
    c = P.cls('PartProcessor')
    actions = dv.action_event_types(P)
    obs = []

    # ---- C11.1 -------------------------------------------------------------------------------
    o = Ob('C11.1', 'K5', 'the part is stored in the input slot only with: no requirement declared, or a reservation held')
    obs.append(o)
    g = ctx.graph(c, 'give_part')
    stores = [n for n in g.nodes.values() if n.kind == 'stmt' and isinstance(n.ast, ast.Assign) and any(is_self_attr(t, '_part') for t in n.ast.targets)
              and not (isinstance(n.ast.value, ast.Constant) and n.ast.value.value is None)]
    an = Analysis(P, g, TR, call_models={'reserve_resources': TOP})
    an.node_hooks.append(release_hook)
    o.require(stores, 'PartProcessor.give_part never stores the part')
    for req, held in itertools.product('NS', 'NS'):
        if held == 'S' and req == 'N':
            continue
        s0 = State({'_part': 'N', '_output': 'N', '_is_shut_down': 'F', '_block_input': 'F', '_reserved_resources': held,
                    '_resources_for_processing': req, '#release': 'T' if held == 'S' else 'F'})
        s0.locals[(g.top.id, 'part')] = 'S'
        res = ctx.explore(an, [s0])
        for sn in stores:
            for st in res.at(sn.id):
                o.count()
                o.witness((req, held))
                if st.fields['_resources_for_processing'] != 'N' and st.fields['_reserved_resources'] != 'S':
                    o.fail(P, 'PartProcessor.give_part', None, f'a part is accepted for processing without the declared resources being held (state {st.show()})',
                           node=sn, path=res.path_lines(sn.id, st))
        o.sample({'entry': s0.show(), 'states_at_store': [s.show() for sn in stores for s in res.at(sn.id)][:2]})

    # ---- C11.2 -------------------------------------------------------------------------------
    o = Ob('C11.2', 'K1+K6', 'the reservation field is set only to None or to reserve_resources(self._resources_for_processing)')
    obs.append(o)
    for s in inv.attr_stores(P, '_reserved_resources'):
        if s.cls is None or s.cls.name != 'PartProcessor':
            continue
        o.count()
        v = s.stmt.value if isinstance(s.stmt, ast.Assign) else None
        okv = isinstance(v, ast.Constant) and v.value is None
        if v is not None and s.func is not None:
            from ..norm import single_defs as _sd
            v = subst(v, _sd(s.func))          # through locals (`needed = self._resources_for_processing`, `rm = self.env.resource_manager`)
        if isinstance(v, ast.Call) and call_attr(v) == 'reserve_resources' and len(v.args) == 1 and is_self_attr(v.args[0], '_resources_for_processing') \
                and 'resource_manager' in ast.unparse(v.func):
            okv = True
            o.witness(s.ctx)
        if not okv:
            o.fail(P, s.ctx, s.stmt, 'the reservation is obtained other than by reserving exactly the declared requirement', file=s.mod.path, line=s.line)
    for s in inv.attr_stores(P, '_resources_for_processing'):
        o.count()
        if not (s.cls is c and s.func.name == '__init__'):
            o.fail(P, s.ctx, s.stmt, 'the declared requirement is changed after construction', file=s.mod.path, line=s.line)

    # ---- C11.6 (and C11.3 / C11.4 on the same exploration) ---------------------------------------
    o6 = Ob('C11.6', 'K5', 'inductive over all entry points: (holding and input slot empty) => idle check pending; (part in process and requirement) => holding; '
                           'no live event while down; holds after construction + initialisation')
    o3 = Ob('C11.3', 'K5', 'whenever the reservation is released it is released completely and the field is None again before the entry point returns')
    o4 = Ob('C11.4', 'K3', 'a failure releases the reservation')
    dom = dv.base_domain(P, c)
    dom['_block_input'] = ['F', 'T']      # a blocked input refuses parts: nothing may be reserved for a part that is then refused
    dom['_reserved_resources'] = ['N', 'S']
    dom['_resources_for_processing'] = ['N', 'S']
    dom['#release'] = ['T', 'F', 'P']

    def entry_filter(e, kind, s0):
        f = s0.fields
        if 'RELEASE_RESERVED_RESOURCES' in actions.get(e, ()):
            if f['#release'] != 'T':
                return None
            return s0        # worst case handled below: also explored with the ghost consumed
        if 'FINISH_PROCESSING' in actions.get(e, ()) and not (dv.full(f['_part']) and f['_is_shut_down'] == 'F' and not dv.full(f['_output'])):
            return None
        return s0
    for e, kind, g, s0, res in dv.explore_all(ctx, c, TR, dom, res_inv, node_hooks=[dv.ghost_hook({'#release'}), release_hook],
                                              call_models={'reserve_resources': TOP}, entry_filter=entry_filter):
        runs = [(s0, res)]
        if 'RELEASE_RESERVED_RESOURCES' in actions.get(e, ()):
            s1 = s0.with_field('#release', 'F')           # the fired check was the only one pending
            an = Analysis(P, g, TR, call_models={'reserve_resources': TOP})
            an.node_hooks.extend([dv.ghost_hook({'#release'}), release_hook])
            runs.append((s1, ctx.explore(an, [s1])))
        for s_in, r in runs:
            for st in r.exits():
                o6.count()
                o3.count()
                f = st.fields
                if f['_reserved_resources'] == 'S':
                    o6.witness((e, 'holding'))
                if 'released' in st.flags or 'released-partially' in st.flags:
                    o3.witness(e)
                    if f['_reserved_resources'] != 'N' or 'released-partially' in st.flags:
                        ln = dv.last_node(r, g.exit, st, lambda n: n.kind == 'stmt' and '.release(' in n.src())
                        o3.fail(P, f'PartProcessor.{e}', ln.ast if ln else 'self._reserved_resources.release()',
                                'the reservation is released but the processor keeps the stale reservation object (it would process later parts without resources)'
                                if f['_reserved_resources'] != 'N' else 'the reservation is released only partially', node=ln, file=c.mod.path,
                                path=r.path_lines(g.exit, st))
                if e == '_fail':
                    o4.count()
                    if s_in.fields['_reserved_resources'] == 'S':
                        o4.witness(s_in.show())
                        if 'released' not in st.flags:
                            o4.fail(P, 'PartProcessor._fail', 'self._release_reserved_resources()', 'a failing processor keeps its reserved resources',
                                    file=c.mod.path, line=P.method(c, '_fail')[1].lineno, path=r.path_lines(g.exit, st))
                f2 = dict(f)
                if f2['_reserved_resources'] == 'R':
                    continue      # reported by C11.3
                if not res_inv(f2):
                    hold = f2['_reserved_resources'] == 'S'
                    what = ('an idle processor keeps its resources with no release check pending' if hold and not dv.full(f2['_part']) and f2['#release'] == 'F' else
                            'a part is in process without the declared resources' if dv.full(f2['_part']) and f2['_resources_for_processing'] == 'S' and not hold else
                            'a release check of the device is live while the machine is down (or paused while it is up)')
                    ln = dv.last_node(r, g.exit, st, lambda n: n.kind in ('stmt', 'cond', 'return') and n.ast is not None)
                    o6.fail(P, f'PartProcessor.{e}', ln.ast if ln else e, f'{what}: entry {s_in.show()} -> exit {st.show()}', node=ln, file=c.mod.path,
                            path=r.path_lines(g.exit, st))
    for st in construct_and_initialize(ctx, c, TR, extra_hooks=[dv.ghost_hook({'#release'}), release_hook]):
        o6.count()
        f = dict(st.fields)
        for k in ('_block_input', '_resources_for_processing'):
            if f.get(k) == TOP:
                f[k] = 'S' if k == '_resources_for_processing' else 'F'
        if not res_inv(f):
            o6.fail(P, 'PartProcessor.initialize', 'initialize', f'after construction and initialisation: {st.show()}', file=c.mod.path, line=c.node.lineno)
        else:
            o6.witness('base')
    # the idle check releases iff down or idle
    g = ctx.graph(c, '_release_resources_if_idle')
    an = Analysis(P, g, TR)
    an.node_hooks.append(release_hook)
    for pv, sd in itertools.product('NS', 'TF'):
        s0 = State({'_part': pv, '_output': 'N', '_is_shut_down': sd, '_block_input': 'F', '_reserved_resources': 'S', '_resources_for_processing': 'S', '#release': 'F'})
        res = ctx.explore(an, [s0])
        for st in res.exits():
            o6.count()
            want = sd == 'T' or pv == 'N'
            got = 'released' in st.flags
            o6.witness(('idle-check', pv, sd))
            if want != got:
                o6.fail(P, 'PartProcessor._release_resources_if_idle', 'if not self.is_operational() or self._part == None: self._release_reserved_resources()',
                        f'the idle check {"keeps" if want else "releases"} the resources of a machine that is {"down" if sd == "T" else "up"} and {"idle" if pv == "N" else "processing"}',
                        file=c.mod.path, line=P.method(c, '_release_resources_if_idle')[1].lineno, path=res.path_lines(g.exit, st))
    o6.sample({'invariants': ['holding and _part empty => #release pending', '_part full and requirement => holding', 'down => no live #release'],
               'entry_points': len(dv.entries_of(P, c))})

    # ---- C11.5 ----------------------------------------------------------------------------------------
    o5 = Ob('C11.5', 'K8+K15', 'finishing a cycle while holding schedules the idle check at the current instant under the device id with type '
                               'RELEASE_RESERVED_RESOURCES, which is below PASS_PART and FINISH_PROCESSING')
    g = ctx.graph(c, '_finish_cycle')
    N = Normalizer(P, c)
    an = Analysis(P, g, TR)

    def h5(an_, n, before, after):
        st = after
        for cl in sched_calls(an_.g, n):
            if sched_event_type(cl) == 'RELEASE_RESERVED_RESOURCES':
                b = bind_call(cl, SCHED_PARAMS)
                good = 'time' in b and N.norm(b['time'], FrameEnv(n.frame)).is_({'NOW': 1}) and ast.unparse(b.get('asset_id', ast.Constant(0))) == 'self.id' \
                    and sched_action_name(cl) == '_release_resources_if_idle'
                st = st.with_flag('idle-check' if good else 'idle-check-wrong')
        return st
    an.node_hooks.append(h5)
    for held in 'NS':
        s0 = State({'_part': 'S', '_output': 'N', '_is_shut_down': 'F', '_block_input': 'F', '_reserved_resources': held,
                    '_resources_for_processing': held, '#release': 'F'})
        res = ctx.explore(an, [s0])
        for st in res.exits():
            o5.count()
            o5.witness(held)
            if 'idle-check-wrong' in st.flags or (held == 'S') != ('idle-check' in st.flags):
                o5.fail(P, 'PartProcessor._finish_cycle', 'self._env.schedule_event(self._env.now, self.id, self._release_resources_if_idle, EventType.RELEASE_RESERVED_RESOURCES)',
                        'a processor that finishes a part while holding resources must schedule its idle check for the current instant under its own id'
                        if held == 'S' else 'an idle check is scheduled although nothing is held', file=c.mod.path,
                        line=P.method(c, '_finish_cycle')[1].lineno, path=res.path_lines(g.exit, st))
    mem = dict(inv.enum_members(P, P.cls('EventType')))
    o5.count()
    need = ('RELEASE_RESERVED_RESOURCES', 'PASS_PART', 'FINISH_PROCESSING')
    if not all(k in mem for k in need):
        raise AnalysisError('EventType members RELEASE_RESERVED_RESOURCES / PASS_PART / FINISH_PROCESSING not found')
    if not (mem['RELEASE_RESERVED_RESOURCES'] < mem['PASS_PART'] and mem['RELEASE_RESERVED_RESOURCES'] < mem['FINISH_PROCESSING']):
        ET = P.cls('EventType')
        o5.fail(P, 'EventType', 'RELEASE_RESERVED_RESOURCES = auto()', 'the idle check must have a lower priority than PASS_PART and FINISH_PROCESSING, '
                'otherwise resources are released although the next part arrives at the same instant', file=ET.mod.path, line=ET.node.lineno, detail={'members': mem})
    else:
        o5.witness('enum-order')
    # ... and a higher one than the events that take the machine down (a work order starting or a failure striking at the instant the
    # part is finished): a shutdown pauses the machine's pending events, the idle check among them, so a check that has not run yet
    # leaves an idle, shut-down machine holding its resources for the whole downtime
    o5.count()
    downs = [k for k in ('START_WORK', 'FAIL') if k in mem]
    late = [k for k in downs if not mem['RELEASE_RESERVED_RESOURCES'] > mem[k]]
    if late:
        ET = P.cls('EventType')
        o5.fail(P, 'EventType', 'RELEASE_RESERVED_RESOURCES = auto()', f'the idle check must run before {" / ".join(late)} events of the same instant: taken down first, the machine '
                'pauses its own idle check and keeps its resources, idle, until it is restored', file=ET.mod.path, line=ET.node.lineno, detail={'members': mem})
    elif downs:
        o5.witness('enum-order-down')
    o5.stats = {'EventType': mem}
    obs.extend([o3, o4, o5, o6])
    obs.append(ctx.shared('c09', 'C09.5', 'C11.7', 'a processor asks for its whole requirement in one reservation each time a part is offered; a refused reservation must leave '
                          'every pool untouched, or usage exceeds what the holders hold'))
    obs.append(ctx.shared('c09', 'C09.4', 'C11.8', 'a processor gives back exactly what it holds: a release subtracts exactly the released amounts from the usage of each pool '
                          '(clamping the usage after a capacity cut makes the pool forget what other processors still hold)'))
    return obs


CLAIM = {
    'technique': 'static analysis: inductive typestate invariants of the concrete class PartProcessor with a ghost for its release-check event; '
                 'who-may-write inventory; call-site normal forms; enum order facts',
    'level_text': 'A part can only be in process on a processor that holds its declared reservation, and an idle holder always has a release check '
                  'queued -- for all paths of all entry points and abstract states; the global pool-usage sum is not decided.',
    'level_note': 'Run-to-completion; ReservedResources.release() semantics are decided by C09.',
}
