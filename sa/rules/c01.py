"""C01 -- events run in time-then-priority order; the clock never goes backwards."""
import ast
import itertools

from .. import AnalysisError
from ..report import Ob
from ..cfg import Builder, calls_at, call_attr, is_self_attr, own_exprs, walk_now
from ..state import Analysis, State, bind_call, SCHED_PARAMS, sched_event_type, sched_action_name
from ..norm import Normalizer, cmp_norm, single_defs, FrameEnv
from ..devices import canon_text as dv_canon
from .. import inventory as inv
from .. import devices as dv

EXPLANATION = '''
Static analysis (AST + per-method control-flow supergraph + small typestate) of simprocesd/model/simulation.py.
Decided: the pending-event list can only be changed by sorted insertion and head/element removal inside
Environment (C01.1); Event.__lt__ is a lexicographic chain whose first key is time ascending and second key
event_type descending and that ends in an unconditional result (C01.2); step() executes exactly the popped head,
once, after assigning its time to the clock (C01.3); the clock has no other writer (C01.4); schedule_event
inserts only on the false edge of a guard equivalent to time - now < 0 whose true edge raises, and builds the
Event from its own parameters (C01.5); Event.execute reaches the action only with cancelled and executed false,
sets executed afterwards, and nobody else calls an action or execute (C01.6); run() arms a TERMINATE event at
now + duration whose action sets the flag that the loop tests, TERMINATE being the lowest EventType (C01.7);
an unpaused event is re-inserted at time + now - paused_at (C01.8).
NOT decided: that a concrete run visits events in order (relies additionally on list/bisect semantics and on
non-NaN float times), nor the exact end-of-run clock beyond C01.7.
'''
ASSUMPTIONS = ['bisect.insort keeps a list sorted w.r.t. __lt__ when it was sorted before',
               'event times are not NaN',
               'user code does not touch Environment._events / _now directly']
MIN_INSTANCES = 30

SORTED_INSERT = {'bisect.insort', 'bisect.insort_right', 'bisect.insort_left', 'insort', 'insort_right',
                 'insort_left', 'heapq.heappush', 'heappush'}
HEAD_REMOVE_FUNCS = {'heapq.heappop', 'heappop'}
READ_FUNCS = {'len', 'sorted', 'list', 'tuple', 'any', 'all', 'min', 'max', 'sum', 'enumerate', 'reversed',
              'iter', 'bool', 'copy.copy', 'str', 'repr', 'print', 'itertools.chain', 'chain', 'filter', 'map', 'zip', 'itertools.islice'}


BISECT = {'bisect.bisect', 'bisect.bisect_right', 'bisect.bisect_left', 'bisect', 'bisect_right', 'bisect_left'}


def bisect_then_insert(call, defs):
    """`L.insert(i, x)` where i is `bisect.bisect_right(L, x)` (the spelled-out form of bisect.insort): -> True"""
    f = call.func
    if not (isinstance(f, ast.Attribute) and f.attr == 'insert' and len(call.args) == 2 and not call.keywords):
        return False
    idx = call.args[0]
    if isinstance(idx, ast.Name) and idx.id in defs:
        idx = defs[idx.id]
    return isinstance(idx, ast.Call) and ast.unparse(idx.func) in BISECT and len(idx.args) == 2 and not idx.keywords \
        and ast.unparse(idx.args[0]) == ast.unparse(f.value) and ast.unparse(idx.args[1]) == ast.unparse(call.args[1])


OPAQUE = ('step', 'schedule_event')


def check(ctx):
    P = ctx.P
    Env = P.cls('Environment')
    Ev = P.cls('Event')
    obs = []

    # ---- C01.1 queue discipline -------------------------------------------------
    o = Ob('C01.1', 'K1+K7', 'Environment._events is mutated only inside Environment, by sorted insertion and '
                             'pop(0)/remove(x); it is re-bound only to an empty list in the reset; it never escapes')
    obs.append(o)
    n_ins = n_rem = 0
    from . import c07
    movers = inv.covered(P, set(c07.OPS))

    def order_broken(fname):
        """does the per-element analysis of pause / unpause / cancel report an order-breaking or unrecognised construct?"""
        for op in c07.OPS:
            try:
                table = c07.element_table(P, Env, op)
            except Exception:       # noqa: BLE001
                return True
            for paths in table.values():
                for r in paths:
                    if any(k in ('unordered', 'unrecognised', 'rebind', 'escape') for k, _, _ in r['log']):
                        return True
        return False
    family = {'sorted-list': [], 'heap': []}     # the two accepted queue disciplines must not be mixed
    for s in inv.attr_uses(P, '_events'):
        role = s.extra['role']
        o.count()
        where = s.ctx
        inside = s.cls is Env
        kind = role[0]
        mutating = False
        ok = True
        msg = None
        if kind == 'store':
            mutating = True
            v = s.stmt.value if isinstance(s.stmt, ast.Assign) else None
            empty = isinstance(v, ast.List) and not v.elts
            resets_clock = s.func is not None and s.func.name in dv.reset_functions(P, Env)[1]
            if not (empty and resets_clock):
                ok, msg = False, 'the pending-event list is re-bound outside the reset or to a non-empty value'
        elif kind == 'subscript-store' and inside and s.func is not None and s.func.name in movers and not order_broken(s.func.name):
            # `self._events[:] = <order-preserving selection of self._events>`: decided by the per-element analysis (sa/elem.py, C07)
            mutating = True
            n_rem += 1
            family['sorted-list'].append(s)
        elif kind in ('augstore', 'del', 'subscript-store', 'subscript-del'):
            mutating = True
            ok, msg = False, f'unordered mutation of the pending-event list ({kind})'
        elif kind == 'method':
            name, call = role[1], role[2]
            if name == 'pop':
                mutating = True
                if len(call.args) == 1 and isinstance(call.args[0], ast.Constant) and call.args[0].value == 0:
                    n_rem += 1
                    family['sorted-list'].append(s)
                else:
                    ok, msg = False, 'removal from the pending-event list is not from the head (pop(0))'
            elif name == 'remove':
                mutating = True
                n_rem += 1
                family['sorted-list'].append(s)
            elif name == 'insert' and s.func is not None and bisect_then_insert(call, single_defs(s.func)):
                mutating = True
                n_ins += 1
                family['sorted-list'].append(s)
            elif name in ('append', 'insert', 'extend', 'sort', 'reverse', 'clear', '__setitem__', '__delitem__',
                          'appendleft', 'popleft'):
                mutating = True
                ok, msg = False, f'pending-event list changed by .{name}(), which does not keep it sorted'
            elif name in ('copy', 'index', 'count', '__len__', '__iter__', '__contains__'):
                pass
            else:
                ok, msg = False, f'unrecognised operation .{name}() on the pending-event list'
        elif kind == 'arg':
            callee, idx = role[1], role[2]
            if callee in SORTED_INSERT and idx == 0:
                mutating = True
                n_ins += 1
                family['heap' if 'heap' in callee else 'sorted-list'].append(s)
            elif callee in HEAD_REMOVE_FUNCS and idx == 0:
                mutating = True
                n_rem += 1
                family['heap'].append(s)
            elif callee in READ_FUNCS or callee in BISECT:
                pass
            elif inv.readonly_param(P, s.cls, callee, idx):
                pass       # handed to a helper of the same class that only reads it
            else:
                ok, msg = False, f'the pending-event list escapes to {callee}()'
        elif kind in ('subscript-load', 'iter', 'test'):
            pass
        elif kind == 'binop' and role[1] == 'Add' and not isinstance(s.stmt, ast.AugAssign):
            pass
        elif kind == 'other' and isinstance(s.mod.parents.get(s.node), (ast.Tuple, ast.List)) and \
                isinstance(s.mod.parents.get(s.mod.parents.get(s.node)), (ast.For, ast.comprehension)) and \
                s.mod.parents.get(s.mod.parents.get(s.node)).iter is s.mod.parents.get(s.node):
            pass       # `for lst in (self._events, self._paused_events): ...` -- the lists are iterated, what the body does is seen at its own sites
        elif kind in ('assign-alias', 'other', 'binop') and inv.flows_to_read_only_local(s.mod, s.func, s.node):
            pass       # `events = self._events + self._paused_events if both else self._events; return any(... for x in events)`: a query
        elif kind in ('return', 'assign-alias', 'other', 'attr', 'binop'):
            ok, msg = False, f'the pending-event list escapes or is used in an unrecognised way ({role[0]})'
        if mutating and not inside:
            ok, msg = False, 'the pending-event list is mutated outside class Environment'
        if mutating:
            o.witness((where, ast.unparse(s.stmt)[:60]))
        if not ok:
            o.fail(P, where, s.stmt, msg, file=s.mod.path, line=s.line)
        else:
            o.sample({'site': f'{P.rel(s.mod.path)}:{s.line}', 'in': where, 'use': role[0] if kind != 'method' else f'.{role[1]}()'})
    if family['heap'] and family['sorted-list']:
        for s in family['sorted-list']:
            o.fail(P, s.ctx, s.stmt, 'the pending-event list is kept as a heap (heappush/heappop) elsewhere, but this operation treats it as a sorted list: '
                   'removing from or sorted-inserting into a heap breaks the heap order, so a later head is not the minimum', file=s.mod.path, line=s.line)
    if n_ins < 1:      # (one shared helper may serve schedule_event and unpause; that each of them reaches it is C01.5 / C07.2)
        o.fail(P, 'Environment', 'bisect.insort(self._events, ...)',
               f'expected sorted insertion into the pending-event list in schedule_event and unpause_matching_events, found {n_ins} site(s)',
               file=Env.mod.path, line=Env.node.lineno)
    o.stats = {'sorted_insert_sites': n_ins, 'removal_sites': n_rem}

    # ---- C01.2 total order ------------------------------------------------------
    o = Ob('C01.2', 'K6', 'Event.__lt__ is a lexicographic comparison: time ascending, then event_type descending, '
                          'ending in an unconditional result')
    obs.append(o)
    keys = lt_keys(P, Ev, o)
    o.count(len(keys))
    o.stats = {'keys': keys}
    dk, ltfn = P.method(Ev, '__lt__')
    if keys is not None:
        for i, want in enumerate([('time', 'asc'), ('event_type', 'desc')]):
            o.witness(want)
            if len(keys) <= i or tuple(keys[i]) != want:
                got = keys[i] if len(keys) > i else None
                o.fail(P, 'Event.__lt__', f'key #{i + 1}', f'key #{i + 1} of the event order must be {want[0]} {want[1]}ending, found {got}',
                       file=Ev.mod.path, line=ltfn.lineno, detail={'keys': keys})
        o.sample({'extracted_key_order': keys})

    # ---- C01.3 / C01.4 dispatch of the head, clock ------------------------------
    o3 = Ob('C01.3', 'K2', 'step(): the executed event is the popped head; the clock is set to its time on every '
                           'path before execute(); execute() is called exactly once')
    obs.append(o3)
    g = ctx.graph(Env, 'step', opaque=OPAQUE)
    from ..state import Analysis, State

    def is_head_removal(c):
        return (call_attr(c) == 'pop' and isinstance(c.func, ast.Attribute) and ast.unparse(c.func.value) == 'self._events' and len(c.args) == 1
                and isinstance(c.args[0], ast.Constant) and c.args[0].value == 0) or \
               (ast.unparse(c.func) in HEAD_REMOVE_FUNCS and c.args and ast.unparse(c.args[0]) == 'self._events')

    def head_expr(an_, e, st, frame):
        if isinstance(e, ast.Call) and is_head_removal(e):
            return 'head'
        return NotImplemented

    def step_hook(an_, n, before, after):
        st = after
        a = n.ast
        for c in calls_at(g, n):
            if is_head_removal(c):
                st = st.with_flag('popped2' if 'popped' in st.flags else 'popped')
            elif call_attr(c) in ('pop', 'remove') and isinstance(c.func, ast.Attribute) and ast.unparse(c.func.value) == 'self._events':
                st = st.with_flag('removed-other')
            if call_attr(c) == 'execute' and isinstance(c.func, ast.Attribute):
                if an_.ev(c.func.value, before, n.frame) == 'head':
                    st = st.with_flag('executed2' if 'executed' in st.flags else 'executed')
                    if 'clock' not in st.flags:
                        st = st.with_flag('executed-before-clock')
                else:
                    st = st.with_flag('executed-other')
        if n.kind == 'stmt' and isinstance(a, ast.Assign) and any(is_self_attr(t, '_now') for t in a.targets):
            v = a.value
            good = isinstance(v, ast.Attribute) and v.attr == 'time' and an_.ev(v.value, before, n.frame) == 'head'
            st = st.with_flag('clock' if good else 'clock-other')
        return st
    an3 = Analysis(P, g, [])
    an3.expr_hooks.append(head_expr)
    an3.node_hooks.append(step_hook)
    res3 = ctx.explore(an3, [State({})])
    o3.require(res3.exits(), 'Environment.step has no normal exit')
    stepfn = P.method(Env, 'step')[1]
    for st in res3.exits():
        o3.count()
        fl = {f for f in st.flags if f.startswith(('popped', 'executed', 'clock', 'removed'))}
        if fl == {'popped', 'clock', 'executed'}:
            o3.witness('head->clock->execute')
        else:
            o3.fail(P, 'Environment.step', 'next_event = self._events.pop(0); self._now = next_event.time; next_event.execute()',
                    f'a step must remove the head of the pending-event list once, set the clock to its time and then execute it once; this path does {sorted(fl)}',
                    file=Env.mod.path, line=stepfn.lineno, path=res3.path_lines(g.exit, st))
    heads = [n for n in g.nodes.values() if any(is_head_removal(c) for c in calls_at(g, n))]
    if heads:
        o3.sample({'head': heads[0].src(), 'file': P.rel(heads[0].file), 'line': heads[0].line, 'paths': len(res3.exits())})

    o4 = Ob('C01.4', 'K1', 'the clock (_now) is written only by the reset (a constant) and by step()')
    obs.append(o4)
    for s in inv.attr_stores(P, '_now'):
        o4.count()
        ok = False
        if s.cls is Env and isinstance(s.stmt, ast.Assign):
            v = s.stmt.value
            if s.func.name in inv.covered(P, {'step'}):
                ok = True        # value checked by C01.3 (helpers reachable only from step() count as step())
            elif isinstance(v, ast.Constant) and v.value == 0 and any(
                    e_.cls is Env and e_.func is not None and e_.func.name in dv.reset_functions(P, Env)[1] for e_ in inv.attr_stores(P, '_events')):
                ok = True        # the reset: clock and queue are emptied together (the queue possibly by a helper only the reset calls)
        o4.witness(s.ctx)
        if not ok:
            o4.fail(P, s.ctx, s.stmt, 'the simulation clock is written outside step()/reset', file=s.mod.path, line=s.line)
        else:
            o4.sample({'site': f'{P.rel(s.mod.path)}:{s.line}', 'in': s.ctx, 'stmt': ast.unparse(s.stmt)})
    now_prop = P.lookup_prop(Env, 'now', 'get')
    o4.count()
    if not now_prop or ast.unparse(now_prop[1].body[-1]) != 'return self._now':
        o4.fail(P, 'Environment.now', 'return self._now', 'Environment.now does not report the clock', file=Env.mod.path, line=Env.node.lineno)
    if P.lookup_prop(Env, 'now', 'set'):
        o4.fail(P, 'Environment.now', 'now.setter', 'Environment.now has a setter', file=Env.mod.path, line=Env.node.lineno)

    # ---- C01.5 no scheduling in the past ----------------------------------------
    o5 = Ob('C01.5', 'K2+K6', 'schedule_event inserts only on the false edge of a guard equivalent to `time - now < 0` '
                              'whose true edge raises; the Event is built from the parameters in order')
    obs.append(o5)
    g = ctx.graph(Env, 'schedule_event', opaque=OPAQUE)
    dk, fn = P.method(Env, 'schedule_event')
    N = Normalizer(P, Env)
    ins = [n for n in g.nodes.values() if any((ast.unparse(c.func) in SORTED_INSERT and c.args and ast.unparse(c.args[0]) == 'self._events')
                                              or (bisect_then_insert(c, single_defs(n.frame.func)) and ast.unparse(c.func.value) == 'self._events')
                                              for c in calls_at(g, n))]
    o5.count()
    if len(ins) != 1:
        o5.fail(P, 'Environment.schedule_event', 'bisect.insort(self._events, new_event)', f'expected one sorted insertion, found {len(ins)}', file=Env.mod.path, line=fn.lineno)
    else:
        ins = ins[0]
        guards = []
        for n in g.nodes.values():
            if n.kind == 'cond':
                for truth in (True, False):
                    r = cmp_norm(N, n.ast, single_defs(fn), truth)
                    if r and r[0].is_({'time': 1, 'NOW': -1}) and r[1] == '<':
                        guards.append((n, truth))
        o5.count()
        okg = False
        for n, truth in guards:
            past_lbl = 'T' if truth else 'F'
            ok_lbl = 'F' if truth else 'T'
            past_succ = [m for l, m in g.succ[n.id] if l == past_lbl]
            # the "past" edge must not reach the insertion nor the normal exit
            r = g.reach(past_succ, follow=lambda l: l != 'exc')
            if ins.id in r or g.exit in r:
                continue
            # every path to the insertion takes the ok edge of this guard
            if ins.id in g.reach_edges([g.entry], cut_edges={(n.id, ok_lbl)}):
                continue
            okg = True
            o5.witness('guard')
            o5.sample({'guard': n.src(), 'normal_form': 'time - NOW < 0 raises', 'insertion': ins.src(), 'file': P.rel(n.file), 'line': n.line})
        if not okg:
            o5.fail(P, 'Environment.schedule_event', None, 'the insertion is not protected by a raising guard equivalent to `time < now`', node=ins,
                    detail={'candidate_guards': [n.src() for n, _ in guards]})
        # every request that is not rejected is queued: no normal way out of schedule_event that bypasses the insertion
        o5.count()
        if g.exit in g.reach([g.entry], avoid={ins.id}, follow=lambda l: l != 'exc'):
            path = g.shortest_path(g.entry, g.exit, follow=lambda l: l != 'exc')
            o5.fail(P, 'Environment.schedule_event', 'bisect.insort(self._events, new_event)',
                    'schedule_event can return normally without having queued the event (a request that is dropped -- because it looks like a duplicate, is held back, '
                    'or is deferred to another container -- never runs, or escapes pause/cancel)', file=Env.mod.path, line=fn.lineno)
        else:
            o5.witness('always-queued')
        # the parameters that fix when, for whom and what runs are not changed between the call and the construction of the Event
        o5.count()
        reass = [n for n in g.nodes.values() if n.kind == 'stmt' and n.frame is g.top and isinstance(n.ast, (ast.Assign, ast.AugAssign, ast.AnnAssign))
                 and any(isinstance(t, ast.Name) and t.id in ('time', 'asset_id', 'action', 'event_type')
                         for t in (n.ast.targets if isinstance(n.ast, ast.Assign) else [n.ast.target]) for t in ast.walk(t) if isinstance(t, ast.Name) and isinstance(t.ctx, ast.Store))]
        for n in reass:
            o5.fail(P, 'Environment.schedule_event', None, 'schedule_event changes the requested time / owner / action / priority before queuing the event: '
                    'the event runs at another instant (or for another asset) than the one every caller computed', node=n)
        if not reass:
            o5.witness('parameters-kept')
        # Event(...) built from own parameters
        evc = [c for n in g.nodes.values() for c in calls_at(g, n) if isinstance(c.func, ast.Name) and c.func.id == 'Event']
        o5.count()
        if len(evc) != 1:
            o5.fail(P, 'Environment.schedule_event', 'Event(time, asset_id, action, event_type, message)', 'expected exactly one Event construction', file=Env.mod.path, line=fn.lineno)
        else:
            _, init = P.method(Ev, '__init__')
            params = [a.arg for a in init.args.args][1:]
            b = bind_call(evc[0], params)
            for pn in ('time', 'asset_id', 'action', 'event_type'):
                o5.count()
                if pn not in b or ast.unparse(b[pn]) != pn:
                    o5.fail(P, 'Environment.schedule_event', evc[0], f'the Event is not built with the caller\'s `{pn}`', file=Env.mod.path, line=evc[0].lineno)
                else:
                    o5.witness(pn)
            # and Event.__init__ stores them under the names the order uses
            for pn in ('time', 'asset_id', 'action', 'event_type'):
                o5.count()
                st = [s for s in ast.walk(init) if isinstance(s, ast.Assign) and any(is_self_attr(t, pn) for t in s.targets)]
                if len(st) != 1 or ast.unparse(st[0].value) != pn:
                    o5.fail(P, 'Event.__init__', f'self.{pn} = {pn}', f'Event.{pn} is not initialised from the constructor argument', file=Ev.mod.path, line=init.lineno)
            # flags start false
            for pn, val in (('cancelled', False), ('executed', False)):
                o5.count()
                st = [s for s in ast.walk(init) if isinstance(s, ast.Assign) and any(is_self_attr(t, pn) for t in s.targets)]
                if len(st) != 1 or not (isinstance(st[0].value, ast.Constant) and st[0].value.value is val):
                    o5.fail(P, 'Event.__init__', f'self.{pn} = {val}', f'a new Event must start with {pn} == {val}', file=Ev.mod.path, line=init.lineno)

    # ---- C01.6 at most once -----------------------------------------------------
    o6 = Ob('C01.6', 'K5+K1', 'Event.execute reaches action() only with cancelled and executed false and leaves executed '
                              'true; only Event.execute calls an action, only Environment.step calls execute()')
    obs.append(o6)
    g = ctx.graph(Ev, 'execute')

    def hook(an, n, before, after):
        if any(call_attr(c) == 'action' and is_self_attr(c.func) for c in calls_at(an.g, n)):
            after = after.with_flag('called2' if 'called' in after.flags else 'called')
        return after
    an = Analysis(P, g, ['cancelled', 'executed'])
    an.node_hooks.append(hook)
    act_nodes = [n for n in g.nodes.values() if any(call_attr(c) == 'action' and is_self_attr(c.func) for c in calls_at(g, n))]
    if not act_nodes:
        o6.fail(P, 'Event.execute', 'self.action()', 'Event.execute never calls the action', file=Ev.mod.path, line=P.method(Ev, 'execute')[1].lineno)
    for c_, e_ in itertools.product('TF', 'TF'):
        s0 = State({'cancelled': c_, 'executed': e_})
        res = an.run([s0])
        ctx.units['abstract_states'] += res.n_states()
        for an_ in act_nodes:
            for st in res.at(an_.id):
                o6.count()
                o6.witness(('at-call', c_, e_))
                if st.fields['cancelled'] != 'F' or st.fields['executed'] != 'F':
                    o6.fail(P, 'Event.execute', None, f'action() reachable with cancelled={st.fields["cancelled"]} executed={st.fields["executed"]}',
                            node=an_, path=res.path_lines(an_.id, st))
        for st in res.exits():
            o6.count()
            if 'called2' in st.flags:
                o6.fail(P, 'Event.execute', 'self.action()', 'action() can run twice in one execute()', file=Ev.mod.path, line=act_nodes[0].line if act_nodes else None)
            if 'called' in st.flags and st.fields['executed'] != 'T':
                o6.fail(P, 'Event.execute', 'self.executed = True', 'executed is not set after the action ran', file=Ev.mod.path,
                        line=act_nodes[0].line if act_nodes else None, path=res.path_lines(g.exit, st))
            if 'called' not in st.flags and c_ == 'F' and e_ == 'F':
                o6.fail(P, 'Event.execute', 'self.action()', 'a live, not yet executed event does not run its action', file=Ev.mod.path,
                        line=P.method(Ev, 'execute')[1].lineno, path=res.path_lines(g.exit, st))
        o6.sample({'entry': s0.show(), 'exits': [s.show() for s in res.exits()]})
    for s in inv.method_calls(P, 'action'):
        o6.count()
        if not (s.cls is Ev and s.func is not None and s.func.name in inv.covered(P, {'execute'})):
            o6.fail(P, s.ctx, s.stmt, "an event's action is called outside Event.execute", file=s.mod.path, line=s.line)
    n_exec = 0
    for s in inv.method_calls(P, 'execute'):
        o6.count()
        if s.cls is Env and s.func.name in inv.covered(P, {'step'}):      # step itself or a private helper reachable only from step (C01.3 inlines it)
            n_exec += 1
        else:
            o6.fail(P, s.ctx, s.stmt, 'Event.execute() is called outside Environment.step', file=s.mod.path, line=s.line)
    # writers of the flags
    for fl, allowed in (('executed', {('Event', '__init__'), ('Event', 'execute')}),
                        ('cancelled', {('Event', '__init__'), ('Environment', 'cancel_matching_events'), ('Environment', 'run')})):
        for s in inv.attr_stores(P, fl):
            o6.count()
            k = (s.cls.name if s.cls else None, s.func.name if s.func else None)
            own_names = {n_ for c_, n_ in allowed if n_ != '__init__'}
            if k not in allowed and not (k[0] in ('Environment', 'Event') and k[1] in inv.covered(P, own_names)):
                o6.fail(P, s.ctx, s.stmt, f'Event.{fl} is written outside its owners', file=s.mod.path, line=s.line)
            elif k[1] != '__init__' and not (isinstance(s.stmt, ast.Assign) and isinstance(s.stmt.value, ast.Constant) and s.stmt.value.value is True):
                o6.fail(P, s.ctx, s.stmt, f'Event.{fl} may only be raised (set to True) after construction', file=s.mod.path, line=s.line)

    # ---- C01.7 run / TERMINATE --------------------------------------------------
    o7 = Ob('C01.7', 'K8+K2+K15', 'run(): TERMINATE event at now + duration whose action raises the flag tested by the '
                                  'loop; flag lowered before the loop; loop steps while events remain and not terminated; '
                                  'TERMINATE is the lowest EventType')
    obs.append(o7)
    g = ctx.graph(Env, 'run', opaque=OPAQUE)
    dk, fn = P.method(Env, 'run')
    scheds = [(n, c) for n in g.nodes.values() for c in calls_at(g, n) if call_attr(c) == 'schedule_event']
    o7.count()
    term = [(n, c) for n, c in scheds if sched_event_type(c) == 'TERMINATE']
    steps = [n for n in g.nodes.values() if any(call_attr(c) == 'step' and is_self_attr(c.func) for c in calls_at(g, n))]
    if len(term) != 1:
        o7.fail(P, 'Environment.run', 'self.schedule_event(self.now + simulation_duration, -1, self._terminate, EventType.TERMINATE)',
                f'run() must schedule exactly one TERMINATE event, found {len(term)}', file=Env.mod.path, line=fn.lineno)
    else:
        tn, tc = term[0]
        b = bind_call(tc, SCHED_PARAMS)
        o7.count()
        tlin = N.norm(b['time'], FrameEnv(tn.frame)) if 'time' in b else None      # through helper frames and locals
        tkey = tlin.key() if tlin is not None else None
        dur = [a.arg for a in fn.args.args][1]
        if tlin is None or not tlin.is_({'NOW': 1, dur: 1}):
            o7.fail(P, 'Environment.run', tc, f'the TERMINATE event must be due at now + simulation_duration, found `{tkey}`', node=tn)
        else:
            o7.witness('time')
        o7.count()
        act = sched_action_name(tc)
        flag, raised = None, True
        if act and P.has_method(Env, act):
            # the flag is whatever boolean field the action stores a constant into on every path (`_terminated = True`, or the inverted
            # `_in_progress = False`); `raised` is the value that means "the end of the run was reached"
            ga = ctx.graph(Env, act, opaque=OPAQUE)
            sts = [n for n in ga.nodes.values() if n.kind == 'stmt' and isinstance(n.ast, ast.Assign) and len(n.ast.targets) == 1 and is_self_attr(n.ast.targets[0])
                   and isinstance(n.ast.value, ast.Constant) and isinstance(n.ast.value.value, bool)]
            names = {(n.ast.targets[0].attr, n.ast.value.value) for n in sts}
            if len(names) == 1 and ga.exit not in ga.reach([ga.entry], avoid={n.id for n in sts}, follow=lambda l: l != 'exc'):
                flag, raised = next(iter(names))
        if flag is None:
            o7.fail(P, 'Environment.run', tc, 'the action of the TERMINATE event does not set the termination flag', node=tn)
        else:
            o7.witness('action')
        # executes to completion: scheduled on every path before the loop
        o7.count()
        if steps and not all(g.dominated_by(sn.id, {tn.id}) for sn in steps):
            o7.fail(P, 'Environment.run', tc, 'the loop can be entered without the TERMINATE event having been scheduled', node=tn)
        # flag lowered before the loop and before scheduling nothing re-raises it
        lows = [n for n in g.nodes.values() if n.kind == 'stmt' and isinstance(n.ast, ast.Assign) and any(is_self_attr(t, flag or '_terminated') for t in n.ast.targets)]
        o7.count()
        good = [n for n in lows if isinstance(n.ast.value, ast.Constant) and n.ast.value.value is (not raised)]
        if not good or (steps and not all(g.dominated_by(sn.id, {n.id for n in good}) for sn in steps)):
            o7.fail(P, 'Environment.run', 'self._terminated = False', 'the termination flag is not lowered before the loop', file=Env.mod.path, line=fn.lineno)
        else:
            o7.witness('lowered')
        def _restores(n):
            # `self.flag = saved` after the loop, where `saved = self.flag` is the only definition of the local: run() puts back what it
            # found (the repair of F22 for nested runs); no step of this activation can follow it
            v = n.ast.value
            if not isinstance(v, ast.Name):
                return False
            defs = [x for x in ast.walk(fn) if isinstance(x, (ast.Assign, ast.AugAssign, ast.AnnAssign, ast.For, ast.NamedExpr, ast.withitem))
                    for t in ast.walk(x.targets[0] if isinstance(x, ast.Assign) else getattr(x, 'target', None) or getattr(x, 'optional_vars', None) or ast.Pass())
                    if isinstance(t, ast.Name) and t.id == v.id and isinstance(t.ctx, ast.Store)]
            if len(defs) != 1 or not isinstance(defs[0], ast.Assign) or len(defs[0].targets) != 1 or not is_self_attr(defs[0].value, flag or '_terminated'):
                return False
            after = g.reach([n.id], follow=lambda l: l != 'exc')
            return not any(sn.id in after for sn in steps)
        for n in lows:
            if n not in good and not _restores(n):
                o7.fail(P, 'Environment.run', None, 'run() sets the termination flag itself', node=n)
    o7.count()
    if len(steps) != 1:
        o7.fail(P, 'Environment.run', 'self.step()', f'run() must call step() at one site inside its loop, found {len(steps)}', file=Env.mod.path, line=fn.lineno)
    else:
        sn = steps[0]
        # loop: step node is on a cycle
        if sn.id not in g.reach([m for _, m in g.succ[sn.id]], follow=lambda l: l != 'exc'):
            o7.fail(P, 'Environment.run', None, 'step() is not called in a loop', node=sn)
        conds_ev = [n for n in g.nodes.values() if n.kind == 'cond' and dv_canon(n.ast, n.frame) in ('self._events', 'len(self._events)>0', 'len(self._events)!=0', 'len(self._events)', '0<len(self._events)')]
        flag_, raised_ = (flag, raised) if len(term) == 1 and flag else ('_terminated', True)
        go_on = 'F' if raised_ else 'T'          # the edge of the flag test on which the run goes on
        conds_t = [n for n in g.nodes.values() if n.kind == 'cond' and dv_canon(n.ast, n.frame) in ('self.' + flag_,)]
        o7.count(2)
        ok_e = any(sn.id not in g.reach_edges([g.entry], cut_edges={(n.id, 'T')}) for n in conds_ev)
        ok_t = any(sn.id not in g.reach_edges([g.entry], cut_edges={(n.id, go_on)}) for n in conds_t)
        if not ok_e:
            o7.fail(P, 'Environment.run', 'while self._events and not self._terminated', 'step() can be reached with an empty pending-event list', node=sn)
        else:
            o7.witness('loop-events')
        if not ok_t:
            o7.fail(P, 'Environment.run', 'while self._events and not self._terminated', 'the loop continues after the TERMINATE event ran', node=sn)
        else:
            o7.witness('loop-flag')
        # every iteration re-tests the flag: from step's successors, step is reachable again only through the conds
        again = g.reach_edges([m for _, m in g.succ[sn.id]], cut_edges={(n.id, go_on) for n in conds_t})
        if conds_t and sn.id in again:
            o7.fail(P, 'Environment.run', None, 'a second step() can run without re-testing the termination flag', node=sn)
        o7.sample({'terminate_site': f'{P.rel(Env.mod.path)}:{term[0][0].line}' if len(term) == 1 else None, 'step_site': sn.line,
                   'loop_tests': [n.src() for n in conds_ev + conds_t]})
    ET = P.cls('EventType')
    mem = inv.enum_members(P, ET)
    o7.count()
    o7.stats = {'EventType': mem}
    vals = dict(mem)
    if 'TERMINATE' not in vals or any(v <= vals['TERMINATE'] for k, v in mem if k != 'TERMINATE'):
        o7.fail(P, 'EventType', 'TERMINATE = auto()', 'TERMINATE must be the lowest event priority so that every other event due at the end time runs first',
                file=ET.mod.path, line=ET.node.lineno, detail={'members': mem})
    else:
        o7.witness('enum')
    if len(mem) < 6:
        raise AnalysisError(f'could evaluate only {len(mem)} members of EventType statically')
    # is_simulation_in_progress reports the flag
    # (documented API; C20/C09 __del__ rely on it) -- not part of C01

    # ---- C01.14 an aborted run retires its own end-of-run event ---------------------------
    o14 = Ob('C01.14', 'K2+K8', 'an exception that ends run() early does not leave that run\'s TERMINATE event live in the queue, where it would end a later run '
                                'before its time: every exceptional way out of the stepping loop passes, with the flag still lowered, through a statement that '
                                'cancels the queued events whose action is the TERMINATE action (a loop over the whole pending list, or the event object itself)')
    obs.append(o14)
    gx = ctx.graph(Env, 'run', opaque=OPAQUE, call_exc=True)
    steps_x = [n for n in gx.nodes.values() if any(call_attr(c) == 'step' and is_self_attr(c.func) for c in calls_at(gx, n))]
    act_name = sched_action_name(term[0][1]) if len(term) == 1 else None
    flag14, raised14 = (flag, raised) if len(term) == 1 and flag else ('_terminated', True)
    WHOLE = ('self._events', 'list(self._events)', 'tuple(self._events)', 'self._events[:]', 'self._events.copy()', 'self._events+self._paused_events',
             'list(self._events)+list(self._paused_events)', 'itertools.chain(self._events,self._paused_events)', 'chain(self._events,self._paused_events)')

    def _is_cancel(n, var):
        a = n.ast
        return n.kind == 'stmt' and isinstance(a, ast.Assign) and len(a.targets) == 1 and isinstance(a.targets[0], ast.Attribute) and a.targets[0].attr == 'cancelled' \
            and isinstance(a.targets[0].value, ast.Name) and a.targets[0].value.id == var and isinstance(a.value, ast.Constant) and a.value.value is True

    def _walk(starts, cut, stop):
        seen, todo = set(), list(starts)
        while todo:
            k = todo.pop()
            if k in seen:
                continue
            seen.add(k)
            if k in stop:
                continue
            for (lb, m) in gx.succ[k]:
                if (k, lb) not in cut:
                    todo.append(m)
        return seen
    retire = set()
    retire_lines = set()
    if act_name:
        for fnode in [n for n in gx.nodes.values() if n.kind == 'for' and isinstance(n.ast, ast.For) and isinstance(n.ast.target, ast.Name)]:
            if dv_canon(fnode.ast.iter, fnode.frame) not in WHOLE:
                continue
            v = fnode.ast.target.id
            body_in = [m for lb, m in gx.succ[fnode.id] if lb == 'T']
            inside = _walk(body_in, set(), {fnode.id})
            guards = {}
            for c in [gx.nodes[k] for k in inside if gx.nodes[k].kind == 'cond' and isinstance(gx.nodes[k].ast, ast.Compare) and len(gx.nodes[k].ast.ops) == 1]:
                l, r, op = c.ast.left, c.ast.comparators[0], c.ast.ops[0]
                pair = {dv_canon(l, c.frame, keep=(v,)), dv_canon(r, c.frame, keep=(v,))}
                if pair == {f'{v}.action', f'self.{act_name}'} and isinstance(op, (ast.Eq, ast.NotEq)):
                    guards[c.id] = 'F' if isinstance(op, ast.Eq) else 'T'          # the edge taken by the other events
            cancels = {k for k in inside if _is_cancel(gx.nodes[k], v)}
            if not guards or not cancels:
                continue
            # an event with the TERMINATE action cannot get round the loop without being cancelled
            round_ = _walk(body_in, {(k, lb) for k, lb in guards.items()}, cancels | {fnode.id})
            leaves = [k for k in round_ if k not in inside and k != fnode.id]
            if fnode.id not in round_ and not leaves:
                # ... and no other event is cancelled: every cancelling statement is behind a guard's TERMINATE edge
                others = _walk(body_in, {(k, 'T' if lb == 'F' else 'F') for k, lb in guards.items()}, {fnode.id})
                if not (others & cancels):
                    retire.add(fnode.id)
                    retire_lines |= {gx.nodes[k].line for k in cancels}
        # the event object itself, kept by run()
        for n in gx.nodes.values():
            if n.kind == 'stmt' and isinstance(n.ast, ast.Assign) and len(n.ast.targets) == 1 and isinstance(n.ast.targets[0], ast.Attribute) \
                    and isinstance(n.ast.targets[0].value, ast.Name) and _is_cancel(n, n.ast.targets[0].value.id) and n.frame.parent is None:
                var = n.ast.targets[0].value.id
                defs = [x for x in ast.walk(fn) if isinstance(x, ast.Assign) and any(isinstance(t, ast.Name) and t.id == var for t in x.targets)]
                if len(defs) == 1 and isinstance(defs[0].value, ast.Call) and any(isinstance(a, ast.Attribute) and is_self_attr(a, act_name)
                                                                                    for a in list(defs[0].value.args) + [k.value for k in defs[0].value.keywords]):
                    retire.add(n.id)
                    retire_lines.add(n.line)
    cut14 = {(n.id, 'T' if raised14 else 'F') for n in gx.nodes.values() if n.kind == 'cond' and dv_canon(n.ast, n.frame) == 'self.' + flag14}
    cut14 |= {(n.id, 'F' if raised14 else 'T') for n in gx.nodes.values() if n.kind == 'cond' and dv_canon(n.ast, n.frame) == 'notself.' + flag14}
    for s_ in inv.attr_stores(P, 'cancelled'):
        if s_.cls is Env and s_.func is not None and s_.func.name == 'run':
            o14.count()
            if s_.line not in retire_lines:
                o14.fail(P, s_.ctx, s_.stmt, 'run() cancels an event that is not shown to be its own TERMINATE event', file=s_.mod.path, line=s_.line)
    for sn in steps_x:
        o14.count()
        outs = [m for lb, m in gx.succ[sn.id] if lb == 'exc']
        got = _walk(outs, cut14, retire)
        bad = [k for k in (gx.exit, gx.raise_exit) if k in got]
        if bad:
            o14.fail(P, 'Environment.run', None, 'an exception raised by an event\'s action leaves run() without its TERMINATE event having been cancelled: the next run '
                     'ends when that stale event is due, not at its own start + duration', node=sn,
                     detail={'retiring statements found': sorted(gx.nodes[k].line for k in retire)})
        else:
            o14.witness('retired')
            o14.sample({'step_site': sn.line, 'retired_at': sorted(gx.nodes[k].line for k in retire)})

    # ---- C01.15 the end-of-run signal belongs to one activation of run() ------------------
    o15 = Ob('C01.15', 'K1+K2', 'a run started from inside an event action (the quantifier of C01 names it) must not end the run that is executing it: the signal '
                                'that stops the stepping loop is private to one activation of run() -- a local or closure, a field that run() saves and puts back, '
                                'or run() refuses to be entered while a run is in progress.  A boolean field of the environment that every activation lowers on '
                                'entry and the TERMINATE action raises is shared by the nested runs: the inner TERMINATE stops the outer loop too, at the inner '
                                'end, and the outer TERMINATE event stays behind')
    obs.append(o15)
    o15.count()
    if len(term) == 1 and flag:
        run_stores = [s_ for s_ in inv.attr_stores(P, flag) if s_.cls is Env and s_.func is not None and s_.func.name == 'run']
        const_only = bool(run_stores) and all(isinstance(getattr(s_.stmt, 'value', None), ast.Constant) for s_ in run_stores)
        loop_reads = any(n.kind == 'cond' and dv_canon(n.ast, n.frame) in ('self.' + flag, 'notself.' + flag) for n in g.nodes.values())
        refuses = any(isinstance(x, ast.Raise) for x in ast.walk(fn))          # a re-entry guard (any raise in run(): be generous, never alarm on one)
        if const_only and loop_reads and not refuses:
            st0 = run_stores[0]
            o15.fail(P, 'Environment.run', 'shared-termination-flag',
                     f'run() lowers the field self.{flag} on entry and its loop stops when the TERMINATE action raises it: a run() called from inside an event '
                     'action shares the field with the run that is executing that action and ends it early, leaving the outer TERMINATE event live',
                     file=Env.mod.path, line=st0.line)
        else:
            o15.witness('private signal, saved field or re-entry refusal')
    o15.sample({'flag': flag, 'rule': 'stores to the flag inside run() are all constants, the loop tests the field, run() never refuses entry => shared between nested activations'})

    # ---- C01.9 nobody withholds the end-of-run event ---------------------------------
    o9 = Ob('C01.9', 'K1', 'the TERMINATE event (scheduled under the shared id -1) is never paused or cancelled: every pause / unpause / cancel call in the '
                           'package is made by an asset for its own id -- otherwise a run would not end at start + duration, or a split run would drop events '
                           'that an unsplit run executes')
    obs.append(o9)
    from . import c07 as _c07
    _c07.own_id_only(ctx, o9)

    # ---- C01.8 unpause time -------------------------------------------------------
    o8 = Ob('C01.8', 'K6', 'an unpaused event is re-inserted at time + now - paused_at (hence never before now)')
    obs.append(o8)
    dv.check_defaults(ctx, o8, [('Environment', 'schedule_event', 'event_type')])      # (documented: events are low priority unless said otherwise)
    rhs8 = unpause_time_form(P, o8)
    # ---- C01.11 the resumed time is not before now, also after rounding ----------------------------------------------------------
    o11 = Ob('C01.11', 'K6', 'the resumed time is computed as now + (time - paused_at): the remaining time, which is >= 0 exactly, is formed first and added to '
                             'the clock, so the result cannot round to a value before now (time + (now - paused_at) can, by one ulp, when the event was due at '
                             'the instant of its pause -- the event is then queued in the past and the clock goes backwards when it runs)')
    obs.append(o11)
    o11.count()
    if rhs8 is not None:
        Env_ = P.cls('Environment')
        N8 = Normalizer(P, Env_)

        def is_now(e):
            l = N8.norm(e, {})
            return l is not None and l.is_({'NOW': 1})

        def is_remaining(e):
            l = N8.norm(e, {})
            return isinstance(e, ast.BinOp) and isinstance(e.op, ast.Sub) and l is not None and l.is_({'E_.time': 1, 'E_.paused_at': -1})

        def clamped(e):
            return isinstance(e, ast.Call) and isinstance(e.func, ast.Name) and e.func.id == 'max' and len(e.args) == 2 and any(is_now(a) for a in e.args)
        okr = clamped(rhs8) or (isinstance(rhs8, ast.BinOp) and isinstance(rhs8.op, ast.Add)
                                and ((is_now(rhs8.left) and is_remaining(rhs8.right)) or (is_now(rhs8.right) and is_remaining(rhs8.left))))
        if okr:
            o11.witness('now + remaining')
        else:
            fn8 = P.method(Env_, 'unpause_matching_events')[1]
            o11.fail(P, 'Environment.unpause_matching_events', ast.unparse(rhs8), f'the resumed time is evaluated as `{ast.unparse(rhs8)}`: in floating point this can be one ulp '
                     'before now for an event that was due at the instant it was paused (T + (U - T) < U); form the remaining time first: now + (time - paused_at)',
                     file=Env_.mod.path, line=fn8.lineno)
        o11.sample({'expression': ast.unparse(rhs8)})
    obs.append(ctx.shared('c20', 'C20.4', 'C01.10', 'the run a user asks for ends with the clock at exactly t0 + d only if System.simulate hands that duration to '
                          'Environment.run as it is, in one run (stages of d / n do not add up to d in floating point)'))
    _o71, _o72, _o73 = _c07.ops_obligations(P)
    obs.append(ctx.relabel(_o71, 'C01.12', 'a run ends with the clock at t0 + d because its TERMINATE event stays in the queue: a pause call selects exactly the events of the '
                           'given asset id, and none when no id is given (a "no id = every event" reading withholds the end of the run)'))
    obs.append(ctx.relabel(_o73, 'C01.13', 'likewise a cancel call marks exactly the events of the given asset id, none without an id (otherwise the run executes events due after its end)'))
    return obs


def unpause_time_form(P, o):
    """shared with C06.6 / C07.2: normal form of the time given to an event when it is unpaused, read off the per-element effect of
    unpause_matching_events on a paused event whose asset id matches (sa/elem.py) -- whatever the loop is spelled like"""
    from . import c07
    Env = P.cls('Environment')
    dk, fn = P.method(Env, 'unpause_matching_events')
    N = Normalizer(P, Env)
    table = c07.element_table(P, Env, 'unpause_matching_events')
    paths = table[('_paused_events', True, True)]
    o.count()
    done = None
    for r in paths:
        writes = [w for w in r['writes'] if w[0] == 'time']
        if len(writes) != 1:
            o.fail(P, 'Environment.unpause_matching_events', 'event.time += self.now - event.paused_at',
                   f'expected exactly one update of the event time on unpause, found {len(writes)}', file=Env.mod.path, line=fn.lineno)
            return None
        attr, rhs, seq, line = writes[0]
        lin = N.norm(rhs, {})
        if lin is None or not lin.is_({'NOW': 1, 'E_.time': 1, 'E_.paused_at': -1}):
            o.fail(P, 'Environment.unpause_matching_events', ast.unparse(rhs),
                   f'the unpaused time must be time + now - paused_at (pause length added), found `{lin.key() if lin else "?"}`',
                   file=Env.mod.path, line=line)
        else:
            o.witness('form')
            if done is None:
                o.sample({'expr': ast.unparse(rhs), 'normal_form': lin.key(), 'file': P.rel(Env.mod.path), 'line': line})
        done = rhs
    return done


def lt_keys(P, Ev, o):
    """extract [(attr, 'asc'|'desc'), ...] from Event.__lt__; findings for malformed chains"""
    dk, fn = P.method(Ev, '__lt__')
    params = [a.arg for a in fn.args.args]
    if len(params) != 2:
        raise AnalysisError('Event.__lt__ does not take (self, other)')
    me, other = params
    keys = []

    def side(e):
        """('me'|'other', attr, negated)"""
        neg = False
        if isinstance(e, ast.UnaryOp) and isinstance(e.op, ast.USub):
            neg, e = True, e.operand
        if isinstance(e, ast.Attribute) and isinstance(e.value, ast.Name) and e.value.id in (me, other):
            return ('me' if e.value.id == me else 'other'), e.attr, neg
        return None

    def direction(cmp):
        """Compare of the same attr on both sides -> (attr, 'asc'/'desc') or None"""
        if not (isinstance(cmp, ast.Compare) and len(cmp.ops) == 1):
            return None
        a, b = side(cmp.left), side(cmp.comparators[0])
        if not a or not b or a[1] != b[1] or a[0] == b[0] or a[2] != b[2]:
            return None
        op = cmp.ops[0]
        if isinstance(op, (ast.Lt, ast.LtE)):
            d = 'asc'
        elif isinstance(op, (ast.Gt, ast.GtE)):
            d = 'desc'
        else:
            return None
        if a[0] == 'other':
            d = 'desc' if d == 'asc' else 'asc'
        if a[2]:
            d = 'desc' if d == 'asc' else 'asc'
        strict = isinstance(op, (ast.Lt, ast.Gt))
        return a[1], d, strict

    def tie_attr(cmp):
        """`me.k != other.k` -> (k, 'ne') ; `==` -> (k, 'eq')"""
        if isinstance(cmp, ast.UnaryOp) and isinstance(cmp.op, ast.Not):          # `not a.k != b.k` is `a.k == b.k`
            r = tie_attr(cmp.operand)
            return None if r is None else (r[0], 'eq' if r[1] == 'ne' else 'ne')
        if not (isinstance(cmp, ast.Compare) and len(cmp.ops) == 1):
            return None
        a, b = side(cmp.left), side(cmp.comparators[0])
        if not a or not b or a[1] != b[1] or a[0] == b[0] or a[2] or b[2]:
            return None
        if isinstance(cmp.ops[0], ast.NotEq):
            return a[1], 'ne'
        if isinstance(cmp.ops[0], ast.Eq):
            return a[1], 'eq'
        return None

    def bad(node, msg):
        o.fail(P, 'Event.__lt__', node, msg, file=Ev.mod.path, line=getattr(node, 'lineno', fn.lineno))

    def walk(stmts):
        stmts = [s for s in stmts if not (isinstance(s, ast.Expr) and isinstance(s.value, ast.Constant))]
        if not stmts:
            bad(fn, 'the comparison chain can fall off the end without a result')
            return
        s = stmts[0]
        if isinstance(s, ast.Return):
            v = s.value
            if isinstance(v, ast.Compare) and isinstance(v.left, ast.Tuple) and isinstance(v.comparators[0], ast.Tuple) \
                    and len(v.left.elts) == len(v.comparators[0].elts):
                for x, y in zip(v.left.elts, v.comparators[0].elts):
                    d = direction(ast.Compare(x, v.ops, [y]))
                    if d is None:
                        bad(s, 'unrecognised element in the tuple comparison')
                        return
                    keys.append([d[0], d[1]])
                return
            d = direction(v)
            if d is None:
                bad(s, 'the result of the comparison chain is not an ordering test of one attribute of both events')
                return
            keys.append([d[0], d[1]])
            if not d[2]:
                bad(s, 'the final comparison is not strict')
            return
        if isinstance(s, ast.If):
            t = tie_attr(s.test)
            if t is None:
                bad(s, 'unrecognised guard in the comparison chain')
                return
            attr, pol = t
            tail = stmts[1:]
            if pol == 'ne':
                decide, cont = s.body, s.orelse
            elif s.orelse:
                decide, cont = s.orelse, s.body
            else:
                # `if a.k == b.k: <go on with the next key and return>` followed by the comparison of k (reached only when they differ)
                decide, cont, tail = tail, s.body, []
            decide = [x for x in decide if not (isinstance(x, ast.Expr) and isinstance(x.value, ast.Constant))]
            if len(decide) != 1 or not isinstance(decide[0], ast.Return):
                bad(s, f'when the events differ in `{attr}` the chain must return the comparison of `{attr}`')
                return
            d = direction(decide[0].value)
            if d is None or d[0] != attr:
                bad(decide[0], f'the branch for events that differ in `{attr}` does not compare `{attr}`')
                return
            keys.append([d[0], d[1]])
            rest = cont if cont else tail
            if cont and tail:
                bad(s, 'unreachable statements after the comparison chain')
            walk(rest)
            return
        bad(s, 'unrecognised statement in Event.__lt__')

    from ..cfg import split_conditional_returns
    walk(list(split_conditional_returns(fn, fn.body)))        # `return a if c else b` reads as the if-chain it abbreviates
    return keys

CLAIM = {
    'technique': 'static analysis: AST inventories (who-may-write/who-may-call), control-flow dominance on per-method '
                 'supergraphs, typestate of Event.execute, linear normal forms of guards and times, per-element abstract execution of the queue-moving '
                 'operations (order preservation of the sorted list)',
    'level_text': 'Necessary structural conditions of the ordering/clock/at-most-once/termination mechanisms are decided for every '
                  'path of the methods that can touch the event queue and the clock; a run-level statement is not claimed.',
    'level_note': 'Trusts list/bisect semantics and non-NaN times; user code is assumed not to touch Environment internals.',
}
