"""C14 -- reproducibility: same seed, same results; runs can be split and parallelised (narrow claim)."""
import ast

from .. import AnalysisError
from ..report import Ob
from ..norm import subst
from ..cfg import calls_at, call_attr, is_self_attr, walk_now
from .. import inventory as inv
from .c01 import lt_keys

EXPLANATION = '''
Static analysis of every module of the package (tests excluded).  Decided: (C14.1) the only source of run-to-run
variation is the process-global generator of the `random` module (sites listed in the evidence): no private or
OS-seeded generator, no numpy/uuid/secrets/os.urandom, no id()/hash() values, and wall-clock or process values
(time.*, datetime.*, os.getpid) flow only into print; (C14.2) no iteration over a set/frozenset except at sites
listed with the reason why the order cannot matter (a positive control fixture must be flagged on every run);
(C14.3) simulate_multiple_times returns results in index order: the in-process branch maps the helper over range(n)
ascending, the worker branch submits index i in ascending order into a list that is only appended to and collects
results by walking that list forwards, both branches run the same helper with (simulation, i, *args, **kwargs);
(C14.4) nothing is shared between Systems or carried over between runs by accident: no mutable or constructed default
argument, no module- or class-level mutable state beyond the two listed exceptions (the asset id counter -- the
documented exception "up to the numbering of asset ids" -- and the active-system reference), Environment.run neither
resets nor re-binds the queue, the paused list, the recorded data or the clock; (C14.5) Event.__lt__ consults asset_id
only after the random tie-break weight, so the numbering of ids cannot change the order of events.
NOT decided: equality of recorded data between two runs, split-run equivalence, in-process vs multi-process equality
(all three are statements about executions).
'''
ASSUMPTIONS = ['user model code seeds and uses only the global random module', 'dict iteration order is insertion order']
MIN_INSTANCES = 150

GLOBAL_RANDOM_FUNCS = {'random', 'uniform', 'randint', 'randrange', 'choice', 'choices', 'shuffle', 'sample', 'gauss', 'normalvariate', 'expovariate',
                       'triangular', 'betavariate', 'gammavariate', 'lognormvariate', 'vonmisesvariate', 'paretovariate', 'weibullvariate', 'getrandbits',
                       'seed', 'getstate', 'setstate', 'randbytes', 'binomialvariate'}
FORBIDDEN_MODULES = {'numpy.random', 'secrets', 'uuid'}
WALL_CLOCK = {('time', 'time'), ('time', 'perf_counter'), ('time', 'monotonic'), ('time', 'time_ns'), ('time', 'process_time'), ('time', 'perf_counter_ns'),
              ('time', 'monotonic_ns'), ('time', 'ctime'), ('time', 'localtime'), ('time', 'gmtime'), ('time', 'strftime'),
              ('datetime', 'now'), ('datetime', 'utcnow'), ('datetime', 'today'), ('date', 'today'), ('os', 'getpid'), ('os', 'getppid'), ('os', 'times'),
              ('threading', 'get_ident'), ('os', 'urandom')}
SINKS_OK = {'print', 'str', 'repr', 'format', 'round', 'int', 'float'}

# iteration over a set: site -> reason the order cannot matter
SET_ITERATION_ALLOWED = {
    'Group.__init__': 'validation loop: appends the group to each device once and raises on a foreign neighbour; nothing order-dependent is stored',
}
# class-level state written at run time: attribute -> reason
CLASS_STATE_ALLOWED = {
    ('Asset', '_id_counter'): 'asset id numbering: the documented exception of the property ("up to the numbering of asset ids")',
    ('System', '_instance'): 'reference to the active system; every System() replaces it',
}


def _module_of(P, mod, name):
    """dotted external module a local name is bound to, e.g. 'random', 'numpy.random', 'time'"""
    b = mod.bindings.get(name)
    if b is None:
        return None
    if b[0] == 'module':
        return b[1]
    if b[0] == 'import' and b[1] not in P.mods and not b[1].startswith(P.pkg):
        return f'{b[1]}.{b[2]}'
    return None


def sources(ctx, o):
    P = ctx.P
    sites = []
    for m in P.mods.values():
        par = m.parents
        for n in ast.walk(m.tree):
            # imports of forbidden modules
            if isinstance(n, (ast.Import, ast.ImportFrom)):
                names = [a.name for a in n.names] if isinstance(n, ast.Import) else [f'{n.module}.{a.name}' for a in n.names] + [n.module or '']
                for nm in names:
                    o.count()
                    if any(nm == f or nm.startswith(f + '.') for f in FORBIDDEN_MODULES):
                        o.fail(P, m.name, n, f'import of {nm}: a source of values that does not depend on the seed of the global random module', file=m.path, line=n.lineno)
            if not isinstance(n, ast.Call):
                continue
            f = n.func
            cls, func = inv._enclosing_func_cls(P, m, n)
            where = f'{cls.name if cls else "<module>"}.{func.name if func else "<top>"}'
            if isinstance(f, ast.Attribute) and isinstance(f.value, ast.Name):
                ext = _module_of(P, m, f.value.id)
                if ext == 'random':
                    o.count()
                    if f.attr in GLOBAL_RANDOM_FUNCS:
                        sites.append((P.rel(m.path), n.lineno, where, ast.unparse(n)[:60]))
                        o.witness((where, n.lineno))
                    else:
                        o.fail(P, where, n, f'random.{f.attr}: a private or OS-seeded generator escapes the seed of the global random module (same seed would not give the same run)',
                               file=m.path, line=n.lineno)
                elif ext and (ext.startswith('numpy') and 'random' in ast.unparse(f)):
                    o.count()
                    o.fail(P, where, n, 'numpy random generator: not controlled by random.seed()', file=m.path, line=n.lineno)
            if isinstance(f, ast.Attribute) and isinstance(f.value, ast.Attribute) and ast.unparse(f.value) in ('np.random', 'numpy.random'):
                o.count()
                o.fail(P, where, n, 'numpy random generator: not controlled by random.seed()', file=m.path, line=n.lineno)
            if isinstance(f, ast.Name):
                ext = _module_of(P, m, f.id)
                if ext and ext.startswith('random.'):
                    o.count()
                    if ext.split('.', 1)[1] in GLOBAL_RANDOM_FUNCS:
                        sites.append((P.rel(m.path), n.lineno, where, ast.unparse(n)[:60]))
                    else:
                        o.fail(P, where, n, f'{ext}: a private or OS-seeded generator', file=m.path, line=n.lineno)
                if f.id in ('id', 'hash') and f.id not in m.bindings and not _shadowed(par, n, f.id):
                    o.count()
                    p = par.get(n)
                    o.fail(P, where, n, f'{f.id}() value used: it differs from process to process and run to run', file=m.path, line=n.lineno)
    o.require(len(sites) >= 2, f'only {len(sites)} uses of the global random module found (Event tie-break weight and the geometric sample on the pinned tree)')
    o.stats['global_random_sites'] = [f'{a}:{b} {c} `{d}`' for a, b, c, d in sites]
    for s in sites[:3]:
        o.sample({'site': f'{s[0]}:{s[1]}', 'in': s[2], 'call': s[3]})


def _shadowed(par, n, name):
    p = n
    while p is not None:
        p = par.get(p)
        if isinstance(p, (ast.FunctionDef, ast.Lambda)):
            a = p.args
            if any(x.arg == name for x in a.args + a.kwonlyargs + a.posonlyargs):
                return True
    return False


def wall_clock(ctx, o):
    """wall-clock / process values may reach only print -- also through a helper of the same class that is handed such a value (the
    helper is checked with that parameter tainted, two levels deep)"""
    P = ctx.P

    def analyse(m, c, fn, seeds, depth):
        """problems [(node, what)] of fn when the names in `seeds` hold wall-clock values (plus the sources read in fn itself)"""
        def is_source(x):
            if isinstance(x, ast.Call) and isinstance(x.func, ast.Attribute):
                base = x.func.value
                bname = base.id if isinstance(base, ast.Name) else (base.attr if isinstance(base, ast.Attribute) else None)
                if bname is None:
                    return False
                ext = _module_of(P, m, bname) if isinstance(base, ast.Name) else None
                root = (ext or bname).split('.')[-1]
                return (root, x.func.attr) in WALL_CLOCK or ((ext or '').split('.')[0] in ('time', 'datetime') and (root, x.func.attr) in WALL_CLOCK)
            if isinstance(x, ast.Call) and isinstance(x.func, ast.Name):
                ext = _module_of(P, m, x.func.id)
                if ext and tuple(ext.split('.')[-2:]) in WALL_CLOCK:
                    return True
            return False
        srcs = [x for x in ast.walk(fn) if is_source(x)]
        if not srcs and not seeds:
            return None
        tainted = set(seeds)
        changed = True

        def has_taint(e):
            return any(is_source(x) or (isinstance(x, ast.Name) and x.id in tainted) for x in ast.walk(e))
        while changed:
            changed = False
            for st in ast.walk(fn):
                if isinstance(st, (ast.Assign, ast.AugAssign, ast.AnnAssign)) and st.value is not None and has_taint(st.value):
                    tg = st.targets if isinstance(st, ast.Assign) else [st.target]
                    for t in tg:
                        for x in ast.walk(t):
                            if isinstance(x, ast.Name) and x.id not in tainted:
                                tainted.add(x.id)
                                changed = True
        problems = []
        n_checked = 0
        for st in ast.walk(fn):
            n_checked += 1
            bad = None
            if isinstance(st, (ast.Assign, ast.AugAssign, ast.AnnAssign)) and st.value is not None and has_taint(st.value):
                tg = st.targets if isinstance(st, ast.Assign) else [st.target]
                if any(not isinstance(t, ast.Name) for t in tg):
                    bad = 'stored in an attribute or container'
            elif isinstance(st, ast.Return) and st.value is not None and has_taint(st.value):
                bad = 'returned'
            elif isinstance(st, (ast.If, ast.While, ast.IfExp, ast.Assert)) and has_taint(st.test):
                bad = 'used in a condition'
            elif isinstance(st, ast.Call) and not is_source(st):
                nm = call_attr(st)
                args = list(st.args) + [k.value for k in st.keywords]
                if any(has_taint(a) for a in args) and not (isinstance(st.func, ast.Name) and nm in SINKS_OK):
                    bad = f'passed to {ast.unparse(st.func)}()'
                    # a helper of the same class: follow the value into it
                    f = st.func
                    if depth < 2 and c is not None and isinstance(f, ast.Attribute) and isinstance(f.value, ast.Name) \
                            and (f.value.id in ('self', 'cls') or f.value.id in {k.name for k in c.mro}):
                        hit = P.lookup(c, f.attr)
                        if hit and hit[1] == 'method' and not st.keywords and not any(isinstance(a, ast.Starred) for a in st.args):
                            hfn = hit[2]
                            static = any(isinstance(d, ast.Name) and d.id == 'staticmethod' for d in hfn.decorator_list)
                            ps = [a.arg for a in hfn.args.args][(0 if static else 1):]
                            if len(ps) >= len(st.args) and not hfn.args.vararg and not hfn.args.kwarg:
                                sub = analyse(hit[0].mod, hit[0], hfn, {p_ for p_, a_ in zip(ps, st.args) if has_taint(a_)}, depth + 1)
                                if sub is not None and not sub[0]:
                                    bad = None
                                elif sub is not None:
                                    bad = f'passed to {ast.unparse(st.func)}(), where it is {sub[0][0][1]}'
            if bad:
                problems.append((st if not isinstance(st, (ast.If, ast.While)) else st.test, bad))
        return problems, len(srcs), sorted(tainted), n_checked

    for m, c, fn in inv.functions(P):
        r = analyse(m, c, fn, set(), 0)
        if r is None or not r[1]:
            continue
        problems, nsrc, tainted, n_checked = r
        where = f'{c.name if c else "<module>"}.{fn.name}'
        o.count(n_checked)
        for node, bad in problems:
            o.fail(P, where, node, f'a wall-clock / process value is {bad}: simulation state or results would differ between identical runs',
                   file=m.path, line=node.lineno)
        o.witness(where)
        o.sample({'function': where, 'wall_clock_reads': nsrc, 'tainted_locals': tainted, 'verdict': 'reach only print'})


def set_iteration(ctx, o):
    P = ctx.P
    # a set handed to another function of the package is a set there: parameters that receive a set expression at some call site (by callee name,
    # constructors by class name), to a fixpoint
    defs = {}
    for m_ in P.mods.values():
        for c_ in m_.tree.body:
            if isinstance(c_, ast.ClassDef):
                for b_ in c_.body:
                    if isinstance(b_, ast.FunctionDef):
                        skip = 1 if b_.args.args and b_.args.args[0].arg in ('self', 'cls') and not any(ast.unparse(d_) == 'staticmethod' for d_ in b_.decorator_list) else 0
                        defs.setdefault(b_.name, []).append((b_, skip))
                        if b_.name == '__init__':
                            defs.setdefault(c_.name, []).append((b_, skip))
            elif isinstance(c_, ast.FunctionDef):
                defs.setdefault(c_.name, []).append((c_, 0))
    param_sets = {}

    def local_sets(fn):
        body_nodes = list(ast.walk(fn))
        setvars = set(param_sets.get(id(fn), ()))
        for st in body_nodes:
            if isinstance(st, ast.Assign) and _is_set_expr(st.value, setvars):
                for t in st.targets:
                    if isinstance(t, ast.Name):
                        setvars.add(t.id)
                    elif isinstance(t, ast.Attribute):
                        setvars.add(ast.unparse(t))
        return setvars
    for _round in range(4):
        grew = False
        for m_ in P.mods.values():
            for fn in [x for x in ast.walk(m_.tree) if isinstance(x, ast.FunctionDef)]:
                sv = local_sets(fn)
                if not sv and not any(isinstance(x, (ast.Set, ast.SetComp)) or (isinstance(x, ast.Call) and isinstance(x.func, ast.Name) and x.func.id in ('set', 'frozenset'))
                                      for x in ast.walk(fn)):
                    continue
                for cl in [x for x in ast.walk(fn) if isinstance(x, ast.Call)]:
                    nm = cl.func.attr if isinstance(cl.func, ast.Attribute) else cl.func.id if isinstance(cl.func, ast.Name) else None
                    if nm not in defs or nm in ('set', 'frozenset', 'list', 'tuple', 'sorted', 'len'):
                        continue
                    for callee, skip in defs[nm]:
                        ps = [a.arg for a in callee.args.args]
                        for i, a in enumerate(cl.args):
                            if _is_set_expr(a, sv) and i + skip < len(ps):
                                if ps[i + skip] not in param_sets.setdefault(id(callee), set()):
                                    param_sets[id(callee)].add(ps[i + skip])
                                    grew = True
                        for k in cl.keywords:
                            if k.arg and _is_set_expr(k.value, sv) and k.arg in ps + [a.arg for a in callee.args.kwonlyargs]:
                                if k.arg not in param_sets.setdefault(id(callee), set()):
                                    param_sets[id(callee)].add(k.arg)
                                    grew = True
        if not grew:
            break

    def check_tree(tree, mod, report):
        par = {}
        for p in ast.walk(tree):
            for ch in ast.iter_child_nodes(p):
                par[ch] = p
        found = []
        for fn in [x for x in ast.walk(tree) if isinstance(x, (ast.FunctionDef, ast.Module))]:
            body_nodes = list(ast.walk(fn)) if isinstance(fn, ast.FunctionDef) else []
            setvars = set(param_sets.get(id(fn), ()))
            for st in body_nodes:
                if isinstance(st, ast.Assign) and _is_set_expr(st.value, setvars):
                    for t in st.targets:
                        if isinstance(t, ast.Name):
                            setvars.add(t.id)
                        elif isinstance(t, ast.Attribute):
                            setvars.add(ast.unparse(t))
            for st in body_nodes:
                its = []
                if isinstance(st, ast.For):
                    its.append(st.iter)
                if isinstance(st, (ast.ListComp, ast.GeneratorExp, ast.DictComp)):
                    its += [g.iter for g in st.generators]
                if isinstance(st, ast.Call) and isinstance(st.func, ast.Name) and st.func.id in ('list', 'tuple', 'enumerate', 'zip', 'next', 'iter') and st.args:
                    its += [a for a in st.args]
                if isinstance(st, ast.Call) and call_attr(st) == 'pop' and isinstance(st.func, ast.Attribute) and not st.args and \
                        (_is_set_expr(st.func.value, setvars)):
                    its.append(st.func.value)
                for it in its:
                    if _is_set_expr(it, setvars) or (isinstance(it, (ast.Name, ast.Attribute)) and ast.unparse(it) in setvars):
                        found.append((fn, st, it))
        return found
    n_found = 0
    for m in P.mods.values():
        for fn, st, it in check_tree(m.tree, m, True):
            cls, func = inv._enclosing_func_cls(P, m, st)
            where = f'{cls.name if cls else "<module>"}.{func.name if func else "<top>"}'
            o.count()
            n_found += 1
            key = where                      # (the function, not the name of the local that holds the set)
            if key in SET_ITERATION_ALLOWED:
                # the allowed loop must stay order-insensitive: no scheduling, no recording, no list of results built from it
                body_calls = {call_attr(c_) for c_ in ast.walk(st) if isinstance(c_, ast.Call)}
                if body_calls & {'schedule_event', 'add_datapoint', 'give_part', 'insort'}:
                    o.fail(P, where, st, 'the listed set iteration now schedules/records/hands over inside its body: the order of a set is not reproducible', file=m.path, line=st.lineno)
                else:
                    o.witness(key)
                    o.notes.append(f'{where}: iteration over the set `{ast.unparse(it)}` allowed -- {SET_ITERATION_ALLOWED[key]}')
            else:
                o.fail(P, where, st, f'iteration over the set `{ast.unparse(it)}`: the order differs between processes (hash randomisation of objects without __hash__ based on value), '
                       'so runs are not reproducible', file=m.path, line=st.lineno)
    # positive control: the rule must flag a tiny fixture on every run
    fixture = ast.parse('def f(xs):\n    seen = set(xs)\n    out = []\n    for x in seen:\n        out.append(x)\n    return out\n')
    o.count()
    if not check_tree(fixture, None, False):
        raise AnalysisError('C14.2 positive control: the set-iteration rule did not flag its fixture')
    o.stats['set_iterations_found'] = n_found
    o.stats['positive_control'] = 'flagged'


def _is_set_expr(e, setvars):
    if isinstance(e, (ast.Set, ast.SetComp)):
        return True
    if isinstance(e, ast.Call) and isinstance(e.func, ast.Name) and e.func.id in ('set', 'frozenset'):
        return True
    if isinstance(e, ast.BinOp) and isinstance(e.op, (ast.BitOr, ast.BitAnd, ast.Sub, ast.BitXor)):
        return _is_set_expr(e.left, setvars) or _is_set_expr(e.right, setvars)
    if isinstance(e, ast.Call) and isinstance(e.func, ast.Attribute) and e.func.attr in ('union', 'intersection', 'difference', 'symmetric_difference', 'copy') \
            and _is_set_expr(e.func.value, setvars):
        return True
    if isinstance(e, (ast.Name, ast.Attribute)) and ast.unparse(e) in setvars:
        return True
    return False


def result_order(ctx, o):
    """C14.3 over simulate_multiple_times and the static helpers of System it delegates to.  In every function of that closure the
    lists of futures / results may only be built in index order: a comprehension or an append-loop over range(n) ascending submitting
    (helper, simulation, i, *args, **kwargs); a comprehension or an append-loop walking the futures list forwards collecting .result().
    Parameter names are mapped through the delegating calls to the names of simulate_multiple_times itself."""
    P = ctx.P
    S = P.cls('System')
    top = P.method(S, 'simulate_multiple_times')[1]
    tparams = [a.arg for a in top.args.args]
    if len(tparams) < 2:
        raise AnalysisError('simulate_multiple_times lost its (simulation, number_of_simulations) parameters')
    SIM, NSIM = tparams[0], tparams[1]
    where0 = 'System.simulate_multiple_times'
    state = {'helper_sites': 0, 'submit': 0, 'collect': 0}

    def analyse(fn, bind, where, depth=0):
        """bind: local parameter name -> name in simulate_multiple_times ('simulation', 'number_of_simulations', ...)"""
        def top_name(e):
            return bind.get(e.id) if isinstance(e, ast.Name) else None

        def asc_range(it):
            return isinstance(it, ast.Call) and isinstance(it.func, ast.Name) and it.func.id == 'range' and len(it.args) == 1 and top_name(it.args[0]) == NSIM

        def helper_call(c, idx):
            args = list(c.args)
            if call_attr(c) == 'submit':
                if not args or ast.unparse(args[0]) != 'System._simulation_helper':
                    return False
                args = args[1:]
            elif ast.unparse(c.func) != 'System._simulation_helper':
                return False
            star = [a_ for a_ in args if isinstance(a_, ast.Starred)]
            kw = [k for k in c.keywords if k.arg is None]
            return len(args) >= 2 and top_name(args[0]) == SIM and ast.unparse(args[1]) == idx and len(star) == 1 and len(kw) == 1

        lists = {}       # local list name -> 'futures' | 'results' | None (not yet known)
        for st in ast.walk(fn):
            if isinstance(st, ast.Assign) and len(st.targets) == 1 and isinstance(st.targets[0], ast.Name):
                v = st.value
                if isinstance(v, ast.List) and not v.elts:
                    lists.setdefault(st.targets[0].id, None)
                elif isinstance(v, ast.ListComp):
                    kind = comp_kind(v, lists, asc_range, helper_call, where, fn)
                    if kind:
                        lists[st.targets[0].id] = kind

        def ret_ok(v, r):
            if isinstance(v, ast.ListComp):
                kind = comp_kind(v, lists, asc_range, helper_call, where, fn)
                if kind in ('inproc', 'results'):
                    return True
                o.fail(P, where, r, 'the returned list is not built by running the helper for i = 0 .. n-1 ascending, nor by walking the futures forwards', file=S.mod.path, line=r.lineno)
                return False
            if isinstance(v, ast.Name) and v.id in lists:
                return True           # its construction is checked below
            if isinstance(v, ast.Call) and isinstance(v.func, ast.Attribute) and isinstance(v.func.value, ast.Name) and v.func.value.id in ('System', 'cls') and depth < 3:
                hit = P.lookup(S, v.func.attr)
                if hit and hit[1] == 'method' and v.func.attr != '_simulation_helper':
                    hfn = hit[2]
                    hp = [a_.arg for a_ in hfn.args.args]
                    nb = {}
                    for p_, a_ in zip(hp, v.args):
                        if isinstance(a_, ast.Name) and a_.id in bind:
                            nb[p_] = bind[a_.id]
                    for k in v.keywords:
                        if k.arg and isinstance(k.value, ast.Name) and k.value.id in bind:
                            nb[k.arg] = bind[k.value.id]
                    analyse(hfn, nb, f'System.{v.func.attr}', depth + 1)
                    return True
            o.fail(P, where, r, 'unrecognised form of the returned list of systems', file=S.mod.path, line=r.lineno)
            return False

        rets = [r for r in ast.walk(fn) if isinstance(r, ast.Return) and r.value is not None]
        o.require(rets, f'{where} returns nothing')
        for r in rets:
            o.count()
            ret_ok(r.value, r)
        # every operation on a local list
        for st in ast.walk(fn):
            if not isinstance(st, ast.Call):
                continue
            f = st.func
            if isinstance(f, ast.Attribute) and isinstance(f.value, ast.Name) and f.value.id in lists:
                o.count()
                L = f.value.id
                if f.attr != 'append':
                    o.fail(P, where, st, f'`{L}.{f.attr}(...)`: the lists of futures / results may only be appended to (anything else can permute the index order of the results)',
                           file=S.mod.path, line=st.lineno)
                    continue
                a_ = st.args[0] if st.args else None
                loop = _enclosing_for(S.mod, st)
                if isinstance(a_, ast.Call) and call_attr(a_) == 'submit':
                    ok = loop is not None and isinstance(loop.target, ast.Name) and asc_range(loop.iter) and helper_call(a_, loop.target.id) and not _has_jump(loop)
                    if ok:
                        lists[L] = 'futures'
                        state['helper_sites'] += 1
                        state['submit'] += 1
                        o.witness('submit in index order')
                    else:
                        o.fail(P, where, st, 'runs are not submitted for i = 0 .. n-1 in ascending order with (simulation, i, *args, **kwargs)', file=S.mod.path, line=st.lineno)
                elif isinstance(a_, ast.Call) and ast.unparse(a_.func) == 'System._simulation_helper':
                    # the in-process branch written as an append loop
                    ok = loop is not None and isinstance(loop.target, ast.Name) and asc_range(loop.iter) and helper_call(a_, loop.target.id) and not _has_jump(loop)
                    if ok:
                        lists[L] = 'inproc'
                        state['helper_sites'] += 1
                        o.witness('in-process branch')
                    else:
                        o.fail(P, where, st, 'in-process runs are not made for i = 0 .. n-1 in ascending order with (simulation, i, *args, **kwargs)', file=S.mod.path, line=st.lineno)
                elif isinstance(a_, ast.Call) and call_attr(a_) == 'result':
                    recv = a_.func.value
                    ok = False
                    if loop is not None and not _has_jump(loop):
                        if isinstance(loop.target, ast.Name) and isinstance(recv, ast.Name) and recv.id == loop.target.id and isinstance(loop.iter, ast.Name) and loop.iter.id in lists:
                            ok = True
                        elif isinstance(recv, ast.Subscript) and isinstance(recv.value, ast.Name) and recv.value.id in lists and isinstance(loop.target, ast.Name) and \
                                ast.unparse(recv.slice) == loop.target.id and asc_range(loop.iter):
                            ok = True
                    if ok:
                        lists[L] = 'results'
                        state['collect'] += 1
                        o.witness('collect in index order')
                    else:
                        o.fail(P, where, st, 'results are not collected by walking the list of futures forwards (index order)', file=S.mod.path, line=st.lineno)
                else:
                    o.fail(P, where, st, f'unrecognised element appended to `{L}`', file=S.mod.path, line=st.lineno)
            nm = f.attr if isinstance(f, ast.Attribute) else (f.id if isinstance(f, ast.Name) else None)
            if nm in ('as_completed', 'wait', 'sorted', 'reversed', 'shuffle'):
                o.count()
                o.fail(P, where, st, f'{nm}(): results would be ordered by completion or re-ordered, not by index', file=S.mod.path, line=st.lineno)
        for st in ast.walk(fn):
            if isinstance(st, ast.Subscript) and isinstance(st.value, ast.Name) and st.value.id in lists and isinstance(st.ctx, (ast.Store, ast.Del)):
                o.fail(P, where, st, 'element of a futures / results list overwritten or deleted', file=S.mod.path, line=st.lineno)

    def comp_kind(v, lists, asc_range, helper_call, where, fn):
        """'inproc' ([helper(sim, i, ...) for i in range(n)]), 'futures' ([pool.submit(helper, sim, i, ...) for i in range(n)]),
        'results' ([f.result() for f in <futures list>]) or None"""
        if len(v.generators) != 1 or v.generators[0].ifs or not isinstance(v.generators[0].target, ast.Name):
            return None
        gen = v.generators[0]
        e = v.elt
        if asc_range(gen.iter) and isinstance(e, ast.Call) and helper_call(e, gen.target.id):
            state['helper_sites'] += 1
            if call_attr(e) == 'submit':
                state['submit'] += 1
                o.witness('submit in index order')
                return 'futures'
            o.witness('in-process branch')
            return 'inproc'
        if isinstance(e, ast.Call) and call_attr(e) == 'result' and isinstance(e.func.value, ast.Name) and e.func.value.id == gen.target.id and \
                isinstance(gen.iter, ast.Name) and lists.get(gen.iter.id) == 'futures':
            state['collect'] += 1
            o.witness('collect in index order')
            return 'results'
        return None
    analyse(top, {p_: p_ for p_ in tparams}, where0)
    o.count()
    if state['helper_sites'] < 2:
        o.fail(P, where0, 'System._simulation_helper(simulation, i, *args, **kwargs)', f'expected the same helper to run in both the in-process and the worker branch; found {state["helper_sites"]} site(s)',
               file=S.mod.path, line=top.lineno)
    if state['submit'] and not state['collect']:
        o.fail(P, where0, 'futures[i].result()', 'the results of the submitted runs are never collected in index order', file=S.mod.path, line=top.lineno)
    o.sample({'in_process': 'helper over range(n) ascending', 'submit_sites': state['submit'], 'collect_sites': state['collect']})


def _enclosing_for(mod, n):
    p = n
    while p is not None:
        p = mod.parents.get(p)
        if isinstance(p, ast.For):
            return p
        if isinstance(p, ast.FunctionDef):
            return None
    return None


def _has_jump(loop):
    return any(isinstance(x, (ast.Break, ast.Continue, ast.Return)) for x in ast.walk(loop))


def shared_state(ctx, o):
    P = ctx.P
    # (a) default arguments
    for m, c, fn in inv.functions(P):
        a = fn.args
        for d in list(a.defaults) + [x for x in a.kw_defaults if x is not None]:
            o.count()
            if not _immutable(d):
                where = f'{c.name if c else "<module>"}.{fn.name}'
                o.fail(P, where, d, f'default argument `{ast.unparse(d)}` is evaluated once at import: the object is shared by every call, i.e. by every System / asset of every run in the process',
                       file=m.path, line=d.lineno)
    # (b) module-level and class-level mutable state
    for m in P.mods.values():
        for st in m.tree.body:
            if isinstance(st, (ast.Assign, ast.AnnAssign, ast.AugAssign)):
                o.count()
                v = st.value
                if v is not None and not _immutable(v) and not (isinstance(st, ast.Assign) and all(isinstance(t, ast.Name) and t.id == '__all__' for t in st.targets)):
                    o.fail(P, m.name, st, 'module-level mutable state is shared by all simulations of the process', file=m.path, line=st.lineno)
            if isinstance(st, ast.Global):
                o.fail(P, m.name, st, 'global statement', file=m.path, line=st.lineno)
        for c in m.classes.values():
            for st in c.node.body:
                if isinstance(st, (ast.Assign, ast.AnnAssign)) and st.value is not None:
                    o.count()
                    alias_ = isinstance(st, ast.Assign) and all(isinstance(t, ast.Name) and t.id in getattr(c, 'method_aliases', ()) for t in st.targets)
                    if alias_:
                        continue        # `name = OtherClass.method`: another name for a function, not state
                    if not _immutable(st.value) and not (isinstance(st.value, ast.Call) and ast.unparse(st.value.func) in ('auto', 'enum.auto')):
                        o.fail(P, c.name, st, 'class-level mutable object is shared by all instances of all simulations of the process', file=m.path, line=st.lineno)
    for m, c, fn in inv.functions(P):
        for n in ast.walk(fn):
            if isinstance(n, ast.Global):
                o.fail(P, f'{c.name if c else "<module>"}.{fn.name}', n, 'global statement: state carried across simulations', file=m.path, line=n.lineno)
            if isinstance(n, ast.Attribute) and isinstance(n.ctx, (ast.Store, ast.Del)):
                base = n.value
                k = None
                if isinstance(base, ast.Name):
                    r = P.resolve_name(m, base.id)
                    if r and r[0] == 'class':
                        k = r[1].name
                if isinstance(base, ast.Call) and ast.unparse(base) == 'type(self)' and c is not None:
                    k = c.name
                if isinstance(base, ast.Attribute) and ast.unparse(base) == 'self.__class__' and c is not None:
                    k = c.name
                if k is not None:
                    o.count()
                    if (k, n.attr) in CLASS_STATE_ALLOWED:
                        o.witness((k, n.attr))
                    else:
                        o.fail(P, f'{c.name if c else "<module>"}.{fn.name}', inv._enclosing_stmt(m, n), f'class-level state {k}.{n.attr} written at run time: it is carried from one simulation to the next',
                               file=m.path, line=n.lineno)
    for (k, a), why in CLASS_STATE_ALLOWED.items():
        o.notes.append(f'{k}.{a}: allowed -- {why}')
    # (c) Environment.run keeps what the previous run left
    E = P.cls('Environment')
    g = ctx.graph(E, 'run')
    for n in g.nodes.values():
        o.count()
        if n.kind == 'call_enter' and n.frame.func.name in ('_reset', '__init__'):
            o.fail(P, 'Environment.run', n.src(), 'run() resets the environment: a continued simulation would not equal one long run', node=n)
        a = n.ast
        if n.kind == 'stmt' and isinstance(a, (ast.Assign, ast.AugAssign, ast.Delete)):
            tg = a.targets if isinstance(a, (ast.Assign, ast.Delete)) else [a.target]
            for t in tg:
                if is_self_attr(t) and t.attr in ('_events', '_paused_events', 'simulation_data'):
                    o.fail(P, 'Environment.run', a, f'run() re-binds {t.attr}: a continued simulation would lose what the previous run left', node=n)
    o.witness('run keeps state')
    # the queue and the paused list are the only event containers: events parked elsewhere escape pause/cancel and make split runs differ
    o.count()
    Ev = P.cls('Event')
    holders = set()
    for m, c, fn in inv.functions(P):
        if c is not E:
            continue
        for n in ast.walk(fn):
            if isinstance(n, ast.Call) and ((isinstance(n.func, ast.Attribute) and n.func.attr in ('append', 'add', 'insert', 'appendleft', 'extend') and is_self_attr(n.func.value))
                                            or (call_attr(n) in ('insort', 'insort_right', 'insort_left', 'heappush') and n.args and is_self_attr(n.args[0]))):
                fld = n.func.value.attr if (isinstance(n.func, ast.Attribute) and is_self_attr(n.func.value)) else n.args[0].attr
                arg = n.args[-1] if n.args else None
                if arg is not None and _is_event_value(fn, arg):
                    holders.add(fld)
    extra = holders - {'_events', '_paused_events'}
    if extra:
        o.fail(P, 'Environment', f'self.{sorted(extra)[0]}.append(<event>)', f'events are also kept in {sorted(extra)}: pause/cancel and run continuation only know the queue and the paused list',
               file=E.mod.path, line=E.node.lineno)
    o.stats['event_containers'] = sorted(holders)


def _is_event_value(fn, arg):
    if isinstance(arg, ast.Call) and ast.unparse(arg.func) == 'Event':
        return True
    if isinstance(arg, ast.Name):
        for st in ast.walk(fn):
            if isinstance(st, ast.Assign) and any(isinstance(t, ast.Name) and t.id == arg.id for t in st.targets) and isinstance(st.value, ast.Call) and ast.unparse(st.value.func) == 'Event':
                return True
            if isinstance(st, ast.For) and isinstance(st.target, ast.Name) and st.target.id == arg.id:
                return True
        return arg.id in ('event', 'new_event', 'next_event')
    return False


def _immutable(d):
    if isinstance(d, ast.Constant):
        return True
    if isinstance(d, ast.UnaryOp) and isinstance(d.operand, ast.Constant):
        return True
    if isinstance(d, ast.Tuple):
        return all(_immutable(e) for e in d.elts)
    if isinstance(d, ast.Call) and isinstance(d.func, ast.Name) and d.func.id in ('float', 'int', 'str', 'frozenset', 'tuple', 'bool') and all(_immutable(a) for a in d.args):
        return True
    if isinstance(d, ast.Attribute) and isinstance(d.value, ast.Name) and d.value.id[:1].isupper() and d.attr.isupper():
        return True          # enum member such as EventType.OTHER_LOW_PRIORITY
    if isinstance(d, ast.Name) and d.id in ('None', 'True', 'False'):
        return True
    if isinstance(d, ast.Call) and isinstance(d.func, ast.Name) and d.func.id == 'object' and not d.args and not d.keywords:
        return True          # a sentinel: it has no state to share
    if isinstance(d, ast.BinOp):
        return _immutable(d.left) and _immutable(d.right)
    if isinstance(d, ast.Call) and ((isinstance(d.func, ast.Name) and d.func.id in ('namedtuple', 'NamedTuple')) or
                                    (isinstance(d.func, ast.Attribute) and d.func.attr in ('namedtuple', 'NamedTuple'))):
        return True          # a record type: a class definition, not state
    if isinstance(d, ast.Call) and ast.unparse(d.func) in ('logging.getLogger', 'getLogger'):
        return True          # the module's logger: diagnostics, it carries nothing of a simulation
    TYPING = {'Union', 'Optional', 'List', 'Dict', 'Tuple', 'Callable', 'Any', 'Sequence', 'Iterable', 'Mapping', 'Type', 'Set', 'FrozenSet', 'Literal', 'Final', 'ClassVar'}
    if isinstance(d, ast.Subscript) and ((isinstance(d.value, ast.Name) and d.value.id in TYPING) or (isinstance(d.value, ast.Attribute) and d.value.attr in TYPING)):
        return True          # a type alias
    if isinstance(d, ast.Call) and ast.unparse(d.func) in ('TypeVar', 'typing.TypeVar', 'NewType', 'typing.NewType'):
        return True
    if isinstance(d, ast.Call) and isinstance(d.func, ast.Name) and d.func.id in ('staticmethod', 'classmethod') and len(d.args) == 1 and isinstance(d.args[0], (ast.Name, ast.Attribute)):
        return True          # `name = staticmethod(function)`: a method of the class, not state
    return False


def tie_break(ctx, o):
    P = ctx.P
    Ev = P.cls('Event')
    scratch = Ob('C14.5x', 'K6', 'scratch')
    keys = lt_keys(P, Ev, scratch)
    o.count()
    names = [k[0] for k in keys]
    if scratch.findings:
        o.notes.append('Event.__lt__ is malformed (reported by C01.2); order of keys not evaluated')
        return
    if 'asset_id' in names and ('random_weight' not in names or names.index('asset_id') < names.index('random_weight')):
        fn = P.method(Ev, '__lt__')[1]
        o.fail(P, 'Event.__lt__', 'asset_id compared before random_weight', 'the order of simultaneous events of equal priority depends on asset ids before the random weight: '
               'results would depend on how many assets were created earlier in the process', file=Ev.mod.path, line=fn.lineno)
    else:
        o.witness('keys')
    o.stats['keys'] = keys
    # the weight is drawn from the global generator when the event is created
    init = P.method(Ev, '__init__')[1]
    o.count()
    w = [s for s in ast.walk(init) if isinstance(s, ast.Assign) and any(is_self_attr(t, 'random_weight') for t in s.targets)]
    def _weight_source(e):
        # `random.random()` itself, or a parameterless module-level function / static method whose whole body returns it
        if ast.unparse(e) == 'random.random()':
            return True
        if isinstance(e, ast.Call) and not e.args and not e.keywords:
            fd = None
            if isinstance(e.func, ast.Name):
                fd = Ev.mod.functions.get(e.func.id)
            elif isinstance(e.func, ast.Attribute) and ast.unparse(e.func.value) in ('Event', 'self', 'type(self)') and e.func.attr in Ev.methods:
                fd = Ev.methods[e.func.attr]
                if [ast.unparse(d) for d in fd.decorator_list] != ['staticmethod']:
                    fd = None
            if fd is not None and not fd.args.args:
                from ..norm import simple_return
                r = simple_return(fd)
                return r is not None and ast.unparse(r) == 'random.random()'
        return False
    from ..norm import single_defs as _sd14
    wv = subst(w[0].value, _sd14(init)) if len(w) == 1 else None          # `random_weight = random.random(); self.random_weight = random_weight`
    if len(w) != 1 or not _weight_source(wv):
        o.fail(P, 'Event.__init__', 'self.random_weight = random.random()', 'the tie-break weight is not one draw from the global generator per event', file=Ev.mod.path, line=init.lineno)
    for s in inv.attr_stores(P, 'random_weight'):
        o.count()
        if not (s.cls is Ev and s.func.name == '__init__'):
            o.fail(P, s.ctx, s.stmt, 'the tie-break weight is changed after the event was created', file=s.mod.path, line=s.line)


def init_order(ctx, o):
    """every loop that calls initialize() on the elements of the registry, reachable from System.simulate, iterates the registry list itself"""
    import ast
    from ..cfg import calls_at, call_attr
    from ..norm import FrameEnv, subst
    P = ctx.P
    S = P.cls('System')
    g = ctx.graph(S, 'simulate')
    n_loops = 0
    for n in g.nodes.values():
        if n.kind != 'for':
            continue
        tgt14, iter14 = n.ast.target, n.ast.iter
        if isinstance(tgt14, ast.Tuple) and len(tgt14.elts) == 2 and isinstance(iter14, ast.Call) and isinstance(iter14.func, ast.Name) and iter14.func.id == 'enumerate' \
                and iter14.args:
            tgt14, iter14 = tgt14.elts[1], iter14.args[0]          # `for count, asset in enumerate(<registry>, 1)`: the same elements in the same order
        if not isinstance(tgt14, ast.Name):
            continue
        v = tgt14.id
        # decided on the supergraph: the call may sit in a one-line helper the loop body calls (`self._initialize_asset(asset)`)
        region = g.reach([m_ for l_, m_ in g.succ[n.id] if l_ == 'T'], avoid={n.id}, follow=lambda l_: l_ != 'exc')
        inits = [x for nid in region for x in calls_at(g, g.nodes[nid]) if call_attr(x) == 'initialize'
                 and ast.unparse(subst(x.func.value, FrameEnv(g.nodes[nid].frame))) == v]
        if not inits:
            continue
        n_loops += 1
        o.count()
        it = ast.unparse(subst(iter14, FrameEnv(n.frame))).replace(' ', '')
        # a snapshot of the registry lists the same assets in the same order (whether assets registered during the pass are reached is C20's question)
        if it not in ('self._assets', 'tuple(self._assets)', 'list(self._assets)', 'self._assets[:]', 'self._assets.copy()'):
            o.fail(P, 'System.simulate', n.ast.iter, f'the assets are initialised by iterating `{it}` instead of the registry in registration order: the same seed gives a different '
                   'evolution when names / ids differ between two otherwise identical runs', node=n)
        else:
            o.witness(('init-loop', n.line))
            o.sample({'loop': n.src(), 'file': P.rel(n.file), 'line': n.line})
    o.require(n_loops >= 1, 'no loop that initialises the registered assets is reachable from System.simulate')
    # ... and the registry list itself is never re-ordered (sorted by name, reversed, shuffled): registration order is the only order that does not
    # depend on how many assets were created earlier in the process
    for s_ in inv.attr_uses(P, '_assets'):
        if s_.cls is not S:
            continue
        role = s_.extra['role']
        o.count()
        if (role[0] == 'method' and role[1] in ('sort', 'reverse')) or (role[0] == 'arg' and role[1].split('.')[-1] in ('shuffle',)) or role[0] in ('subscript-store',):
            o.fail(P, s_.ctx, s_.stmt, 'the registry of assets is re-ordered in place: initialisation (and every later walk over the assets) then follows names / ids / chance instead of '
                   'registration order, so the same seed gives different tie-break draws when ids or names differ', file=s_.mod.path, line=s_.line)


ORDERING_FUNCS = {'sorted', 'min', 'max', 'sort', 'insort', 'insort_left', 'insort_right', 'bisect', 'bisect_left', 'bisect_right', 'heappush', 'heappop',
                  'heapify', 'nsmallest', 'nlargest', 'merge', 'heappushpop', 'heapreplace'}


def id_attributes(P):
    """attribute / property names that carry the asset id or a value derived from it: the public `id` and `name` of Asset (the default name is
    <class>_<id>), the fields their getters return, and the asset_id field of Event"""
    A = P.cls('Asset')
    out = set()
    for name in ('id', 'name'):
        fn = (A.props.get(name) or {}).get('get')
        if fn is None:
            continue
        out.add(name)
        for r in ast.walk(fn):
            if isinstance(r, ast.Return) and r.value is not None:
                out.update(x.attr for x in ast.walk(r.value) if is_self_attr(x))
    if P.has_cls('Event') and 'asset_id' in [a.arg for a in P.method(P.cls('Event'), '__init__')[1].args.args]:
        out.add('asset_id')
    return out


def identity_only(ctx, o):
    """asset ids, and the default names built from them, are identities: compared for equality, used as dictionary keys and labels, never as an
    ordering key -- the one exception being the last key of Event.__lt__, which C14.5 places after the random weight"""
    P = ctx.P
    ids = id_attributes(P)
    o.stats['id_carrying_attributes'] = sorted(ids)
    o.require('name' in ids and 'id' in ids, f'the id-carrying attributes of Asset could not be determined (found {sorted(ids)})')

    def id_loads(e, tainted=()):
        out = []
        for x in ast.walk(e):
            if isinstance(x, ast.Attribute) and isinstance(x.ctx, ast.Load) and x.attr in ids:
                out.append(x)
            elif isinstance(x, ast.Call) and isinstance(x.func, ast.Name) and x.func.id == 'getattr' and len(x.args) >= 2 \
                    and isinstance(x.args[1], ast.Constant) and x.args[1].value in ids:
                out.append(x)
            elif isinstance(x, ast.Name) and x.id in tainted:
                out.append(x)
        return out

    def key_function_bodies(k, mod, cls):
        """expressions a key function returns, with locals built from ids resolved"""
        if isinstance(k, ast.Lambda):
            return [(k.body, ())]
        nm = k.attr if isinstance(k, ast.Attribute) else k.id if isinstance(k, ast.Name) else None
        if nm is None:
            return []
        out = []
        for m, c, fn in inv.functions(P):
            if fn.name != nm:
                continue
            tainted = set()
            changed = True
            while changed:
                changed = False
                for st in ast.walk(fn):
                    if isinstance(st, ast.Assign) and id_loads(st.value, tainted):
                        for t in st.targets:
                            for n_ in ast.walk(t):
                                if isinstance(n_, ast.Name) and n_.id not in tainted:
                                    tainted.add(n_.id)
                                    changed = True
            for r in ast.walk(fn):
                if isinstance(r, ast.Return) and r.value is not None:
                    out.append((r.value, tuple(tainted)))
        return out

    for m, c, fn in inv.functions(P):
        if 'model' not in P.rel(m.path).split('/'):
            continue
        where = f'{c.name}.{fn.name}' if c is not None else fn.name
        in_event_lt = c is not None and c.name == 'Event' and fn.name in ('__lt__', '__gt__', '__le__', '__ge__')
        for x in ast.walk(fn):
            if isinstance(x, ast.Compare) and any(isinstance(op, (ast.Lt, ast.LtE, ast.Gt, ast.GtE)) for op in x.ops):
                def ordered_ids(e):
                    # an id under an equality / identity / membership test yields a truth value: `sum(1 for ev in L if ev.asset_id == i) > 0` orders a count
                    out_ = []
                    todo_ = [e]
                    while todo_:
                        y = todo_.pop()
                        if isinstance(y, ast.Compare) and all(isinstance(op_, (ast.Eq, ast.NotEq, ast.Is, ast.IsNot, ast.In, ast.NotIn)) for op_ in y.ops):
                            continue
                        out_ += [h for h in id_loads(y) if h is y]
                        todo_.extend(ast.iter_child_nodes(y))
                    return out_
                hits = [h for e in [x.left] + x.comparators for h in ordered_ids(e)]
                if not hits:
                    continue
                o.count()
                if in_event_lt:
                    o.witness(('event-order', where))        # position among the keys: C14.5
                    continue
                o.fail(P, where, x, f'`{ast.unparse(hits[0])}` takes part in an ordering comparison: ids (and the default names built from them) depend on how many assets were '
                       'created earlier in the process, the outcome of the comparison must not', file=m.path, line=x.lineno)
            elif isinstance(x, ast.Call):
                f = x.func
                nm = f.attr if isinstance(f, ast.Attribute) else f.id if isinstance(f, ast.Name) else None
                if nm not in ORDERING_FUNCS:
                    continue
                if isinstance(f, ast.Attribute) and nm in ('min', 'max', 'merge') and not (isinstance(f.value, ast.Name) and f.value.id in ('heapq', 'builtins')):
                    continue
                o.count()
                bad = None
                for kw in x.keywords:
                    if kw.arg == 'key':
                        for body, tainted in key_function_bodies(kw.value, m, c):
                            h = id_loads(body, tainted)
                            if h:
                                bad = (f'the sort key `{ast.unparse(kw.value)}` is built from `{ast.unparse(h[0])}`', kw.value)
                if bad is None:
                    for a in x.args:
                        h = id_loads(a)
                        if h:
                            bad = (f'the values being ordered are built from `{ast.unparse(h[0])}`', a)
                            break
                if bad:
                    o.fail(P, where, x, bad[0] + ': ids (and the default names built from them) depend on how many assets were created earlier in the process, '
                           'so the same model and seed give a different order -- and a different evolution -- in another process', file=m.path, line=x.lineno)
                else:
                    o.witness(('order-site', where, nm))
                    o.sample({'site': ast.unparse(x)[:120], 'function': where, 'file': P.rel(m.path), 'line': x.lineno})
    o.require(o.instances >= 3, 'fewer ordering sites than confirmed by hand (two queue insertions, the downstream priority sort)')


def check(ctx):
    P = ctx.P
    for nm in ('System', 'Environment', 'Event'):
        if not P.has_cls(nm):
            raise AnalysisError(f'class {nm} not found')
    o1 = Ob('C14.1', 'K12', 'only the global random module is a source of variation; no private/OS generators, numpy.random, uuid, id()/hash(); wall-clock and process values reach only print')
    sources(ctx, o1)
    wall_clock(ctx, o1)
    o2 = Ob('C14.2', 'K12', 'no iteration over a set except at listed order-insensitive sites; positive control fixture flagged')
    set_iteration(ctx, o2)
    o3 = Ob('C14.3', 'K2', 'simulate_multiple_times: helper run for i ascending in both branches; futures list only appended to; results collected by walking it forwards')
    result_order(ctx, o3)
    from .. import devices as dv
    dv.check_defaults(ctx, o3, [('System', 'simulate_multiple_times', 'max_processes'), ('System', 'simulate', 'print_summary'), ('System', '__init__', 'resource_manager')])
    o4 = Ob('C14.4', 'K1+K2', 'no shared or carried-over state: immutable defaults, no module/class-level mutable state beyond the listed two, run() keeps queue, paused list, data and clock; events live only in the queue and the paused list')
    shared_state(ctx, o4)
    o5 = Ob('C14.5', 'K6', 'Event.__lt__ consults asset_id only after the random weight; the weight is one global draw per event, never changed')
    tie_break(ctx, o5)
    o6 = Ob('C14.6', 'K2', 'the registered assets are initialised in registration (construction) order -- the order in which they draw their first tie-break weights -- '
                           'not in an order derived from names, ids or hashes')
    init_order(ctx, o6)
    o7 = ctx.shared('c07', 'C07.4', 'C14.7', 'running for a and then for b equals running once for a + b only if nothing is dropped at the boundary: pending events are cancelled '
                    'only by an asset, for its own id (a clean-up of the shared id -1 at the end of run() loses plant-level events of the second half)')
    o8 = ctx.shared('c01', 'C01.5', 'C14.8', 'running for a and then for b equals running once for a + b only if what is due after the first leg is still queued when the '
                    'second starts: every accepted scheduling request is queued, whatever its time')
    o9 = Ob('C14.9', 'K12', 'asset ids and the default names built from them are used as identities only (equality, dictionary keys, labels): no ordering comparison, '
                            'sort key or ordered collection is built from them, except the last key of Event.__lt__ (C14.5)')
    identity_only(ctx, o9)
    return [o1, o2, o3, o4, o5, o6, o7, o8, o9]


CLAIM = {
    'technique': 'static analysis: package-wide inventories of nondeterminism sources (resolved through import bindings), intra-procedural taint of wall-clock values, '
                 'set-iteration lint with a positive control, classification of every list operation in simulate_multiple_times, immutability of defaults and '
                 'module/class-level state, key order of Event.__lt__',
    'level_text': 'Narrow claim: absence of sources of run-to-run variation other than the seeded global generator, absence of accidentally shared or carried-over state, and '
                  'index order of the results of simulate_multiple_times. Equality of two runs, split-run equivalence and in-process vs multi-process equality are statements '
                  'about executions and are not decided.',
    'level_note': 'User model code is outside the package; CPython dict order = insertion order.',
}
