"""C05 -- buffer contract: capacity, level, FIFO order and minimum delay."""
import ast

from .. import AnalysisError
from ..report import Ob
from ..cfg import calls_at, call_attr, is_self_attr, recv_text
from ..state import Analysis, State, TOP, sched_calls, sched_event_type, bind_call, SCHED_PARAMS
from ..norm import Normalizer, cmp_norm, FrameEnv, single_defs, ctext
from .. import inventory as inv
from .. import devices as dv
from .c02 import foreign_deleg_call

EXPLANATION = '''
Static analysis of simprocesd/model/factory_floor/buffer.py in the context of the concrete class Buffer (PartHandler's
methods inlined).  Decided: (C05.1) the acceptance test refuses on the true edge of a guard with normal form
level + count(part) - capacity > 0 and otherwise defers to the base test; (C05.2) the level is increased by the count of the
accepted part exactly once on the accept path and decreased by the count of the head -- computed before the head is
removed -- exactly on the paths where the head was handed over and popped; (C05.3) the storage list is a FIFO: tail insertion,
hand-over and removal only at index 0, stored_parts in list order; (C05.4) the head is offered only on the false edge of
remaining_wait(head) > one ulp of now, remaining_wait = minimum_delay - now + arrival, arrival stamped with now at the
append, retries scheduled at arrival + minimum_delay; (C05.5) non-empty => retry armed and no pop from empty (C03.3);
(C05.6) batch parts are counted by len(parts), single parts as 1; (C05.7) every level write is followed by a level record
carrying level(); (C05.8) level()/capacity/stored_parts report the stored quantities.
NOT decided: that the level equals the number of stored leaf parts when user code mutates a stored Batch.
'''
ASSUMPTIONS = ['user code does not mutate a Batch while it is stored', 'np.nextafter(now, inf) - now is one ulp of now']
MIN_INSTANCES = 60

COUNT_NAMES = {'_get_part_count'}
OPQ = ('_get_part_count',)        # replaced in check() by the names of the count functions actually found (dv.count_functions)


def count_model(call, st, frame, an=None):
    return 'S'


def check(ctx):
    P = ctx.P
    if not P.has_cls('Buffer'):
        raise AnalysisError('class Buffer not found')
    c = P.cls('Buffer')
    N = Normalizer(P, c)
    obs = []
    global OPQ, COUNT_NAMES
    COUNT_NAMES = set(dv.count_functions(ctx)) or {'_get_part_count'}
    OPQ = tuple(sorted(COUNT_NAMES))

    # ---- C05.1 capacity guard ---------------------------------------------------------
    o = Ob('C05.1', 'K6+K2', 'Buffer._can_accept_part refuses on the true edge of `level + count(part) - capacity > 0`, else defers to the base test')
    obs.append(o)
    g = ctx.graph(c, '_can_accept_part', boolean=True, opaque=OPQ)

    def is_cap_guard(n, truth):
        r = cmp_norm(N, n.ast, FrameEnv(n.frame), truth, names=True)      # also through a boolean local (`has_room = ...`)
        if not r:
            return False
        lin, op = r
        cnt = [k for k in lin.terms if any(k.endswith(f'{nm_}(part)') for nm_ in COUNT_NAMES)]
        return op == '<' and len(cnt) == 1 and lin.is_({cnt[0]: -1, 'self._capacity': 1, 'self._level': -1})
    guards = [(n, t) for n in g.nodes.values() if n.kind == 'cond' for t in (True, False) if is_cap_guard(n, t)]
    o.count()
    ok = False
    for n, truth in guards:
        over = 'T' if truth else 'F'
        fits = 'F' if truth else 'T'
        r = g.reach([m for l, m in g.succ[n.id] if l == over], follow=lambda l: l != 'exc')
        if g.exitT in r:
            continue
        if g.exitT in g.reach_edges([g.entry], cut_edges={(n.id, fits)}):
            continue
        ok = True
        o.witness('guard')
        o.sample({'guard': n.src(), 'normal_form': 'capacity - level - count(part) < 0 => refuse', 'file': P.rel(n.file), 'line': n.line})
    if not ok:
        fn = P.method(c, '_can_accept_part')[1]
        o.fail(P, 'Buffer._can_accept_part', guards[0][0].ast if guards else 'if self.level() + part_count > self._capacity: return False',
               'a true answer of the acceptance test is not protected by the capacity guard `level + count(part) > capacity`',
               file=c.mod.path, line=fn.lineno, detail={'conditions': [n.src() for n in g.nodes.values() if n.kind == 'cond']})
    # defers to the base test: C02.3 shows the base conjuncts at every true exit
    # capacity is fixed after construction
    for s in inv.attr_stores(P, '_capacity'):
        if s.cls is c:
            o.count()
            if s.func.name != '__init__':
                o.fail(P, s.ctx, s.stmt, 'the buffer capacity is changed after construction', file=s.mod.path, line=s.line)

    # ---- C05.2 level bookkeeping ----------------------------------------------------------
    o = Ob('C05.2', 'K4', 'level += count(accepted part) exactly once on the accept path; level -= count(head), computed before the pop, '
                          'exactly on the paths where the head was handed over and popped')
    obs.append(o)
    level_pairing(ctx, c, o)
    for s in inv.attr_stores(P, '_level'):
        o.count()
        if s.cls is not c:
            o.fail(P, s.ctx, s.stmt, 'the buffer level is written outside class Buffer', file=s.mod.path, line=s.line)

    # ---- C05.3 FIFO discipline -----------------------------------------------------------------
    o = Ob('C05.3', 'K7', 'the storage list is used as a FIFO: append at the tail, hand-over and removal at index 0 only, stored_parts in list order')
    obs.append(o)
    for s in inv.attr_uses(P, '_buffer'):
        role = s.extra['role']
        o.count()
        bad = None
        if s.cls is None or c not in s.cls.mro:
            if role[0] not in ('iter', 'test', 'subscript-load'):
                bad = 'the storage list of the buffer is used outside class Buffer'
        elif role[0] == 'method':
            nm, call = role[1], role[2]
            if nm == 'append':
                o.witness('append')
            elif nm == 'pop':
                if len(call.args) == 1 and isinstance(call.args[0], ast.Constant) and call.args[0].value == 0:
                    o.witness('pop0')
                else:
                    bad = 'a stored part is removed from a position other than the head'
            elif nm in ('popleft',):
                o.witness('pop0')
            elif nm in ('copy', 'index', 'count'):
                pass
            else:
                bad = f'.{nm}() on the storage list breaks the first-in first-out order'
        elif role[0] == 'subscript-load':
            sub = s.mod.parents.get(s.node)
            idx = sub.slice
            if not (isinstance(idx, ast.Constant) and idx.value == 0):
                bad = 'a stored part other than the head is accessed'
            else:
                o.witness('head')
        elif role[0] == 'store':
            v = s.stmt.value if isinstance(s.stmt, ast.Assign) else None
            if not (s.func.name == '__init__' and isinstance(v, ast.List) and not v.elts):
                bad = 'the storage list is re-bound'
        elif role[0] in ('iter', 'test'):
            pass
        elif role[0] == 'arg' and role[1] == 'len':
            pass
        elif role[0] == 'subscript-del':
            sub = s.mod.parents.get(s.node)
            if dv.is_head_index(sub.slice):
                o.witness('pop0')
            else:
                bad = 'a stored part is removed from a position other than the head'
        elif role[0] == 'alias':
            pass        # a local name for the list: its uses are reported as uses of the list (sa/inventory.py)
        else:
            bad = f'unrecognised use of the storage list ({role[0]})'
        if bad:
            o.fail(P, s.ctx, s.stmt, bad, file=s.mod.path, line=s.line)
    sp = P.lookup_prop(c, 'stored_parts', 'get')
    o.count()
    okp = False
    if sp:
        lb = dv.list_builder(sp[1])
        if lb is not None and not lb['ifs'] and is_self_attr(lb['iter'], '_buffer'):
            t = lb['target']
            if isinstance(t, ast.Name) and ast.unparse(lb['elt']) == f'{t.id}[1]':
                okp = True
            if isinstance(t, ast.Tuple) and len(t.elts) == 2 and isinstance(t.elts[1], ast.Name) and ast.unparse(lb['elt']) == t.elts[1].id:
                okp = True          # [part for _, part in self._buffer]
    if not okp:
        o.fail(P, 'Buffer.stored_parts', 'return [x[1] for x in self._buffer]', 'stored_parts does not list the stored parts in list order', file=c.mod.path, line=c.node.lineno)
    else:
        o.witness('stored_parts')
    # the element appended is (arrival time, the accepted part); the element handed over is field 1 of the head
    g = ctx.graph(c, 'give_part', opaque=OPQ)
    apps = [(n, cl) for n in g.nodes.values() for cl in calls_at(g, n) if call_attr(cl) == 'append' and is_self_attr(cl.func.value, '_buffer')]
    o.count()
    if len(apps) != 1:
        o.fail(P, 'Buffer.give_part', 'self._buffer.append((self.env.now, self._part))', f'expected exactly one insertion into the storage list on the accept path, found {len(apps)}', file=c.mod.path, line=c.node.lineno)
    else:
        n, cl = apps[0]
        from ..norm import subst as _subst
        a = _subst(cl.args[0], FrameEnv(n.frame)) if cl.args else None       # the entry may be built in a local first
        if not (isinstance(a, ast.Tuple) and len(a.elts) == 2 and N.norm(a.elts[0], FrameEnv(n.frame)).is_({'NOW': 1}) and is_self_attr(a.elts[1], '_part')):
            o.fail(P, 'Buffer.give_part', None, 'the stored entry must be (current time, the accepted part)', node=n)
        else:
            o.witness('entry')
            o.sample({'append': n.src(), 'file': P.rel(n.file), 'line': n.line, 'arrival_stamp': 'NOW'})

    # ---- C05.4 minimum delay -------------------------------------------------------------------
    o = Ob('C05.4', 'K2+K6', 'the head is offered only on the false edge of `arrival + minimum_delay - nextafter(now) > 0`; '
                             'retries are scheduled at arrival + minimum_delay, the first attempt at now + minimum_delay')
    obs.append(o)
    dv.check_defaults(ctx, o, [('Buffer', '__init__', 'minimum_delay'), ('Buffer', '__init__', 'capacity')])
    g = ctx.graph(c, '_pass_part_downstream', opaque=OPQ)
    hand = [n for n in g.nodes.values() if n.kind == 'cond' and foreign_deleg_call(g, n, n.ast)]
    o.count()
    if not hand:
        o.fail(P, 'Buffer._pass_part_downstream', 'dwn.give_part(self._buffer[0][1])', 'the buffer never offers its head downstream', file=c.mod.path, line=c.node.lineno)
    for h in hand:
        o.count()
        if not (h.ast.args and ctext(h.ast.args[0], FrameEnv(h.frame)) == 'self._buffer[0][1]'):
            o.fail(P, 'Buffer._pass_part_downstream', None, 'the part offered downstream is not the head of the storage list', node=h)

    def is_wait_guard(n, truth):
        r = cmp_norm(N, n.ast, FrameEnv(n.frame), truth, names=True)
        if not r:
            return False
        lin, op = r
        ulp = [k for k in lin.terms if 'nextafter(NOW' in k]
        return op == '<' and len(ulp) == 1 and lin.is_({ulp[0]: 1, 'self._buffer[0][0]': -1, 'self._minimum_delay': -1})
    wg = [(n, t) for n in g.nodes.values() if n.kind == 'cond' for t in (True, False) if is_wait_guard(n, t)]
    o.count()
    ok = False
    for n, truth in wg:
        wait = 'T' if truth else 'F'
        go = 'F' if truth else 'T'
        if not hand:
            break
        if all(h.id not in g.reach_edges([g.entry], cut_edges={(n.id, go)}) for h in hand):
            # on the wait edge the head must not be offered before the test is evaluated again
            r = g.reach_edges([m for l, m in g.succ[n.id] if l == wait], cut_edges={(x.id, go) for x, _ in wg})
            if not any(h.id in r for h in hand):
                ok = True
                o.witness('wait-guard')
                o.sample({'guard': n.src(), 'normal_form': 'arrival + minimum_delay - nextafter(now, inf) > 0 => wait', 'file': P.rel(n.file), 'line': n.line})
    if not ok and hand:
        o.fail(P, 'Buffer._pass_part_downstream', None, 'the hand-over of the head is not protected by the minimum-delay test (arrival + delay vs. now + one ulp)',
               node=hand[0], detail={'conditions': [n.src() for n in g.nodes.values() if n.kind == 'cond']})
    # scheduled attempts
    want = {'retry': 'max(0, self._buffer[0][0] + self._minimum_delay)', 'first': 'max(0, NOW + self._minimum_delay)'}
    seen_forms = {}
    for ent in ('_pass_part_downstream', 'give_part'):
        gg = ctx.graph(c, ent, opaque=OPQ)
        for n in gg.nodes.values():
            for cl in sched_calls(gg, n):
                if sched_event_type(cl) != 'PASS_PART':
                    continue
                b = bind_call(cl, SCHED_PARAMS)
                form = N.norm(b['time'], FrameEnv(n.frame)).key() if 'time' in b else None
                seen_forms.setdefault(ent, set()).add(form)
                o.count()
    if seen_forms.get('_pass_part_downstream') != {want['retry']}:
        o.fail(P, 'Buffer._pass_part_downstream', 'self._schedule_pass_part_downstream(time_offset = remaining_wait)',
               f'a retry for a head that still has to wait must be scheduled at arrival + minimum_delay; found {sorted(map(str, seen_forms.get("_pass_part_downstream", [])))}',
               file=c.mod.path, line=P.method(c, '_pass_part_downstream')[1].lineno)
    else:
        o.witness('retry-time')
    if seen_forms.get('give_part') != {want['first']}:
        o.fail(P, 'Buffer.give_part', 'self._schedule_pass_part_downstream(self._minimum_delay)',
               f'the first attempt for a part stored in an empty buffer must be scheduled at now + minimum_delay; found {sorted(map(str, seen_forms.get("give_part", [])))}',
               file=c.mod.path, line=c.node.lineno)
    else:
        o.witness('first-time')
    # the retry is scheduled only when the head still has to wait; otherwise the flag is armed (C03.3 covers the arming)
    for s in inv.attr_stores(P, '_minimum_delay'):
        o.count()
        if s.cls is c and s.func.name != '__init__':
            o.fail(P, s.ctx, s.stmt, 'the minimum delay is changed after construction', file=s.mod.path, line=s.line)

    # ---- C05.5 = C03.3 ----------------------------------------------------------------------------
    o = Ob('C05.5', 'K5', 'non-empty buffer => retry armed; pop(0) never on an empty list (C03.3)')
    obs.append(o)
    from .c03 import buffer_retry
    buffer_retry(ctx, o)

    # ---- C05.6 part counting -------------------------------------------------------------------------
    o = Ob('C05.6', 'K9', 'parts are counted alike by buffer and sink: a Batch counts len(parts), anything else 1')
    obs.append(o)
    part_counting(ctx, o)

    # ---- C05.7 level records ---------------------------------------------------------------------------
    o = Ob('C05.7', 'K4', "every write of the level is followed, before the entry point returns, by a 'level' record carrying (now, level())")
    obs.append(o)
    dirty_pairing(ctx, o, c, '_level', False, 'level', payload_check=lambda cl, n: level_payload(P, N, cl, n))

    # ---- C05.8 reported quantities ----------------------------------------------------------------------
    o = Ob('C05.8', 'K6', 'level() returns the level, capacity the capacity, minimum_delay the delay')
    obs.append(o)
    for what, expr, want in (('level()', 'self.level()', 'self._level'), ('capacity', 'self.capacity', 'self._capacity'),
                             ('minimum_delay', 'self.minimum_delay', 'self._minimum_delay')):
        o.count()
        got = N.norm(ast.parse(expr, mode='eval').body).key()
        if got != want:
            o.fail(P, f'Buffer.{what}', f'return {want}', f'{what} reports `{got}` instead of the stored quantity', file=c.mod.path, line=c.node.lineno)
        else:
            o.witness(what)
    obs.append(dv.falsy_default_obligation(ctx, 'C05.8', ['Buffer'], 'the capacity and the minimum delay of a buffer are the numbers it was given'))
    return obs


def level_payload(P, N, cl, n):
    d = dv.datapoint(cl, n.frame)
    return d is not None and d['elts'] is not None and len(d['elts']) == 2 and N.norm(d['elts'][0], {}).is_({'NOW': 1}) \
        and N.norm(d['elts'][1], {}).is_({'self._level': 1}) and d['sub'] == 'self.name'


def dirty_pairing(ctx, o, c, field, sub, label, payload_check=None, entries=None, env_field=None, is_write=None, what=None, opaque=OPQ,
                  fixed_fields=None):
    """K4 dirty bit: a write of self.<field> (or self.<field>[k] when sub; or any node accepted by is_write(node)) sets the bit,
    add_datapoint(label, ...) clears it; the bit must be clean at every exit of every entry point and at the next write.
    returns the number of entry points in which a write was reachable."""
    P = ctx.P
    what = what or f'a change of {field}'

    def writes(n):
        a = n.ast
        if is_write is not None:
            return is_write(n)
        if n.kind != 'stmt' or not isinstance(a, (ast.Assign, ast.AugAssign)) or n.frame.func.name == '__init__':
            return False
        tg = a.targets if isinstance(a, ast.Assign) else [a.target]
        for t in tg:
            if sub:
                if isinstance(t, ast.Subscript) and is_self_attr(t.value, field):
                    return True
            elif is_self_attr(t, field):
                return True
        return False

    def hook(an, n, before, after):
        st = after
        if n.kind == 'stmt' and n.ast is not None:
            if writes(n):
                if st.fields['#dirty'] == 'T':
                    st = st.with_flag('DOUBLE-WRITE')
                st = st.with_field('#dirty', 'T')
            for cl in calls_at(an.g, n):
                dp_ = dv.datapoint(cl, n.frame) if call_attr(cl) == 'add_datapoint' else None
                if dp_ is not None and (dp_['label'] == label or (callable(label) and label(cl, n))):
                    if payload_check is not None and not payload_check(cl, n):
                        st = st.with_flag('BAD-PAYLOAD')
                    if st.fields['#dirty'] != 'T':
                        st = st.with_flag('RECORD-WITHOUT-CHANGE')
                    st = st.with_field('#dirty', 'F')
        return st
    ents = entries if entries is not None else dv.entry_points(P, c)
    nw = 0
    for e in sorted(ents):
        g = ctx.graph(c, e, opaque=opaque)
        tracked = ['#dirty'] + ([env_field] if env_field else []) + list(fixed_fields or {})
        an = Analysis(P, g, tracked, call_models={'generate_part': 'S', 'reserve_resources': TOP})
        an.node_hooks.append(hook)
        f0 = {'#dirty': 'F'}
        if env_field:
            f0[env_field] = 'S'
        f0.update(fixed_fields or {})
        res = ctx.explore(an, [State(f0)])
        wrote = any(writes(n) and res.visited(n.id) for n in g.nodes.values())
        for st in res.exits():
            o.count()
            if st.fields['#dirty'] == 'T' or 'DOUBLE-WRITE' in st.flags or 'BAD-PAYLOAD' in st.flags:
                ln = dv.last_node(res, g.exit, st, writes)
                msg = ('the record does not carry the current time / the value / the source name' if 'BAD-PAYLOAD' in st.flags else
                       f"{what} is not followed by its '{label if isinstance(label, str) else 'datapoint'}' record")
                o.fail(P, f'{c.name}.{e}', ln.ast if ln else (f'self.{field}' if field else what), msg, node=ln, file=c.mod.path, path=res.path_lines(g.exit, st))
        if wrote:
            nw += 1
            o.witness((c.name, e, field or what))
    return nw


def level_pairing(ctx, c, o):
    P = ctx.P

    def expr_hook(an, e, st, frame):
        # self._buffer[0][1] -> 'e:<head id>' ;  self._buffer[0][0] -> arrival of the head
        if isinstance(e, ast.Subscript) and ast.unparse(e) == 'self._buffer[0][1]':
            return 'e' + st.fields['#hid']
        if isinstance(e, ast.Subscript) and isinstance(e.value, ast.Name) and isinstance(e.slice, ast.Constant) and e.slice.value == 1:
            # `oldest = self._buffer[0]` ... `oldest[1]`: the entry was named first (single definition in this frame)
            r_ = FrameEnv(frame).resolve(e.value.id)
            if r_ is not None and ast.unparse(r_[0]) == 'self._buffer[0]':
                return 'e' + st.fields['#hid']
        if isinstance(e, ast.Call) and call_attr(e) in COUNT_NAMES and e.args:
            v = an.ev(e.args[0], st, frame)
            # a count taken after the head was handed over is a different number: the receiver may have unpacked the batch in place
            return ('c-after-hand-over:' if str(st.fields.get('#it', 'idle')).startswith('H:') else 'c:') + v
        return NotImplemented

    def level_delta(an, n, before):
        """(sign, abstract amount) of a level update at node n, or None"""
        a = n.ast

        def amount_of(expr, frame):
            """(sign, abstract amount) of an amount expression: a leading minus flips the sign, a parameter of an inlined helper
            (`_adjust_level(-part_count)`) is followed to the argument in the caller's frame"""
            if isinstance(expr, ast.UnaryOp) and isinstance(expr.op, ast.USub):
                s_, v_ = amount_of(expr.operand, frame)
                return ('-' if s_ == '+' else '+'), v_
            if isinstance(expr, ast.Name) and expr.id in frame.argmap and frame.argmap[expr.id][1] is not None \
                    and not any(isinstance(x, ast.Name) and isinstance(x.ctx, ast.Store) and x.id == expr.id for x in ast.walk(frame.func)):
                e2, fr2 = frame.argmap[expr.id]
                return amount_of(e2, fr2)
            return '+', an.ev(expr, before, frame)
        if isinstance(a, ast.AugAssign) and is_self_attr(a.target, '_level'):
            sign = '+' if isinstance(a.op, ast.Add) else '-' if isinstance(a.op, ast.Sub) else '?'
            s2, v2 = amount_of(a.value, n.frame)
            if sign in '+-' and s2 == '-':
                sign = '-' if sign == '+' else '+'
            return sign, v2
        if isinstance(a, ast.Assign) and any(is_self_attr(t, '_level') for t in a.targets) and n.frame.func.name != '__init__':
            v = a.value
            if isinstance(v, ast.BinOp) and isinstance(v.op, (ast.Add, ast.Sub)):
                lv = an.canon_loc(v.left, n.frame)
                rv = an.canon_loc(v.right, n.frame)
                if is_self_attr(lv, '_level') or (isinstance(lv, ast.Call) and ast.unparse(lv) == 'self.level()'):
                    return ('+' if isinstance(v.op, ast.Add) else '-'), an.ev(v.right, before, n.frame)
                if isinstance(v.op, ast.Add) and (is_self_attr(rv, '_level') or ast.unparse(rv) == 'self.level()'):
                    return '+', an.ev(v.left, before, n.frame)
            return '?', ast.unparse(v)
        return None

    def node_hook(an, n, before, after):
        """accept path: flags stored / lvl<sign>:<amount>.
        release path: per-iteration automaton in #it: idle -H-> handed; handed needs one pop(0) and one decrement by
        the count of the handed head (in either order) to return to idle."""
        st = after
        if n.kind != 'stmt':
            return st
        it = st.fields.get('#it', 'idle')
        for cl in calls_at(an.g, n):
            if is_self_attr(getattr(cl.func, 'value', None), '_buffer'):
                if call_attr(cl) == 'append':
                    st = st.with_flag('stored2' if 'stored' in st.flags else 'stored')
        for _ in dv.list_removals(n, '_buffer'):      # pop(0) / del [0] / popleft (the position is checked by C05.3)
            hid = st.fields['#hid']
            if not it.startswith('H:e' + hid) or 'P' in it.split(':')[-1]:
                st = st.with_flag('BAD:the head is removed without having been accepted downstream')
            else:
                it = it + 'P'
            st = st.with_field('#hid', '1' if hid == '0' else '0')
        d = level_delta(an, n, before)
        if d is not None:
            sign, amount = d
            st = st.with_flag(f'lvl{sign}:{amount}' if f'lvl{sign}:{amount}' not in st.flags else f'lvl{sign}{sign}:{amount}')
            if '#it' in st.fields:
                if not it.startswith('H:'):
                    st = st.with_flag('BAD:the level changes for a part that did not leave')
                else:
                    tok = it.split(':')[1]
                    if sign != '-' or amount != 'c:' + tok or 'D' in it.split(':')[-1]:
                        st = st.with_flag('BAD:the level is not decreased exactly once by the count of the part that left (the count must be taken from the head before it is handed over and removed)')
                    else:
                        it = it + 'D'
        if '#it' in st.fields:
            if it.startswith('H:') and set(it.split(':')[-1]) >= {'P', 'D'}:
                it = 'idle'
                st = st.with_flag('released')
            if it != st.fields['#it']:
                st = st.with_field('#it', it)
        return st

    def edge_hook(an, n, label, st):
        if n.kind == 'cond' and label == 'T' and foreign_deleg_call(an.g, n, n.ast) and n.ast.args:
            tok = an.ev(n.ast.args[0], st, n.frame)
            if st.fields.get('#it', 'idle') != 'idle':
                st = st.with_flag('BAD:a head accepted downstream stays in the buffer or its level update is missing')
            return st.with_field('#it', f'H:{tok}:')
        return st
    from .c03 import buffer_hooks
    bnh, brh = buffer_hooks()
    tracked = ['_part', '_output', '_block_input', '_is_shut_down', '#hid', '#buf']
    # accept path
    g = ctx.graph(c, 'give_part', opaque=OPQ)
    an = Analysis(P, g, tracked)
    an.expr_hooks.append(expr_hook)
    an.node_hooks.extend([node_hook, bnh])
    an.refine_hooks.append(brh)
    for b in ('0', '1', 'M'):
        s0 = State({'_part': 'N', '_output': 'N', '_block_input': 'F', '_is_shut_down': 'F', '#hid': '0', '#buf': b})
        s0.locals[(g.top.id, 'part')] = 'arg'
        res = ctx.explore(an, [s0])
        for st in res.exits():
            o.count()
            lv = sorted(f for f in st.flags if f.startswith('lvl'))
            stored = 'stored' in st.flags
            want = ['lvl+:c:arg'] if stored else []
            if stored:
                o.witness('accept')
            if lv != want or 'stored2' in st.flags:
                ln = dv.last_node(res, g.exit, st, lambda n: n.kind == 'stmt' and isinstance(n.ast, (ast.AugAssign, ast.Assign)) and '_level' in n.src())
                o.fail(P, 'Buffer.give_part', ln.ast if ln else 'self._level += Buffer._get_part_count(self._part)',
                       f'on the path where the part is {"stored" if stored else "refused"} the level changes are {lv or "none"}; expected {want or "none"}',
                       node=ln, file=c.mod.path, path=res.path_lines(g.exit, st))
    # release path
    g = ctx.graph(c, '_pass_part_downstream', opaque=OPQ)
    an = Analysis(P, g, tracked + ['#it'])
    an.expr_hooks.append(expr_hook)
    an.node_hooks.extend([node_hook, bnh])
    an.edge_hooks.append(edge_hook)
    an.refine_hooks.append(brh)

    def drop_lvl_flags(an_, n, before, after):
        fl = frozenset(f for f in after.flags if not f.startswith('lvl'))
        if fl != after.flags:
            s_ = after.copy()
            s_.flags = fl
            return s_
        return after
    an.node_hooks.append(drop_lvl_flags)
    for b in ('0', '1', 'M'):
        s0 = State({'_part': 'N', '_output': 'N', '_block_input': 'F', '_is_shut_down': 'F', '#hid': '0', '#buf': b, '#it': 'idle'})
        res = ctx.explore(an, [s0], limit=200000)
        for st in res.exits():
            o.count()
            bad = sorted(f[4:] for f in st.flags if f.startswith('BAD:'))
            if st.fields['#it'] != 'idle':
                bad.append('a head accepted downstream stays in the buffer or its level update is missing')
            if 'released' in st.flags:
                o.witness('release')
            if bad:
                ln = dv.last_node(res, g.exit, st, lambda n: n.kind == 'stmt' and ('_level' in n.src() or '.pop(' in n.src()))
                o.fail(P, 'Buffer._pass_part_downstream', ln.ast if ln else '_level', bad[0], node=ln, file=c.mod.path, path=res.path_lines(g.exit, st))
    o.sample({'accept_path': 'stored <=> level += count(arg) once', 'release_path': 'handed(head) <=> pop(0) <=> level -= count(that head)'})


def _ifexp_branches(e, is_subject=lambda x: ast.unparse(x) == 'self._part'):
    """[(expr, 'batch'|'single'|None)] -- a conditional expression on isinstance(<the accepted part>, Batch) is split into its two cases"""
    if isinstance(e, ast.IfExp):
        t, neg = e.test, False
        while isinstance(t, ast.UnaryOp) and isinstance(t.op, ast.Not):
            t, neg = t.operand, not neg
        if isinstance(t, ast.Call) and ast.unparse(t.func) == 'isinstance' and len(t.args) == 2 and ast.unparse(t.args[1]) == 'Batch' and is_subject(t.args[0]):
            a, b = (e.orelse, e.body) if neg else (e.body, e.orelse)
            return [(a, 'batch'), (b, 'single')]
    return [(e, None)]


def part_counting(ctx, o):
    P = ctx.P

    def count_shape(fn, subject):
        """-> True iff fn/the statements compute: len(<subject>.parts) for a Batch, 1 otherwise"""
        found = []
        for n in ast.walk(fn):
            if isinstance(n, ast.If) and isinstance(n.test, ast.Call) and ast.unparse(n.test.func) == 'isinstance' \
                    and len(n.test.args) == 2 and ast.unparse(n.test.args[0]) == subject and ast.unparse(n.test.args[1]) == 'Batch':
                found.append(n)
        return found
    if P.has_cls('Buffer'):
        c = P.cls('Buffer')
        cf = dv.count_functions(ctx)
        hit = P.lookup(c, '_get_part_count')
        o.count()
        ok = bool(cf) and not (hit and hit[1] == 'method' and '_get_part_count' not in cf)
        o.stats['count_functions'] = {k: [c_.name if c_ is not None else '<module>' for c_, _ in v] for k, v in cf.items()}
        if ok:
            pass
        elif hit and hit[1] == 'method':
            fn = hit[2]
            params = [a_.arg for a_ in fn.args.args if a_.arg != 'self']
            p = params[0] if params else 'part'

            def m_batch(test, frame, p=p):
                if isinstance(test, ast.Call) and ast.unparse(test.func) == 'isinstance' and len(test.args) == 2 and ast.unparse(test.args[0]) == p and ast.unparse(test.args[1]) == 'Batch':
                    return True
                return None
            cases = dv.return_cases(ctx, c, '_get_part_count', [('#batch', m_batch)])
            ok = cases.get(('T',)) == {f'len({p}.parts)'} and cases.get(('F',)) == {'1'}
            o.stats['buffer_count_cases'] = {k[0]: sorted(v) for k, v in cases.items()}
        if not ok:
            o.fail(P, 'Buffer._get_part_count', 'len(part.parts) if isinstance(part, Batch) else 1', 'the buffer does not count a Batch as len(parts) and a single part as 1',
                   file=c.mod.path, line=c.node.lineno)
        else:
            o.witness('buffer-count')
    if P.has_cls('Sink'):
        c = P.cls('Sink')
        g = ctx.graph(c, 'give_part')

        def hook(an, n, before, after):
            a = n.ast
            inc = None
            if n.kind == 'stmt' and isinstance(a, ast.AugAssign) and is_self_attr(a.target, '_received_parts_count') and isinstance(a.op, ast.Add):
                inc = a.value
            elif n.kind == 'stmt' and isinstance(a, ast.Assign) and any(is_self_attr(t, '_received_parts_count') for t in a.targets) and isinstance(a.value, ast.BinOp) \
                    and isinstance(a.value.op, ast.Add) and is_self_attr(a.value.left, '_received_parts_count'):
                inc = a.value.right
            if inc is not None:
                if isinstance(inc, ast.Name):
                    r_ = FrameEnv(n.frame).resolve(inc.id)
                    if r_ is not None:
                        inc = r_[0]
                outs = []
                cfn = dv.count_functions(ctx)
                if isinstance(inc, ast.Call) and call_attr(inc) in cfn and len(inc.args) == 1 and not inc.keywords and \
                        (ast.unparse(inc.args[0]) == 'self._part' or an.ev(inc.args[0], before, n.frame) == 'arg'):
                    # the count is taken by one of the package's count functions (len(parts) for a Batch, 1 otherwise -- established by return_cases)
                    for kind, fl in (('len', 'batch'), ('one', 'single')):
                        if ('batch' in after.flags and fl == 'single') or ('single' in after.flags and fl == 'batch'):
                            continue
                        s_ = after.with_flag('cnt2' if any(f.startswith('cnt:') for f in after.flags) else 'cnt:' + kind).with_flag(fl)
                        outs.append(s_)
                    return outs
                for br, fl in _ifexp_branches(inc, lambda x: ast.unparse(x) == 'self._part' or an.ev(x, before, n.frame) == 'arg'):
                    v = ast.unparse(br)
                    kind = 'len' if v == 'len(self._part.parts)' else 'one' if v == '1' else 'other'
                    if kind == 'other' and isinstance(br, ast.Call) and ast.unparse(br.func) == 'len' and len(br.args) == 1 and isinstance(br.args[0], ast.Attribute) \
                            and br.args[0].attr == 'parts' and an.ev(br.args[0].value, before, n.frame) == 'arg':
                        kind = 'len'          # through a local alias of the accepted part
                    s_ = after.with_flag('cnt2' if any(f.startswith('cnt:') for f in after.flags) else 'cnt:' + kind)
                    if fl:
                        if ('batch' in s_.flags and fl == 'single') or ('single' in s_.flags and fl == 'batch'):
                            continue
                        s_ = s_.with_flag(fl)
                    outs.append(s_)
                return outs
            if n.kind == 'stmt' and isinstance(a, ast.Assign) and any(is_self_attr(t, '_received_parts_count') for t in a.targets):
                return after.with_flag('cnt:other')
            if n.kind == 'stmt' and isinstance(a, ast.Assign) and any(is_self_attr(t, '_part') for t in a.targets) \
                    and an.ev(a.value, before, n.frame) == 'arg':
                return after.with_flag('accepted')
            return after

        def edge(an, n, label, st):
            t = n.ast
            if n.kind == 'cond' and isinstance(t, ast.Call) and ast.unparse(t.func) == 'isinstance' and len(t.args) == 2 and ast.unparse(t.args[1]) == 'Batch' and \
                    (ast.unparse(t.args[0]) == 'self._part' or an.ev(t.args[0], st, n.frame) == 'arg'):
                return st.with_flag('batch' if label == 'T' else 'single')
            return st
        an = Analysis(P, g, ['_part', '_output', '_block_input', '_is_shut_down'])
        an.node_hooks.append(hook)
        an.edge_hooks.append(edge)
        s0 = State({'_part': 'N', '_output': 'N', '_block_input': 'F', '_is_shut_down': 'F'})
        s0.locals[(g.top.id, 'part')] = 'arg'
        res = ctx.explore(an, [s0])
        for st in res.exits():
            o.count()
            acc = 'accepted' in st.flags
            cnt = sorted(f for f in st.flags if f.startswith('cnt'))
            want = ['cnt:len'] if 'batch' in st.flags else ['cnt:one'] if 'single' in st.flags else None
            if acc:
                o.witness(('sink', tuple(cnt)))
            if (acc and cnt != want) or (not acc and cnt):
                ln = dv.last_node(res, g.exit, st, lambda n: n.kind == 'stmt' and '_received_parts_count' in n.src())
                o.fail(P, 'Sink.give_part', ln.ast if ln else 'self._received_parts_count += ...',
                       f'the sink counts {cnt or "nothing"} for an accepted {"batch" if "batch" in st.flags else "part"}; a Batch must count len(parts), a single part 1, exactly once',
                       node=ln, file=c.mod.path, path=res.path_lines(g.exit, st))
        for s in inv.attr_stores(P, '_received_parts_count'):
            o.count()
            # another class with a field of the same name of its own (`self._received_parts_count` of a Buffer that is neither a Sink nor a base
            # of Sink) is not the sink's counter
            own_field_elsewhere = s.cls is not None and s.cls is not c and c not in s.cls.mro and s.cls not in c.mro and \
                isinstance(s.node, ast.Attribute) and isinstance(s.node.value, ast.Name) and s.node.value.id == 'self'
            if s.cls is not c and not own_field_elsewhere:
                o.fail(P, s.ctx, s.stmt, 'the sink counter is written outside class Sink', file=s.mod.path, line=s.line)
        o.count()
        pr = P.lookup_prop(c, 'received_parts_count', 'get')
        if not pr or ast.unparse(pr[1].body[-1]) != 'return self._received_parts_count':
            o.fail(P, 'Sink.received_parts_count', 'return self._received_parts_count', 'received_parts_count does not report the counter', file=c.mod.path, line=c.node.lineno)


CLAIM = {
    'technique': 'static analysis: linear normal forms of the capacity and delay guards in inlined context, edge dominance on the supergraph, '
                 'typestate pairing of level arithmetic with store/hand-over/pop, container-discipline inventory',
    'level_text': 'Capacity guard, symmetric level arithmetic, head-only departure and the delay guard are decided on every path of the '
                  'concrete class Buffer; the numeric identity level == stored parts over a run is not executed.',
    'level_note': 'Assumes stored batches are not mutated by user code; float rounding beyond the one-ulp tolerance is not modelled.',
}
