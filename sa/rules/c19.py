"""C19 -- sensors sample when they should and keep bounded, aligned data."""
import ast
import itertools

from .. import AnalysisError
from ..report import Ob
from ..cfg import calls_at, call_attr, is_self_attr, walk_now
from ..state import Analysis, State, TOP, bind_call, SCHED_PARAMS, sched_action_name, sched_event_type
from ..norm import Normalizer, cmp_norm, FrameEnv, subst, ctext
from .. import inventory as inv
from .c18 import doc_default

EXPLANATION = '''
Static analysis of simprocesd/model/sensors/sensor.py, part_sensor.py and simprocesd/model/cms/cms.py (modules without any
test in the suite).  Decided: (C19.1) PeriodicSensor.initialize and every path of _periodic_sense schedule exactly one next
measurement at now + interval under the sensor's id running _periodic_sense; a periodic step appends now to the time
series and measures; the interval is fixed at construction; (C19.2) OutputPartSensor._probe_part decrements its skip
counter, and exactly when it went below zero retargets every probe to the finished part, measures synchronously (inside
the processor's finish callback) and resets the counter to the sensing interval; initialize registers the hook exactly
once and zeroes the counter; (C19.3) series discipline over the abstract domain "entries appended / dropped in this
measurement" x "capacity exceeded": every series the sensor class keeps (one per probe, plus every constant key such
as 'time') gets exactly one entry per measurement and loses exactly one oldest entry iff the capacity is exceeded --
so all series stay aligned and bounded; each probe is probed once and the same value goes to its series and to the
fresh last-sense list; initialize creates every series empty; (C19.4) sense collects first and then calls every
on-sense callback once, in registration order, with (sensor, now, last values); (C19.5) Probe.probe returns a copy of
what get_data(target) returned; Cms.add_sensor registers its on_sense hook once per sensor; (C19.6) the documented
defaults of sensing_interval and the unbounded default of data_capacity equal the signature defaults and every sensor
constructor hands probes / capacity / value to the matching base-class parameter.
NOT decided: the k-th sampling instant of a run (float sums), values of probed attributes.
'''
ASSUMPTIONS = ['all series have the same length before a measurement and at most data_capacity entries (the invariant the step preserves)',
               'user callbacks do not modify sensor.data']
MIN_INSTANCES = 45


# ----------------------------------------------------------------------------------------------------
# series model
# ----------------------------------------------------------------------------------------------------

def const_keys(P, c):
    """constant string keys K with self.data[K] used somewhere in the class hierarchy of c"""
    keys = set()
    for k in c.mro:
        for n in ast.walk(k.node):
            if isinstance(n, ast.Subscript) and is_self_attr(n.value, 'data') and isinstance(n.slice, ast.Constant) and isinstance(n.slice.value, str):
                keys.add(n.slice.value)
    return sorted(keys)


class Series:
    """interprets operations on the sensor's series (self.data[...]) along a path.
    ghost fields: '#over' T/F -- after this measurement's append the series length exceeds the capacity;
    'app:<cls>' / 'pop:<cls>' in '0','1','2' -- entries appended / oldest entries dropped so far."""

    def __init__(self, P, c, N):
        self.P, self.c, self.N = P, c, N
        self.classes = ['probe'] + const_keys(P, c)
        self.pruned = set()

    def fields(self):
        out = ['#over']
        for k in self.classes:
            out += [f'app:{k}', f'pop:{k}']
        return out

    def entry(self, over):
        d = {'#over': over}
        for k in self.classes:
            d[f'app:{k}'] = '0'
            d[f'pop:{k}'] = '0'
        return d

    # -- classification -------------------------------------------------------------------------
    def key_class(self, k, env):
        if isinstance(k, ast.Constant) and isinstance(k.value, str):
            return k.value
        if isinstance(k, ast.Name):
            return env.get(k.id, (None,))[0] if env.get(k.id, (None,))[0] in ('probe', 'ALLKEY') else None
        if isinstance(k, ast.Subscript) and ast.unparse(k.value) in ('self._probes', 'self.probes'):
            return 'probe1'
        return None

    def series_class(self, e, env, frame=None):
        """'probe' (each probe series, inside a loop over the probes), 'probe1' (one probe's series), a constant key,
        'ALL' (each series, inside a loop over self.data) or None"""
        if frame is not None:
            e = subst(e, FrameEnv(frame), keep=tuple(env))       # local aliases such as `times = self.data['time']`
        if isinstance(e, ast.Subscript) and is_self_attr(e.value, 'data'):
            k = self.key_class(e.slice, env)
            return 'ALL' if k == 'ALLKEY' else k
        if isinstance(e, ast.Name) and e.id in env:
            kind, val = env[e.id]
            if kind == 'ALLSERIES':
                return 'ALL'
            if kind == 'alias':
                return self.series_class(val, env)
        return None

    def expand(self, cls):
        if cls == 'ALL':
            return list(self.classes)
        if cls == 'probe1':
            return ['probe']
        return [cls]

    # -- effects --------------------------------------------------------------------------------------
    @staticmethod
    def bump(st, f):
        cur = st.fields.get(f, '0')
        return st.with_field(f, {'0': '1', '1': '2'}.get(cur, '2'))

    def guard_value(self, st, cls):
        """truth of `len(series) > capacity` for a series of class cls in state st: 'T'/'F'"""
        vals = set()
        for k in self.expand(cls):
            if k not in self.classes:
                return None
            a, p = st.fields.get(f'app:{k}', '0'), st.fields.get(f'pop:{k}', '0')
            if a == '1' and p == '0':
                vals.add(st.fields.get('#over'))
            elif a == '2' and p == '0':
                vals.add('T' if st.fields.get('#over') == 'T' else '?')
            else:
                vals.add('F')       # not yet appended, or already trimmed: back within the capacity
        return vals.pop() if len(vals) == 1 else '?'

    def cap_guard(self, test, env, frame):
        """(series class, relation) if test compares len(<series>) with the capacity: relation in '>' '>=' '<' '<=' ..."""
        if is_self_attr(test) and isinstance(test, ast.Attribute):
            # a read-only property of the sensor whose getter is one comparison (`self.is_full`): the comparison
            from ..norm import simple_return
            for k in self.c.mro:
                if test.attr in k.props and 'get' in k.props[test.attr]:
                    ret = simple_return(k.props[test.attr]['get'])
                    if ret is not None:
                        test = ret
                    break
        if not (isinstance(test, ast.Compare) and len(test.ops) == 1):
            return None
        l, r = test.left, test.comparators[0]
        op = type(test.ops[0])
        flip = {ast.Gt: ast.Lt, ast.GtE: ast.LtE, ast.Lt: ast.Gt, ast.LtE: ast.GtE, ast.Eq: ast.Eq, ast.NotEq: ast.NotEq}

        def is_len(x):
            return isinstance(x, ast.Call) and isinstance(x.func, ast.Name) and x.func.id == 'len' and len(x.args) == 1 and self.series_class(x.args[0], env, frame)

        def is_cap(x):
            return ctext(x, FrameEnv(frame), keep=tuple(env)) in ('self._data_capacity', 'self.data_capacity')
        if is_len(r) and is_cap(l):
            l, r = r, l
            op = flip.get(op)
        if op is None or not (is_len(l) and is_cap(r)):
            if any(is_self_attr(x, 'data') for x in ast.walk(test)) and any(is_self_attr(x, '_data_capacity') for x in ast.walk(test)):
                return ('?', 'unrecognised')
            return None
        rel = {ast.Gt: '>', ast.GtE: '>=', ast.Lt: '<', ast.LtE: '<=', ast.Eq: '==', ast.NotEq: '!='}[op]
        return self.series_class(l.args[0], env, frame), rel

    def apply_call(self, st, cl, env, mult=False, frame=None):
        """effect of one call expression on the series counters; returns the new state (flags record anomalies)"""
        nm = call_attr(cl)
        if not isinstance(cl.func, ast.Attribute):
            return st
        cls = self.series_class(cl.func.value, env, frame)
        if cls is None:
            return st
        if nm == 'append' and len(cl.args) == 1:
            for k in self.expand(cls):
                st = self.bump(st, f'app:{k}')
                if mult and cls not in ('probe', 'ALL'):
                    st = self.bump(st, f'app:{k}')
            if cls == 'probe1':
                st = st.with_flag('single-probe-series-op')
            return st
        if nm in ('pop', 'popleft'):
            oldest = (nm == 'popleft' and not cl.args) or (len(cl.args) == 1 and isinstance(cl.args[0], ast.Constant) and cl.args[0].value == 0)
            if not oldest:
                st = st.with_flag('drops-not-oldest')
            for k in self.expand(cls):
                st = self.bump(st, f'pop:{k}')
                if mult and cls not in ('probe', 'ALL'):
                    st = self.bump(st, f'pop:{k}')
            if cls == 'probe1':
                st = st.with_flag('single-probe-series-op')
            return st
        if nm in ('insert', 'extend', 'remove', 'clear', 'sort', 'reverse'):
            return st.with_flag(f'series-{nm}')
        return st

    # -- loop summaries ------------------------------------------------------------------------------------
    def loop_kind(self, loop):
        """(env for the loop variable(s)) or None if the loop is not over the probes / the series"""
        it = ast.unparse(loop.iter)
        tg = loop.target
        if it in ('self._probes', 'self.probes') and isinstance(tg, ast.Name):
            return {tg.id: ('probe', None)}
        if it in ('self.data', 'self.data.keys()', 'list(self.data)', 'list(self.data.keys())') and isinstance(tg, ast.Name):
            return {tg.id: ('ALLKEY', None)}
        if it in ('self.data.values()', 'list(self.data.values())') and isinstance(tg, ast.Name):
            return {tg.id: ('ALLSERIES', None)}
        if it in ('self.data.items()', 'list(self.data.items())') and isinstance(tg, ast.Tuple) and len(tg.elts) == 2 and all(isinstance(e, ast.Name) for e in tg.elts):
            return {tg.elts[0].id: ('ALLKEY', None), tg.elts[1].id: ('ALLSERIES', None)}
        return None

    def summarise(self, st, loop, env0, frame):
        """apply the body of a loop over the probes / the series once per member; body: simple statements and one level
        of `if <capacity guard>:`.  Returns the new state."""
        env = dict(env0)
        env.update(self.loop_kind(loop))
        probe_var = next((k for k, v in env.items() if v[0] == 'probe'), None)
        probed = {}

        def run(stmts, st):
            for s in stmts:
                if isinstance(s, ast.Assign) and len(s.targets) == 1 and isinstance(s.targets[0], ast.Name):
                    v = s.value
                    if isinstance(v, ast.Call) and call_attr(v) == 'probe' and probe_var and ast.unparse(v.func.value) == probe_var:
                        probed[s.targets[0].id] = True
                        st = st.with_flag('probed-twice' if 'probed' in st.flags else 'probed')
                    elif self.series_class(v, env):
                        env[s.targets[0].id] = ('alias', v)
                    continue
                if isinstance(s, ast.Assign) and len(s.targets) == 1 and isinstance(s.targets[0], ast.Attribute) and s.targets[0].attr == 'target' \
                        and probe_var and ast.unparse(s.targets[0].value) == probe_var:
                    st = st.with_flag('retarget:' + ast.unparse(s.value))
                    continue
                if isinstance(s, ast.Expr) and isinstance(s.value, ast.Call):
                    cl = s.value
                    nm = call_attr(cl)
                    if nm == 'append' and len(cl.args) == 1:
                        a = cl.args[0]
                        direct = isinstance(a, ast.Call) and call_attr(a) == 'probe' and probe_var and ast.unparse(a.func.value) == probe_var
                        if direct:
                            st = st.with_flag('probed-twice' if 'probed' in st.flags else 'probed')
                        from_probe = direct or (isinstance(a, ast.Name) and probed.get(a.id))
                        if self.series_class(cl.func.value, env) == 'probe':
                            st = st.with_flag('series<-probe' if from_probe else 'series<-other')
                        elif is_self_attr(cl.func.value, '_last_sense'):
                            st = st.with_flag('last<-probe' if from_probe else 'last<-other')
                    st = self.apply_call(st, cl, env)
                    continue
                if isinstance(s, ast.If) and not s.orelse:
                    g = self.cap_guard(s.test, env, frame)
                    if g is None:
                        raise AnalysisError(f'sensor series loop at line {loop.lineno}: cannot interpret the test `{ast.unparse(s.test)}`')
                    cls, rel = g
                    if rel != '>':
                        st = st.with_flag(f'capacity-test:{rel}')
                    if cls == 'ALL':
                        # per member: each class decides on its own counters
                        for k in self.classes:
                            if self.guard_value(st, k) == 'T':
                                sub = dict(env)
                                for nm_, v_ in list(sub.items()):
                                    if v_[0] in ('ALLKEY', 'ALLSERIES'):
                                        sub[nm_] = ('alias', ast.parse(f'self.data[{k!r}]', mode='eval').body) if k != 'probe' else ('probe-member', None)
                                st = self._run_member(s.body, st, k)
                    else:
                        if self.guard_value(st, cls) == 'T':
                            st = run(s.body, st)
                    continue
                if isinstance(s, (ast.Pass,)) or (isinstance(s, ast.Expr) and isinstance(s.value, ast.Constant)):
                    continue
                raise AnalysisError(f'sensor series loop at line {loop.lineno}: unsupported statement `{ast.unparse(s).splitlines()[0]}`')
            return st
        self._run = run
        return run(loop.body, st)

    def _run_member(self, stmts, st, k):
        """body of a per-series guarded statement inside a loop over all series, for the member class k"""
        for s in stmts:
            if isinstance(s, ast.Expr) and isinstance(s.value, ast.Call) and call_attr(s.value) in ('pop', 'popleft', 'append'):
                cl = s.value
                nm = call_attr(cl)
                if nm == 'append':
                    st = self.bump(st, f'app:{k}')
                else:
                    oldest = (nm == 'popleft' and not cl.args) or (len(cl.args) == 1 and isinstance(cl.args[0], ast.Constant) and cl.args[0].value == 0)
                    if not oldest:
                        st = st.with_flag('drops-not-oldest')
                    st = self.bump(st, f'pop:{k}')
            else:
                raise AnalysisError(f'unsupported statement in a per-series block: `{ast.unparse(s).splitlines()[0]}`')
        return st

    # -- hooks ------------------------------------------------------------------------------------------------
    def install(self, an, g):
        S = self

        def node_hook(an_, n, before, after):
            st = after
            a = n.ast
            if n.kind == 'for':
                if S.loop_kind(a) is not None:
                    if (n.id, 'done') in S.pruned or True:
                        pass
                    if f'loop{n.id}' in st.flags:
                        return st
                    st = S.summarise(st.with_flag(f'loop{n.id}'), a, {}, n.frame)
                    S.pruned.add(n.id)
                    return st
                return st
            if n.kind == 'stmt':
                if isinstance(a, ast.Assign) and any(is_self_attr(t, '_last_sense') for t in a.targets):
                    fresh = isinstance(a.value, ast.List) and not a.value.elts
                    st = st.with_flag('last-reset' if fresh else 'last-rebound')
                if isinstance(a, ast.Assign) and any(isinstance(t, ast.Subscript) and is_self_attr(t.value, 'data') for t in a.targets):
                    st = st.with_flag('series-rebound')
                if isinstance(a, ast.Delete) and any(any(is_self_attr(x, 'data') for x in ast.walk(t)) for t in a.targets):
                    st = st.with_flag('series-del')
                for cl in calls_at(g, n):
                    st = S.apply_call(st, cl, {}, frame=n.frame)
            return st

        def edge_hook(an_, n, label, st):
            if n.kind == 'for' and n.id in S.pruned and label == 'T':
                return None
            return st

        def refine(an_, test, truth, st, frame):
            gd = S.cap_guard(test, {}, frame)
            if gd is None:
                return NotImplemented
            cls, rel = gd
            if rel == '<=':                       # the complement of `>`: same test, other branch
                rel, truth = '>', not truth
            if rel != '>':
                st = st.with_flag(f'capacity-test:{rel}')
                return st
            v = S.guard_value(st, cls)
            if v in ('T', 'F'):
                return st if (v == 'T') == truth else None
            return st
        an.node_hooks.append(node_hook)
        an.edge_hooks.append(edge_hook)
        an.refine_hooks.append(refine)


def series_step(ctx, o, c, entry, N):
    """explore one measurement step of sensor class c and check the series discipline at its exits"""
    P = ctx.P
    g = ctx.graph(c, entry)
    S = Series(P, c, N)
    an = Analysis(P, g, S.fields())
    S.install(an, g)
    fn = g.top.func
    where = f'{c.name}.{entry}'
    for over in 'TF':
        res = ctx.explore(an, [State(S.entry(over))])
        o.require(res.exits(), f'{where} has no normal exit')
        for st in res.exits():
            o.count()
            o.witness((c.name, entry, over))
            bad = []
            for k in S.classes:
                a, p = st.fields.get(f'app:{k}'), st.fields.get(f'pop:{k}')
                wantp = '1' if over == 'T' else '0'
                name = 'each probe series' if k == 'probe' else f"data['{k}']"
                if a != '1':
                    bad.append(f'{name} gets {a} entries per measurement (expected 1)')
                if p != wantp:
                    bad.append(f'{name} loses {p} oldest entries when the capacity is {"exceeded" if over == "T" else "not exceeded"} (expected {wantp})')
            anomalies = sorted(f for f in st.flags if f.startswith(('capacity-test:', 'series-', 'drops-', 'single-probe', 'probed-twice', 'last<-other', 'series<-other', 'last-rebound')))
            bad += anomalies
            for need in ('probed', 'series<-probe', 'last<-probe', 'last-reset'):
                if need not in st.flags:
                    bad.append(f'missing: {need}')
            if bad:
                o.fail(P, where, 'self.data[...].append(...) / if len(self.data[...]) > self._data_capacity: self.data[...].pop(0)',
                       f'one measurement with the capacity {"exceeded" if over == "T" else "not exceeded"}: ' + '; '.join(bad) +
                       ' -- every series must gain exactly one entry and lose exactly its oldest one iff the capacity is exceeded, so that series stay aligned and bounded',
                       file=fn and c.mod.path, line=P.lookup(c, entry)[2].lineno, path=res.path_lines(g.exit, st))
    o.sample({'class': c.name, 'step': entry, 'series_classes': S.classes, 'graph_nodes': len(g.nodes)})
    return S


def series_init(ctx, o, c):
    """initialize() leaves every series the class keeps as an empty list"""
    P = ctx.P
    g = ctx.graph(c, 'initialize')
    keys = const_keys(P, c)
    an = Analysis(P, g, [])

    def hook(an_, n, before, after):
        st = after
        a = n.ast
        if n.kind == 'stmt' and isinstance(a, ast.Assign):
            for t in a.targets:
                if is_self_attr(t, 'data'):
                    empty = isinstance(a.value, ast.Dict) and not a.value.keys
                    st = State(st.fields, st.locals, {f for f in st.flags if not f.startswith('init:')} | {'data-reset' if empty else 'data-rebound'})
                if isinstance(t, ast.Subscript) and is_self_attr(t.value, 'data') and isinstance(a.value, ast.List) and not a.value.elts:
                    if isinstance(t.slice, ast.Constant):
                        st = st.with_flag(f'init:{t.slice.value}')
        if n.kind == 'for' and ast.unparse(a.iter) in ('self._probes', 'self.probes') and isinstance(a.target, ast.Name):
            v = a.target.id
            ok = any(isinstance(s, ast.Assign) and ast.unparse(s.targets[0]) == f'self.data[{v}]' and isinstance(s.value, ast.List) and not s.value.elts for s in a.body) and \
                not any(isinstance(x, (ast.If, ast.Break, ast.Continue)) for x in ast.walk(a))
            if ok:
                st = st.with_flag('init:probe')
        if n.kind == 'stmt' and isinstance(a, ast.Assign) and any(is_self_attr(t, '_last_sense') for t in a.targets):
            st = st.with_flag('last-reset' if isinstance(a.value, ast.List) and not a.value.elts else 'last-rebound')
        return st
    an.node_hooks.append(hook)
    s0 = State({})
    fn = g.top.func
    if len(fn.args.args) > 1:
        s0.locals[(g.top.id, fn.args.args[1].arg)] = 'S'
    res = ctx.explore(an, [s0])
    o.require(res.exits(), f'{c.name}.initialize has no normal exit')
    for st in res.exits():
        o.count()
        o.witness(('init', c.name))
        missing = [k for k in ['probe'] + keys if f'init:{k}' not in st.flags]
        if missing or 'data-reset' not in st.flags or 'last-reset' not in st.flags:
            o.fail(P, f'{c.name}.initialize', 'self.data = {}; self.data[p] = []; ...',
                   f'{c.name}.initialize does not leave every series empty (missing: {missing or "-"}; flags {sorted(st.flags)}): series would start misaligned',
                   file=c.mod.path, line=c.node.lineno, path=res.path_lines(g.exit, st))


def periodic(ctx, o, c, N):
    """C19.1"""
    P = ctx.P
    for entry in ('initialize', '_periodic_sense'):
        g = ctx.graph(c, entry)
        an = Analysis(P, g, [])

        def hook(an_, n, before, after, g=g):
            st = after
            for cl in calls_at(g, n):
                if call_attr(cl) == 'schedule_event':
                    b = bind_call(cl, SCHED_PARAMS)
                    t = N.norm(b['time'], FrameEnv(n.frame)) if 'time' in b else None
                    good = t is not None and t.is_({'NOW': 1, 'self._interval': 1}) and ctext(b.get('asset_id', ast.Constant(0)), FrameEnv(n.frame)) == 'self.id' \
                        and sched_action_name(cl) == '_periodic_sense'
                    tag = 'scheduled' if good else ('scheduled-wrong:' + (t.key() if t is not None else '?') + '/' + str(sched_action_name(cl)))
                    st = st.with_flag('scheduled-twice' if 'scheduled' in st.flags else tag)
                if call_attr(cl) == 'append' and isinstance(cl.func, ast.Attribute) and ctext(cl.func.value, FrameEnv(n.frame)) == "self.data['time']":
                    ok = len(cl.args) == 1 and N.norm(cl.args[0], FrameEnv(n.frame)).is_({'NOW': 1})
                    st = st.with_flag('time<-now' if ok else 'time<-other')
            if n.kind == 'call_enter' and n.frame.func.name == 'sense':
                st = st.with_flag('sensed-twice' if 'sensed' in st.flags else 'sensed')
            return st
        an.node_hooks.append(hook)
        s0 = State({})
        fn = g.top.func
        if entry == 'initialize' and len(fn.args.args) > 1:
            s0.locals[(g.top.id, fn.args.args[1].arg)] = 'S'
        res = ctx.explore(an, [s0])
        o.require(res.exits(), f'{c.name}.{entry} has no normal exit')
        want = {'scheduled'} if entry == 'initialize' else {'scheduled', 'time<-now', 'sensed'}
        for st in res.exits():
            o.count()
            o.witness((c.name, entry))
            fl = {f for f in st.flags if f.startswith(('scheduled', 'time<-', 'sensed'))}
            if fl != want:
                o.fail(P, f'{c.name}.{entry}', 'self._env.schedule_event(self._env.now + self._interval, self.id, self._periodic_sense, ...)',
                       f'{entry} does {sorted(fl)}; expected {sorted(want)}: each start-up and each periodic step must arm exactly one next measurement one interval '
                       f'from now (k-fold repeated addition of the interval)' + ('' if entry == 'initialize' else ', stamp the time series with the clock and measure once'),
                       file=c.mod.path, line=P.lookup(c, entry)[2].lineno, path=res.path_lines(g.exit, st))
    for s in inv.attr_stores(P, '_interval'):
        if s.cls is not None and c in s.cls.mro or s.cls is c:
            o.count()
            init = P.method(c, '__init__')[1]
            p1 = init.args.args[1].arg if len(init.args.args) > 1 else None
            if s.func.name != '__init__' or not isinstance(s.stmt, ast.Assign) or ast.unparse(s.stmt.value) != p1:
                o.fail(P, s.ctx, s.stmt, 'the sampling interval is not exactly the constructor argument, fixed for the life of the sensor', file=s.mod.path, line=s.line)
    o.sample({'class': c.name, 'time_normal_form': 'NOW + self._interval', 'action': '_periodic_sense'})


def part_sensor(ctx, o, c, N):
    """C19.2"""
    P = ctx.P
    g = ctx.graph(c, '_probe_part')
    fn = P.method(c, '_probe_part')[1]
    params = [a.arg for a in fn.args.args]
    o.require(len(params) == 3, '_probe_part no longer has the (processor, part) callback signature')
    part = params[-1]
    S = Series(P, c, N)
    # the field that keeps the constructor argument `sensing_interval` (a public keyword, so its name is API) -- whatever it is called
    init_ = P.method(c, '__init__')[1]
    ifield = None
    for x in ast.walk(init_):
        if isinstance(x, ast.Assign) and isinstance(x.value, ast.Name) and x.value.id == 'sensing_interval':
            for t in x.targets:
                if is_self_attr(t):
                    ifield = t.attr
    o.count()
    if ifield is None:
        o.fail(P, f'{c.name}.__init__', 'self._probing_interval = sensing_interval', 'the sensing_interval argument is not kept in a field: the sensor cannot measure every (interval + 1)-th part',
               file=c.mod.path, line=init_.lineno)
        return

    def refine(an_, test, truth, st, frame):
        r = cmp_norm(N, test, FrameEnv(frame), True)
        if r and r[0].terms.keys() == {'self._counter'}:
            lin, op = r
            coef = lin.terms['self._counter']
            # counter < 0   <=>  lin: counter, op '<', const 0
            if coef == 1 and op == '<' and lin.const == 0:
                pol = True
            elif coef == -1 and op == '<=' and lin.const == 0:      # 0 <= counter  i.e. not negative
                pol = False
            else:
                return st.with_flag('counter-test:' + lin.key() + op + '0')
            if 'dec' not in st.flags:
                st = st.with_flag('test-before-decrement')
            want = 'T' if (truth == pol) else 'F'
            cur = st.fields['#neg']
            if cur in 'TF' and cur != want:
                return None
            return st.with_field('#neg', want)
        return NotImplemented

    def hook(an_, n, before, after):
        st = after
        a = n.ast
        if n.kind == 'stmt' and isinstance(a, (ast.Assign, ast.AugAssign)):
            tg = a.targets if isinstance(a, ast.Assign) else [a.target]
            if any(is_self_attr(t, '_counter') for t in tg):
                if isinstance(a, ast.AugAssign):
                    v = N.norm(ast.BinOp(left=a.target, op=a.op, right=a.value), FrameEnv(n.frame))
                else:
                    v = N.norm(a.value, FrameEnv(n.frame))
                if v.is_({'self._counter': 1}, -1):
                    st = st.with_flag('dec-twice' if 'dec' in st.flags else 'dec')
                elif v.is_({'self.' + ifield: 1}):
                    st = st.with_flag('reset')
                else:
                    st = st.with_flag('counter:=' + v.key())
        if n.kind == 'for' and S.loop_kind(a) and 'retargeted' not in st.flags:
            v = a.target.id if isinstance(a.target, ast.Name) else None
            ok = v and len(a.body) == 1 and isinstance(a.body[0], ast.Assign) and ast.unparse(a.body[0].targets[0]) == f'{v}.target' and ast.unparse(a.body[0].value) == part \
                and ast.unparse(a.iter) in ('self._probes', 'self.probes')
            st = st.with_flag('retargeted' if ok else 'retarget-wrong')
            if 'sensed' in st.flags:
                st = st.with_flag('sensed-before-retarget')
        if n.kind == 'call_enter' and n.frame.func.name == 'sense':
            st = st.with_flag('sensed-twice' if 'sensed' in st.flags else 'sensed')
        for cl in calls_at(g, n):
            if call_attr(cl) == 'sense':
                st = st.with_flag('sensed')
            if call_attr(cl) == 'schedule_event':
                st = st.with_flag('deferred')
        return st
    an = Analysis(P, g, ['#neg'])
    an.refine_hooks.append(refine)
    an.node_hooks.append(hook)
    for neg in 'TF':
        res = ctx.explore(an, [State({'#neg': neg})])
        o.require(res.exits(), '_probe_part has no normal exit')
        for st in res.exits():
            o.count()
            o.witness(('_probe_part', neg))
            fl = {f for f in st.flags if not f.startswith('loop')}
            want = {'dec', 'retargeted', 'sensed', 'reset'} if neg == 'T' else {'dec'}
            if fl != want:
                o.fail(P, f'{c.name}._probe_part', 'self._counter -= 1; if self._counter < 0: retarget probes; self.sense(); self._counter = self._probing_interval',
                       f'when the decremented skip counter is {"negative" if neg == "T" else "not negative"} _probe_part does {sorted(fl)}; expected {sorted(want)} '
                       f'(measure the first finished part and then every (n+1)-th, at the moment the processor finishes it)',
                       file=c.mod.path, line=fn.lineno, path=res.path_lines(g.exit, st))
    # the interval is the constructor argument; the hook is registered once
    init = P.method(c, '__init__')[1]
    for s in inv.attr_stores(P, ifield):
        o.count()
        if not (s.cls is c and s.func.name == '__init__' and isinstance(s.stmt, ast.Assign) and ast.unparse(s.stmt.value) == 'sensing_interval'):
            o.fail(P, s.ctx, s.stmt, 'the skip interval is not exactly the sensing_interval argument', file=s.mod.path, line=s.line)
    # the skip counter follows the finished parts only: nothing else (a restore hook, a manual measurement) may restart or shift the cadence
    cw = inv.covered(P, {'__init__', 'initialize', '_probe_part'})
    for s in inv.attr_stores(P, '_counter'):
        if s.cls is not None and c in s.cls.mro:
            o.count()
            if s.func is None or s.func.name not in cw:
                o.fail(P, s.ctx, s.stmt, 'the skip counter of the part sensor is written outside the constructor / initialize / the finished-part hook: '
                       'the "first part, then every (n+1)-th" cadence would restart or shift', file=s.mod.path, line=s.line)
    gi = ctx.graph(c, 'initialize')
    an2 = Analysis(P, gi, ['_env', '_counter'])

    def ihook(an_, n, before, after):
        st = after
        for cl in calls_at(gi, n):
            if call_attr(cl) == 'add_finish_processing_callback':
                good = ast.unparse(cl.func.value) == 'self._part_processor' and len(cl.args) == 1 and ast.unparse(cl.args[0]) == 'self._probe_part'
                st = st.with_flag('hooked-twice' if 'hooked' in st.flags else ('hooked' if good else 'hooked-wrong'))
        a = n.ast
        if n.kind == 'stmt' and isinstance(a, ast.Assign) and any(is_self_attr(t, '_counter') for t in a.targets):
            st = st.with_flag('counter0' if ast.unparse(a.value) == '0' else 'counter-other')
        return st
    an2.node_hooks.append(ihook)
    s0 = State({'_env': 'N', '_counter': TOP})
    ifn = gi.top.func
    s0.locals[(gi.top.id, ifn.args.args[1].arg)] = 'S'
    res = ctx.explore(an2, [s0])
    o.require(res.exits(), f'{c.name}.initialize has no normal exit')
    for st in res.exits():
        o.count()
        o.witness('initialize')
        fl = {f for f in st.flags if f.startswith(('hooked', 'counter'))}
        if fl != {'hooked', 'counter0'}:
            o.fail(P, f'{c.name}.initialize', 'self._part_processor.add_finish_processing_callback(self._probe_part); self._counter = 0',
                   f'initialize does {sorted(fl)}; expected the finish-processing hook registered exactly once and the skip counter zeroed (first part is measured)',
                   file=c.mod.path, line=ifn.lineno, path=res.path_lines(gi.exit, st))
    for s in inv.method_calls(P, 'add_finish_processing_callback'):
        if s.cls is c:
            o.count()
            if s.func.name != 'initialize':
                o.fail(P, s.ctx, s.stmt, 'the finish-processing hook is registered outside initialize (it could be registered twice)', file=s.mod.path, line=s.line)


def sense_order(ctx, o, c):
    """C19.4"""
    P = ctx.P
    g = ctx.graph(c, 'sense')
    fn = P.method(c, 'sense')[1]
    N = Normalizer(P, c)
    an = Analysis(P, g, [])

    def hook(an_, n, before, after):
        st = after
        a = n.ast
        if n.kind == 'call_enter' and n.frame.func.name == '_collect_data':
            st = st.with_flag('collected-twice' if 'collected' in st.flags else 'collected')
            if 'callbacks' in st.flags:
                st = st.with_flag('callbacks-before-collect')
        if n.kind == 'for' and ast.unparse(a.iter) == 'self._on_sense' and 'callbacks' not in st.flags:
            v = a.target.id if isinstance(a.target, ast.Name) else None
            ok = False
            if v and len(a.body) == 1 and isinstance(a.body[0], ast.Expr) and isinstance(a.body[0].value, ast.Call):
                cl = a.body[0].value
                ok = ast.unparse(cl.func) == v and len(cl.args) == 3 and not cl.keywords and ast.unparse(cl.args[0]) == 'self' and \
                    N.norm(cl.args[1], FrameEnv(n.frame)).is_({'NOW': 1}) and ast.unparse(cl.args[2]) in ('self.last_sense', 'self._last_sense')
            st = st.with_flag('callbacks' if ok else 'callbacks-wrong')
            if 'collected' not in st.flags:
                st = st.with_flag('callbacks-before-collect')
        return st
    an.node_hooks.append(hook)
    res = ctx.explore(an, [State({})])
    o.require(res.exits(), 'Sensor.sense has no normal exit')
    for st in res.exits():
        o.count()
        o.witness(c.name)
        fl = {f for f in st.flags if f.startswith(('collected', 'callbacks'))}
        if fl != {'collected', 'callbacks'}:
            o.fail(P, f'{c.name}.sense', 'self._collect_data(); for c in self._on_sense: c(self, self._env.now, self.last_sense)',
                   f'sense does {sorted(fl)}; expected the data collected once and then every on-sense callback called once, in registration order, with (sensor, now, last values)',
                   file=c.mod.path, line=fn.lineno, path=res.path_lines(g.exit, st))
    # registration appends; the list is only bound by the constructor
    for s in inv.attr_uses(P, '_on_sense'):
        role = s.extra['role']
        o.count()
        if role[0] == 'method' and role[1] != 'append':
            o.fail(P, s.ctx, s.stmt, f'the on-sense callback list is changed with {role[1]} (registration order must be call order)', file=s.mod.path, line=s.line)
        if role[0] == 'store' and s.func.name != '__init__':
            o.fail(P, s.ctx, s.stmt, 'the on-sense callback list is re-bound outside the constructor (registered callbacks would be lost)', file=s.mod.path, line=s.line)
    reg = P.method(c, 'add_on_sense_callback')[1]
    o.count()
    cb = reg.args.args[1].arg
    if not any(isinstance(x, ast.Call) and ast.unparse(x.func) == 'self._on_sense.append' and [ast.unparse(a) for a in x.args] == [cb] for x in ast.walk(reg)):
        o.fail(P, f'{c.name}.add_on_sense_callback', f'self._on_sense.append({cb})', 'add_on_sense_callback does not append the callback', file=c.mod.path, line=reg.lineno)
    # last_sense reports the stored list
    pg = P.lookup_prop(c, 'last_sense', 'get')
    o.count()
    if not pg or ast.unparse(pg[1].body[-1]) != 'return self._last_sense':
        o.fail(P, f'{c.name}.last_sense', 'return self._last_sense', 'last_sense does not report the values of the last measurement', file=c.mod.path, line=c.node.lineno)


def probe_and_cms(ctx, o):
    """C19.5"""
    P = ctx.P
    pr = P.cls('Probe')
    fn = P.method(pr, 'probe')[1]
    o.count()
    rets = [r for r in ast.walk(fn) if isinstance(r, ast.Return)]
    ok = len(rets) == 1 and isinstance(rets[0].value, ast.Call) and ast.unparse(rets[0].value.func) in ('copy.copy', 'copy.deepcopy', 'copy', 'deepcopy') and \
        len(rets[0].value.args) == 1 and ast.unparse(rets[0].value.args[0]) == 'self._get_data(self.target)'
    if not ok:
        o.fail(P, 'Probe.probe', 'return copy.copy(self._get_data(self.target))', 'a measurement is not a copy of what get_data(target) returns at that moment (later changes of the target would leak into stored data)',
               file=pr.mod.path, line=fn.lineno)
    else:
        o.witness('probe-copy')
    ap = P.cls('AttributeProbe')
    gd = P.method(ap, '_get_data')[1]
    o.count()
    t = gd.args.args[1].arg
    if not any(isinstance(r, ast.Return) and r.value is not None and ast.unparse(r.value).startswith(f'getattr({t}, self._attribute_name') for r in ast.walk(gd)):
        o.fail(P, 'AttributeProbe._get_data', 'return getattr(target, self._attribute_name, None)', 'an attribute probe does not read the named attribute of its target', file=ap.mod.path, line=gd.lineno)
    cm = P.cls('Cms')
    g = ctx.graph(cm, 'add_sensor')
    fa = P.method(cm, 'add_sensor')[1]
    sv = fa.args.args[1].arg

    def refine(an_, test, truth, st, frame):
        if isinstance(test, ast.Compare) and len(test.ops) == 1 and ast.unparse(test.left) == sv and ast.unparse(test.comparators[0]) == 'self._sensors' and \
                isinstance(test.ops[0], (ast.In, ast.NotIn)):
            present = truth == isinstance(test.ops[0], ast.In)
            want = 'T' if present else 'F'
            cur = st.fields['#present']
            if cur in 'TF' and cur != want:
                return None
            return st.with_field('#present', want)
        return NotImplemented

    def hook(an_, n, before, after):
        st = after
        for cl in calls_at(g, n):
            if call_attr(cl) == 'append' and ast.unparse(cl.func.value) == 'self._sensors':
                st = st.with_flag('recorded' if [ast.unparse(a) for a in cl.args] == [sv] and 'recorded' not in st.flags else 'recorded-wrong')
            if call_attr(cl) == 'add_on_sense_callback':
                arg = cl.args[0] if len(cl.args) == 1 else None
                env = FrameEnv(n.frame)
                if isinstance(arg, ast.Name):
                    r = env.resolve(arg.id)
                    arg = r[0] if r is not None else arg
                good = ast.unparse(cl.func.value) == sv and arg is not None and ast.unparse(arg) == 'self.on_sense'
                st = st.with_flag('hooked-twice' if 'hooked' in st.flags else ('hooked' if good else 'hooked-wrong'))
        return st
    an = Analysis(P, g, ['#present'])
    an.refine_hooks.append(refine)
    an.node_hooks.append(hook)
    for pres in 'TF':
        res = ctx.explore(an, [State({'#present': pres})])
        o.require(res.exits(), 'Cms.add_sensor has no normal exit')
        for st in res.exits():
            o.count()
            o.witness(('add_sensor', pres))
            want = set() if pres == 'T' else {'recorded', 'hooked'}
            if set(st.flags) != want:
                o.fail(P, 'Cms.add_sensor', 'if sensor in self._sensors: return; self._sensors.append(sensor); sensor.add_on_sense_callback(self.on_sense)',
                       f'adding a sensor that is {"already" if pres == "T" else "not yet"} registered does {sorted(st.flags) or "nothing"}; expected {sorted(want) or "nothing"} '
                       f'(each registered sensor\'s measurements must reach on_sense exactly once)', file=cm.mod.path, line=fa.lineno, path=res.path_lines(g.exit, st))
    for s in inv.attr_uses(P, '_sensors'):
        role = s.extra['role']
        if s.cls is cm:
            o.count()
            if (role[0] == 'method' and role[1] not in ('append', 'copy', 'index', 'count')) or (role[0] == 'store' and s.func.name != '__init__'):
                o.fail(P, s.ctx, s.stmt, 'the list of registered sensors is changed outside add_sensor', file=s.mod.path, line=s.line)


def defaults_and_passthrough(ctx, o):
    """C19.6"""
    P = ctx.P
    ps = P.cls('OutputPartSensor')
    init = P.method(ps, '__init__')[1]
    o.count()
    doc, sig = doc_default(ps.node, init, 'sensing_interval')
    if doc is None or sig is None:
        raise AnalysisError('sensing_interval: documented or signature default not found')
    if doc != sig:
        o.fail(P, 'OutputPartSensor.__init__', f'sensing_interval = {sig}', f'the signature default of sensing_interval ({sig}) differs from the documented default ({doc}: every part is measured)',
               file=ps.mod.path, line=init.lineno)
    else:
        o.witness('sensing_interval')
    for nm in ('Sensor', 'PeriodicSensor', 'OutputPartSensor'):
        c = P.cls(nm)
        fn = P.method(c, '__init__')[1]
        a = fn.args
        params = a.posonlyargs + a.args
        d = dict(zip([p.arg for p in params][len(params) - len(a.defaults):], a.defaults))
        o.count()
        dv = d.get('data_capacity')
        if dv is None or ast.unparse(dv).replace(' ', '') not in ("float('inf')", 'float("inf")', 'math.inf', 'inf'):
            o.fail(P, f'{nm}.__init__', f'data_capacity = {ast.unparse(dv) if dv is not None else "<none>"}', 'data_capacity is documented as optional (unbounded); the signature default is not +infinity',
                   file=c.mod.path, line=fn.lineno)
        else:
            o.witness(('data_capacity', nm))
        # pass-through to the base constructor: same-named parameters receive the same-named arguments
        g = ctx.graph(c, '__init__')
        for n in g.nodes.values():
            if n.kind == 'call_enter' and n.frame.func.name == '__init__' and n.frame.parent is not None and n.frame.defcls.name in ('Sensor', 'Asset'):
                callee = n.frame
                caller_params = {p.arg for p in callee.parent.func.args.args}
                for p, (expr, efr) in callee.argmap.items():
                    if efr is None or p not in caller_params:
                        continue
                    o.count()
                    if not (isinstance(expr, ast.Name) and expr.id == p):
                        o.fail(P, f'{callee.parent.qual}', n.src(), f'{callee.parent.qual} passes `{ast.unparse(expr)}` as `{p}` to {callee.qual} (arguments of the sensor constructor are mixed up)',
                               node=n)
                    else:
                        o.witness((callee.parent.qual, p))
    # capacity and probes are stored from the arguments
    s_init = P.method('Sensor', '__init__')[1]
    for f, p in (('_data_capacity', 'data_capacity'), ('_probes', 'probes')):
        o.count()
        if not any(isinstance(x, ast.Assign) and is_self_attr(x.targets[0], f) and ast.unparse(x.value) == p for x in ast.walk(s_init)):
            o.fail(P, 'Sensor.__init__', f'self.{f} = {p}', f'Sensor does not store its {p} argument', file=P.cls('Sensor').mod.path, line=s_init.lineno)
        for s in inv.attr_stores(P, f):
            if s.func is not None and s.func.name != '__init__':
                o.fail(P, s.ctx, s.stmt, f'{f} is changed after construction', file=s.mod.path, line=s.line)


def check(ctx):
    P = ctx.P
    for nm in ('Sensor', 'PeriodicSensor', 'OutputPartSensor', 'Probe', 'AttributeProbe', 'Cms'):
        if not P.has_cls(nm):
            raise AnalysisError(f'class {nm} not found')
    S, PS, OS = P.cls('Sensor'), P.cls('PeriodicSensor'), P.cls('OutputPartSensor')
    o1 = Ob('C19.1', 'K8+K3', 'PeriodicSensor: initialize and every periodic step arm exactly one next measurement at now + interval (own id, _periodic_sense); a step stamps the time series with now and measures once')
    periodic(ctx, o1, PS, Normalizer(P, PS))
    o2 = Ob('C19.2', 'K6+K2', 'OutputPartSensor: counter - 1; below zero => retarget every probe to the part, measure synchronously, counter := interval; otherwise nothing; hook registered once, counter starts at 0')
    part_sensor(ctx, o2, OS, Normalizer(P, OS))
    o3 = Ob('C19.3', 'K4+K9', 'per measurement every series (each probe, every constant key) gains exactly one entry and loses exactly its oldest iff the capacity is exceeded; one probe() per probe feeds series and last-sense; initialize empties every series')
    series_step(ctx, o3, S, 'sense', Normalizer(P, S))
    series_step(ctx, o3, OS, 'sense', Normalizer(P, OS))
    series_step(ctx, o3, PS, '_periodic_sense', Normalizer(P, PS))
    # ... and the public sense() of a periodic sensor is a measurement like any other: the time series must move with the probe series
    series_step(ctx, o3, PS, 'sense', Normalizer(P, PS))
    for c in (S, PS, OS):
        series_init(ctx, o3, c)
    o4 = Ob('C19.4', 'K2', 'sense: collect once, then each on-sense callback once in registration order with (sensor, now, last values)')
    sense_order(ctx, o4, S)
    for c in (PS, OS):
        o4.count()
        if P.lookup(c, 'sense')[0] is not S or P.lookup(c, '_collect_data')[0] is not S:
            o4.notes.append(f'{c.name} overrides sense/_collect_data: analysed through its own step in C19.3')
    o5 = Ob('C19.5', 'K2', 'Probe.probe returns a copy of get_data(target); Cms.add_sensor records a new sensor and registers on_sense exactly once, nothing for a known sensor')
    probe_and_cms(ctx, o5)
    o6 = Ob('C19.6', 'K13', 'documented defaults (sensing_interval, unbounded data_capacity) equal the signature defaults; sensor constructors hand same-named arguments to the base constructor')
    defaults_and_passthrough(ctx, o6)
    o7 = ctx.shared('c01', 'C01.5', 'C19.7', 'a periodic sensor asks for its next measurement at now + interval: the event queue must queue it for exactly that time '
                    '(a queue that rounds or clamps requested times moves every measurement off the k-fold sum of the interval)')
    o8 = ctx.shared('c20', 'C20.4', 'C19.8', 'a sensor starts measuring in initialize(): every asset is initialised exactly once, also a sensor that another asset creates while '
                    'the assets are being initialised (it would never take a measurement)')
    return [o1, o2, o3, o4, o5, o6, o7, o8]


CLAIM = {
    'technique': 'static analysis: typestate exploration of the measurement steps over an abstract series domain (entries appended / dropped per series class x capacity exceeded) '
                 'with loop summaries, normal forms of the scheduling time and the skip counter, case-split exploration of add_sensor / initialize, documented-default and '
                 'constructor pass-through checks',
    'level_text': 'Each sampling step re-arms itself one interval ahead, the skip counter follows the n+1 rule, every series is appended and trimmed alike so series stay '
                  'aligned and bounded, callbacks run once in order; the k-th sampling instant of a run and probed values are not computed.',
    'level_note': 'Assumes the series are aligned and within capacity before a measurement (the invariant the step is shown to preserve) and that user callbacks do not touch sensor.data.',
}
